//! Driver: `pdbv check <ID> <quick|thorough>` | `pdbv shard ...` | `pdbv replay <ID> <file>`
//! Exit codes: 0 held, 1 violation (prints VIOLATION line), 2 could not decide.

use crate::{
	props::{self, PropDef},
	runner::{self, Ctx, ShardReport},
};
use std::{
	cell::{Cell, RefCell},
	path::{Path, PathBuf},
	process::{Command, Stdio},
	time::{Duration, Instant},
};

fn verif_root() -> PathBuf {
	std::env::var("VERIF_ROOT").map(PathBuf::from).unwrap_or_else(|_| PathBuf::from("/verif"))
}

fn seed() -> u64 {
	std::env::var("VERIF_SEED").ok().and_then(|s| s.trim().parse::<i64>().ok()).unwrap_or(0) as u64
}

pub fn main_entry() {
	let args: Vec<String> = std::env::args().collect();
	if args.len() < 2 {
		eprintln!("usage: pdbv check <ID> <tier> | shard <ID> <tier> <i> <K> <out> | replay <ID> <file> | list");
		std::process::exit(2);
	}
	runner::install_panic_hook();
	runner::init_logging();
	let code = match args[1].as_str() {
		"list" => {
			for p in props::all() {
				println!("{} {}", p.id, p.level);
			}
			0
		},
		"check" => check(&args[2], args.get(3).map(|s| s.as_str()).unwrap_or("quick")),
		"shard" => shard(&args[2], &args[3], args[4].parse().unwrap(), args[5].parse().unwrap(), Path::new(&args[6])),
		"replay" => replay(&args[2], Path::new(&args[3])),
		"lock-child" => crate::props::c18::child_main(&args[2], args.get(3).map(|s| s.as_str()).unwrap_or("0")),
		"kill-child" => crate::props::c02::kill_child_main(&args[2], &args[3]),
		_ => {
			eprintln!("unknown command");
			2
		},
	};
	std::process::exit(code);
}

fn find(id: &str) -> Option<PropDef> {
	props::all().into_iter().find(|p| p.id == id)
}

fn make_ctx(p: &PropDef, tier: &str, shard: u64, shards: u64) -> Ctx {
	// the tag of the driver process that started this shard keeps concurrent check runs (e.g. a
	// background sweep) from removing each other's scratch directories
	let tag = std::env::var("PDBV_RUN_TAG").unwrap_or_else(|_| "solo".to_string());
	let scratch = runner::scratch_root().join(format!("pdbv.{}.{}.{}.{}", p.id, tag, std::process::id(), shard));
	let _ = std::fs::remove_dir_all(&scratch);
	std::fs::create_dir_all(&scratch).expect("scratch");
	Ctx {
		prop: p.id.to_string(),
		tier: tier.to_string(),
		seed: seed(),
		shard,
		shards,
		scratch,
		replay_dir: verif_root().join("replays"),
		report: RefCell::new(ShardReport::default()),
		case_no: Cell::new(0),
		out_path: RefCell::new(None),
	}
}

fn shard(id: &str, tier: &str, i: u64, k: u64, out: &Path) -> i32 {
	let p = match find(id) {
		Some(p) => p,
		None => return 2,
	};
	let ctx = make_ctx(&p, tier, i, k);
	*ctx.out_path.borrow_mut() = Some(out.to_path_buf());
	(p.run)(&ctx);
	let _ = std::fs::remove_dir_all(&ctx.scratch);
	ctx.write_report();
	0
}

fn replay(id: &str, path: &Path) -> i32 {
	let p = match find(id) {
		Some(p) => p,
		None => {
			eprintln!("unknown property {id}");
			return 2
		},
	};
	let ctx = make_ctx(&p, "replay", 0, 1);
	// The library iterates over std HashMaps (per-process random order) when a transaction
	// spans several columns, so the same stop-point index can denote a different instant in
	// another process: a replay is repeated a few times and fails if any repetition fails.
	let mut r = (p.replay)(&ctx, path);
	let mut reps = 1;
	while r.is_ok() && reps < 6 {
		r = (p.replay)(&ctx, path);
		reps += 1;
	}
	let _ = std::fs::remove_dir_all(&ctx.scratch);
	match r {
		Ok(()) => {
			println!("replay of {} passed (property held on this case)", path.display());
			0
		},
		Err(f) => {
			println!("replay failed: {} -- {}", f.sig, f.detail);
			if let Some(c) = &f.case_override {
				if let Some(o) = c.get("only") {
					println!("narrowed to: {}", o);
				}
			}
			println!("VIOLATION property={} replay={}", id, path.display());
			1
		},
	}
}

fn check(id: &str, tier: &str) -> i32 {
	let start = Instant::now();
	let p = match find(id) {
		Some(p) => p,
		None => {
			eprintln!("unknown property {id}");
			return 2
		},
	};
	let k = (p.shards)(tier);
	let exe = std::env::current_exe().expect("exe");
	let tmp = runner::scratch_root().join(format!("pdbv.drv.{}.{}", id, std::process::id()));
	let _ = std::fs::remove_dir_all(&tmp);
	std::fs::create_dir_all(&tmp).expect("tmp");
	let mut children = Vec::new();
	let shuttle_exe = verif_root().join("target/shuttle/release/pdbs");
	let mut exes: Vec<(&str, PathBuf)> = Vec::new();
	if p.engine == 0 || p.engine == 2 {
		exes.push(("h", exe.clone()));
	}
	if p.engine == 3 || p.engine == 5 {
		exes.push(("i", exe.with_file_name("pdbv_io")));
	}
	if p.engine == 1 || p.engine == 2 || p.engine == 5 {
		exes.push(("s", shuttle_exe));
	}
	// with two engines the shards are split between them
	let per_engine = if exes.len() == 2 { k / 2 } else { k };
	for (tag, e) in &exes {
		for i in 0..per_engine {
			let out = tmp.join(format!("shard{tag}{i}.json"));
			let child = Command::new(e)
				.args(["shard", id, tier, &i.to_string(), &per_engine.to_string(), out.to_str().unwrap()])
				.env("PDBV_RUN_TAG", format!("r{}", std::process::id()))
				.stdin(Stdio::null())
				.spawn()
				.expect("spawn shard");
			children.push((i, child, out));
		}
	}
	let limit = Duration::from_secs(std::env::var("PDBV_WATCHDOG").ok().and_then(|s| s.parse().ok()).unwrap_or_else(|| (p.watchdog_s)(tier)));
	let mut undecided = Vec::new();
	let mut merged = ShardReport::default();
	for (i, mut child, out) in children {
		let status = loop {
			match child.try_wait() {
				Ok(Some(s)) => break Some(s),
				Ok(None) => {
					if start.elapsed() > limit {
						let _ = child.kill();
						let _ = child.wait();
						break None
					}
					std::thread::sleep(Duration::from_millis(20));
				},
				Err(_) => break None,
			}
		};
		match status {
			Some(s) if s.success() => match std::fs::read(&out).ok().and_then(|b| serde_json::from_slice::<ShardReport>(&b).ok()) {
				Some(mut rep) => {
					if let Ok(b) = std::fs::read(out.with_extension("fps")) {
						for c in b.chunks_exact(8) {
							rep.fps.insert(u64::from_le_bytes(c.try_into().unwrap()));
						}
					}
					merged.merge(rep);
				},
				None => undecided.push(format!("shard {i}: no report")),
			},
			Some(s) => undecided.push(format!("shard {i}: exit status {s}")),
			None => undecided.push(format!("shard {i}: watchdog ({}s) - killed", limit.as_secs())),
		}
	}
	let _ = std::fs::remove_dir_all(&tmp);
	// stale scratch of killed shards
	if let Ok(rd) = std::fs::read_dir(runner::scratch_root()) {
		for e in rd.flatten() {
			let n = e.file_name().to_string_lossy().to_string();
			if n.starts_with(&format!("pdbv.{}.r{}.", id, std::process::id())) {
				let _ = std::fs::remove_dir_all(e.path());
			}
		}
	}

	// known findings
	let known = props::load_known(&verif_root());
	let mut violations = Vec::new();
	let mut known_hits: Vec<String> = merged.known_findings.clone();
	for f in merged.failures.iter_mut() {
		if let Some(kf) = known.iter().find(|kf| kf.property == id && kf.status == "known" && kf.signature == f.signature) {
			f.known = true;
			let line = format!("{} [{}]", kf.what, kf.signature);
			if !known_hits.contains(&line) {
				known_hits.push(line);
			}
		} else {
			violations.push(f.clone());
		}
	}
	for k in &known_hits {
		println!("KNOWN-FINDING: property={} {}", id, k);
	}
	let wall = start.elapsed().as_secs_f64();
	let distinct = merged.fps.len() as u64 + merged.sub_nontrivial;
	let mut rule = merged.rules.join(" | ");
	if rule.is_empty() {
		rule = p.rule.to_string();
	} else {
		rule = format!("{} || {}", p.rule, rule);
	}
	let mut assumptions: Vec<String> = p.assumptions.iter().map(|s| s.to_string()).collect();
	assumptions.extend(merged.notes.iter().cloned());
	for u in &undecided {
		assumptions.push(format!("INCONCLUSIVE: {u}"));
	}
	let evidence = serde_json::json!({
		"property_id": id,
		"tier": if tier == "thorough" { "thorough" } else { "quick" },
		"seed": seed() as i64,
		"level": p.level,
		"wall_s": (wall * 100.0).round() / 100.0,
		"violations": violations.len(),
		"assumptions": assumptions,
		"coverage": {
			"evaluations": merged.evaluations,
			"distinct_nontrivial": distinct,
			"rule": rule,
			"samples": merged.samples,
			"generated_cases": merged.cases,
			"nontrivial_cases": merged.nontrivial_cases,
			"labels": merged.labels,
			"counters": merged.counters,
			"excluded_known": merged.excluded_known,
			"shrink_runs": merged.shrink_runs,
			"exhaustive": merged.exhaustive,
			"shards": k,
			"known_findings_reported": known_hits,
		},
	});
	// runs against deliberately mutated trees (bin/seedtest) must not overwrite the evidence
	let evdir = std::env::var("PDBV_EVIDENCE_DIR").map(PathBuf::from).unwrap_or_else(|_| verif_root().join("evidence"));
	let _ = std::fs::create_dir_all(&evdir);
	let _ = std::fs::write(evdir.join(format!("{id}.json")), serde_json::to_string_pretty(&evidence).unwrap());

	println!(
		"{id} {tier}: {} evaluations in {} generated cases, {} distinct non-trivial, {:.1}s, labels {:?}",
		merged.evaluations, merged.cases, distinct, wall, merged.labels
	);
	if !violations.is_empty() {
		for v in &violations {
			println!("failure: {} -- {}", v.signature, v.detail);
			println!("VIOLATION property={} replay={}", id, v.replay);
		}
		return 1
	}
	if !undecided.is_empty() {
		for u in &undecided {
			println!("INCONCLUSIVE: {u}");
		}
		return 2
	}
	0
}
