//! Independent reader of the documented on-disk formats (see DESIGN 3.5).

pub const SIZES: [u16; 255] = [
	32, 33, 34, 35, 36, 37, 38, 39, 40, 41, 42, 43, 44, 46, 47, 48, 50, 51, 52, 54, 55, 57, 58, 60,
	62, 63, 65, 67, 69, 71, 73, 75, 77, 79, 81, 83, 85, 88, 90, 93, 95, 98, 101, 103, 106, 109,
	112, 115, 119, 122, 125, 129, 132, 136, 140, 144, 148, 152, 156, 160, 165, 169, 174, 179, 183,
	189, 194, 199, 205, 210, 216, 222, 228, 235, 241, 248, 255, 262, 269, 276, 284, 292, 300, 308,
	317, 325, 334, 344, 353, 363, 373, 383, 394, 405, 416, 428, 439, 452, 464, 477, 490, 504, 518,
	532, 547, 562, 577, 593, 610, 627, 644, 662, 680, 699, 718, 738, 758, 779, 801, 823, 846, 869,
	893, 918, 943, 969, 996, 1024, 1052, 1081, 1111, 1142, 1174, 1206, 1239, 1274, 1309, 1345,
	1382, 1421, 1460, 1500, 1542, 1584, 1628, 1673, 1720, 1767, 1816, 1866, 1918, 1971, 2025, 2082,
	2139, 2198, 2259, 2322, 2386, 2452, 2520, 2589, 2661, 2735, 2810, 2888, 2968, 3050, 3134, 3221,
	3310, 3402, 3496, 3593, 3692, 3794, 3899, 4007, 4118, 4232, 4349, 4469, 4593, 4720, 4850, 4984,
	5122, 5264, 5410, 5559, 5713, 5871, 6034, 6200, 6372, 6548, 6729, 6916, 7107, 7303, 7506, 7713,
	7927, 8146, 8371, 8603, 8841, 9085, 9337, 9595, 9860, 10133, 10413, 10702, 10998, 11302, 11614,
	11936, 12266, 12605, 12954, 13312, 13681, 14059, 14448, 14848, 15258, 15681, 16114, 16560,
	17018, 17489, 17973, 18470, 18981, 19506, 20046, 20600, 21170, 21756, 22358, 22976, 23612,
	24265, 24936, 25626, 26335, 27064, 27812, 28582, 29372, 30185, 31020, 31878, 32760,
];

use crate::{
	interp::{Failure, Interp},
	model::*,
	spec::*,
};
use std::{
	collections::{BTreeMap, BTreeSet, HashMap},
	os::unix::{fs::FileExt, io::AsRawFd},
	path::Path,
};

type LRes<T> = Result<T, Failure>;

macro_rules! lfail {
	($sig:expr, $($arg:tt)*) => {
		return Err(Failure::new($sig, format!($($arg)*)))
	};
}

pub const MULTIPART_ENTRY_SIZE: usize = 4096;

pub fn entry_size(tier: u8) -> usize {
	if tier == 255 {
		MULTIPART_ENTRY_SIZE
	} else {
		SIZES[tier as usize] as usize
	}
}

/// Same key hashing as the database (re-implemented with the same primitives).
pub fn hash_key(key: &[u8], salt: &[u8; 32], uniform: bool) -> [u8; 32] {
	let mut k = [0u8; 32];
	if uniform {
		if salt == &[0u8; 32] {
			k.copy_from_slice(&key[..32]);
			return k
		}
		use siphasher::sip128::Hasher128;
		use std::hash::Hasher;
		let mut hasher = siphasher::sip128::SipHasher13::new_with_key(salt[..16].try_into().unwrap());
		hasher.write(key);
		let hash = hasher.finish128();
		k[0..8].copy_from_slice(&hash.h1.to_le_bytes());
		k[8..16].copy_from_slice(&hash.h2.to_le_bytes());
		k[16..].copy_from_slice(&key[16..32]);
	} else {
		use blake2::{
			digest::{typenum::U32, FixedOutput, Update},
			Blake2bMac,
		};
		let mut ctx = Blake2bMac::<U32>::new_with_salt_and_personal(salt, &[], &[]).unwrap();
		ctx.update(key);
		k.copy_from_slice(&ctx.finalize_fixed());
	}
	k
}

#[derive(Clone, Debug, PartialEq, Eq)]
pub enum SlotKind {
	Tombstone(u64),
	/// single entry or last part of a chain
	Sized,
	MultiHead(u64, bool),
	MultiPart(u64),
}

pub struct TableImg {
	pub tier: u8,
	pub entry_size: usize,
	pub data: Vec<u8>,
	pub file_len: u64,
	pub filled: u64,
	pub last_removed: u64,
	pub free_list: Vec<u64>,
	/// slot -> number of times it was claimed by a live chain
	pub used: HashMap<u64, u32>,
}

impl TableImg {
	pub fn slot(&self, i: u64) -> Option<&[u8]> {
		let s = i as usize * self.entry_size;
		self.data.get(s..s + self.entry_size)
	}
	pub fn kind(&self, i: u64) -> Option<SlotKind> {
		let b = self.slot(i)?;
		let next = || u64::from_le_bytes(b[2..10].try_into().unwrap());
		Some(match (b[0], b[1]) {
			(0xff, 0xff) => SlotKind::Tombstone(next()),
			(0xfd, 0xff) if self.tier == 255 => SlotKind::MultiHead(next(), false),
			(0xfd, 0x7f) if self.tier == 255 => SlotKind::MultiHead(next(), true),
			(0xfe, 0xff) if self.tier == 255 => SlotKind::MultiPart(next()),
			_ => SlotKind::Sized,
		})
	}
}

pub struct Decoded {
	pub rc: u32,
	pub key_tail: Option<[u8; 26]>,
	pub value: Vec<u8>,
	pub compressed: bool,
	pub slots: Vec<u64>,
}

pub struct ColImg {
	pub tables: BTreeMap<u8, TableImg>,
	/// (index bits, non-empty entries as (chunk, slot-in-chunk, raw entry))
	pub indexes: Vec<(u8, Vec<(u64, usize, u64)>)>,
	/// address -> count
	pub refcounts: Vec<(u8, HashMap<u64, u64>)>,
}

fn read_sparse_nonzero_u64(path: &Path, skip: u64, mut f: impl FnMut(u64, u64)) -> std::io::Result<u64> {
	let file = std::fs::File::open(path)?;
	let len = file.metadata()?.len();
	let fd = file.as_raw_fd();
	let mut off: i64 = skip as i64;
	let mut buf = vec![0u8; 1 << 16];
	while (off as u64) < len {
		let data = unsafe { libc::lseek(fd, off, libc::SEEK_DATA) };
		if data < 0 {
			break
		}
		let data = (data as u64).max(skip) & !7;
		let mut hole = unsafe { libc::lseek(fd, data as i64, libc::SEEK_HOLE) };
		if hole < 0 {
			hole = len as i64;
		}
		let mut p = data;
		while p < hole as u64 {
			let n = ((hole as u64 - p) as usize).min(buf.len());
			let r = file.read_at(&mut buf[..n], p)?;
			if r == 0 {
				break
			}
			for (i, c) in buf[..r - r % 8].chunks_exact(8).enumerate() {
				let v = u64::from_le_bytes(c.try_into().unwrap());
				if v != 0 {
					f(p + i as u64 * 8, v);
				}
			}
			p += r as u64;
		}
		off = hole;
	}
	Ok(len)
}

pub fn load_col(dir: &Path, col: u8) -> LRes<ColImg> {
	let mut tables = BTreeMap::new();
	let mut indexes = Vec::new();
	let mut refcounts = Vec::new();
	let rd = std::fs::read_dir(dir).map_err(|e| Failure::new("harness-io", e.to_string()))?;
	for e in rd.flatten() {
		let name = e.file_name().to_string_lossy().to_string();
		if let Some(rest) = name.strip_prefix(&format!("table_{col:02}_")) {
			let tier = u8::from_str_radix(rest, 16).map_err(|_| Failure::new("layout-bad-file-name", name.clone()))?;
			let data = std::fs::read(e.path()).map_err(|e| Failure::new("harness-io", e.to_string()))?;
			let es = entry_size(tier);
			let (mut last_removed, mut filled) = (0, 1);
			if data.len() >= 16 {
				last_removed = u64::from_le_bytes(data[0..8].try_into().unwrap());
				filled = u64::from_le_bytes(data[8..16].try_into().unwrap());
				if filled == 0 {
					filled = 1;
				}
			}
			tables.insert(tier, TableImg { tier, entry_size: es, file_len: data.len() as u64, data, filled, last_removed, free_list: vec![], used: HashMap::new() });
		} else if let Some(rest) = name.strip_prefix(&format!("index_{col:02}_")) {
			let bits: u8 = rest.parse().map_err(|_| Failure::new("layout-bad-file-name", name.clone()))?;
			let mut entries = Vec::new();
			let len = read_sparse_nonzero_u64(&e.path(), 16 * 1024, |off, v| {
				let idx = (off - 16 * 1024) / 8;
				entries.push((idx / 64, (idx % 64) as usize, v));
			})
			.map_err(|e| Failure::new("harness-io", e.to_string()))?;
			let want = (1u64 << bits) * 512 + 16 * 1024;
			if len != want {
				lfail!("layout-index-size", "{name}: length {len}, expected {want}")
			}
			indexes.push((bits, entries));
		} else if let Some(rest) = name.strip_prefix(&format!("refcount_{col:02}_")) {
			let bits: u8 = rest.parse().map_err(|_| Failure::new("layout-bad-file-name", name.clone()))?;
			let mut raw: BTreeMap<u64, u64> = BTreeMap::new();
			read_sparse_nonzero_u64(&e.path(), 0, |off, v| {
				raw.insert(off / 8, v);
			})
			.map_err(|e| Failure::new("harness-io", e.to_string()))?;
			let mut m = HashMap::new();
			for (word, v) in raw.iter() {
				if word % 2 == 0 {
					let count = raw.get(&(word + 1)).cloned().unwrap_or(0);
					m.insert(*v, count);
				}
			}
			refcounts.push((bits, m));
		}
	}
	indexes.sort_by_key(|(b, _)| *b);
	Ok(ColImg { tables, indexes, refcounts })
}

fn decompress(kind: u8, data: &[u8]) -> LRes<Vec<u8>> {
	match kind {
		1 => lz4::block::decompress(data, None).map_err(|e| Failure::new("layout-decompress", format!("lz4: {e}"))),
		2 => {
			use std::io::Read;
			let mut out = Vec::new();
			snap::read::FrameDecoder::new(data).read_to_end(&mut out).map_err(|e| Failure::new("layout-decompress", format!("snappy: {e}")))?;
			Ok(out)
		},
		_ => lfail!("layout-compressed-flag-on-uncompressed-column", "entry flagged compressed in a column without compression"),
	}
}

impl ColImg {
	/// Walks the free lists of every table.
	pub fn walk_free_lists(&mut self, col: u8) -> LRes<()> {
		for (tier, t) in self.tables.iter_mut() {
			if t.last_removed >= t.filled {
				lfail!("layout-free-list-out-of-range", "col {col} tier {tier:02x}: last_removed {} >= filled {}", t.last_removed, t.filled)
			}
			if t.filled as usize * t.entry_size > t.data.len() {
				lfail!("layout-filled-beyond-file", "col {col} tier {tier:02x}: filled {} but file holds {} entries", t.filled, t.data.len() / t.entry_size)
			}
			let mut seen = BTreeSet::new();
			let mut next = t.last_removed;
			let mut list = Vec::new();
			while next != 0 {
				if next >= t.filled {
					lfail!("layout-free-list-out-of-range", "col {col} tier {tier:02x}: free list reaches {next} >= filled {}", t.filled)
				}
				if !seen.insert(next) {
					lfail!("layout-free-list-cycle", "col {col} tier {tier:02x}: free list revisits slot {next}")
				}
				match t.kind(next) {
					Some(SlotKind::Tombstone(n)) => {
						list.push(next);
						next = n;
					},
					k => lfail!("layout-free-list-not-tombstone", "col {col} tier {tier:02x}: free list contains slot {next} which is {:?}", k),
				}
			}
			t.free_list = list;
		}
		Ok(())
	}

	/// Decodes the value chain starting at `addr`, claiming its slots.
	pub fn decode(&mut self, col: u8, ccfg: &ColCfg, addr: u64, keyed: bool) -> LRes<Decoded> {
		let tier = (addr & 0xff) as u8;
		let offset = addr >> 8;
		let has_rc = ccfg.rc;
		let t = match self.tables.get_mut(&tier) {
			Some(t) => t,
			None => lfail!("layout-address-no-table", "col {col}: address {addr:#x} points into tier {tier:02x} which has no file"),
		};
		if offset == 0 || offset >= t.filled {
			lfail!("layout-address-out-of-range", "col {col}: address {addr:#x}: slot {offset} outside 1..{}", t.filled)
		}
		let mut slots = Vec::new();
		let mut value = Vec::new();
		let mut rc = 1u32;
		let mut key_tail = None;
		let mut compressed = false;
		let mut idx = offset;
		let mut part = 0;
		loop {
			if idx == 0 || idx >= t.filled {
				lfail!("layout-chain-out-of-range", "col {col} tier {tier:02x}: chain from {offset} reaches slot {idx} outside 1..{}", t.filled)
			}
			if slots.contains(&idx) {
				lfail!("layout-chain-cycle", "col {col} tier {tier:02x}: chain from {offset} revisits {idx}")
			}
			slots.push(idx);
			let kind = t.kind(idx).unwrap();
			let b = t.slot(idx).unwrap();
			let mut pos;
			let end;
			let next;
			match (&kind, part) {
				(SlotKind::Tombstone(_), _) => lfail!("layout-chain-hits-tombstone", "col {col} tier {tier:02x}: chain from {offset} contains freed slot {idx} (part {part})"),
				(SlotKind::MultiHead(n, c), 0) => {
					compressed = *c;
					pos = 10;
					end = t.entry_size;
					next = *n;
				},
				(SlotKind::MultiHead(..), _) => lfail!("layout-chain-head-in-middle", "col {col}: chain from {offset} has a head marker at part {part} (slot {idx})"),
				(SlotKind::MultiPart(_), 0) => lfail!("layout-chain-starts-with-continuation", "col {col} tier {tier:02x}: slot {offset} is a continuation part, not a value head"),
				(SlotKind::MultiPart(n), _) => {
					pos = 10;
					end = t.entry_size;
					next = *n;
				},
				(SlotKind::Sized, _) => {
					if tier == 255 && part == 0 {
						lfail!("layout-multipart-table-single", "col {col}: slot {offset} of the multipart table starts with a sized entry")
					}
					let raw = u16::from_le_bytes([b[0], b[1]]);
					let size = (raw & 0x7fff) as usize;
					if part == 0 {
						compressed = raw & 0x8000 != 0;
					}
					pos = 2;
					end = 2 + size;
					next = 0;
					if end > t.entry_size {
						lfail!("layout-entry-size-too-large", "col {col} tier {tier:02x} slot {idx}: size {size} exceeds entry size {}", t.entry_size)
					}
				},
			}
			if part == 0 {
				if has_rc {
					if pos + 4 > end {
						lfail!("layout-entry-too-small", "col {col} tier {tier:02x} slot {idx}: no room for ref count")
					}
					rc = u32::from_le_bytes(b[pos..pos + 4].try_into().unwrap());
					pos += 4;
				}
				if keyed {
					if pos + 26 > end {
						lfail!("layout-entry-too-small", "col {col} tier {tier:02x} slot {idx}: no room for key")
					}
					let mut k = [0u8; 26];
					k.copy_from_slice(&b[pos..pos + 26]);
					key_tail = Some(k);
					pos += 26;
				}
			}
			value.extend_from_slice(&b[pos..end]);
			if next == 0 {
				break
			}
			idx = next;
			part += 1;
		}
		for s in &slots {
			*t.used.entry(*s).or_insert(0) += 1;
		}
		if compressed {
			value = decompress(ccfg.compression, &value)?;
		}
		Ok(Decoded { rc, key_tail, value, compressed, slots })
	}
}

#[derive(Default, Debug, Clone)]
pub struct LayoutReport {
	pub btree_max_depth: u32,
	pub live_slots: u64,
	pub free_slots: u64,
	pub leftovers: u64,
	pub compressed_values: u64,
	pub multipart_values: u64,
	pub index_files: usize,
	pub max_index_bits: u8,
	/// (col, tier) -> (filled, file length)
	pub tables: BTreeMap<(u8, u8), (u64, u64)>,
	pub shared_nodes: u64,
	/// slots of multitree columns that were claimed by a transaction which was lost in a crash
	/// (never written, or taken off the free list) - known finding, tolerated only on request
	pub claim_leaks: u64,
}

/// Checks every structural invariant of C14 on a closed database directory; when an
/// interpreter is given the content is also compared with its model.
pub fn check_dir(cfg: &DbCfg, dir: &Path, it: Option<&Interp>) -> LRes<LayoutReport> {
	check_dir_opts(cfg, dir, it, false)
}

/// `tolerate_claim_leaks`: in multitree columns, count (instead of reporting) slots that are
/// neither live nor free but were never written / are tombstones off the free list - the
/// signature of entries claimed at commit time by a transaction that a crash then lost.
pub fn check_dir_opts(cfg: &DbCfg, dir: &Path, it: Option<&Interp>, tolerate_claim_leaks: bool) -> LRes<LayoutReport> {
	let mut rep = LayoutReport::default();
	let salt = if cfg.zero_salt { [0u8; 32] } else { FIXED_SALT };
	for (c, ccfg) in cfg.cols.iter().enumerate() {
		let col = c as u8;
		let mut img = load_col(dir, col)?;
		img.walk_free_lists(col)?;
		let model = it.map(|i| &i.model.cols[c]);
		match ccfg.kind {
			Kind::Btree => check_btree(col, ccfg, &mut img, model, &mut rep)?,
			Kind::Hash | Kind::Multi => check_hash(col, ccfg, &salt, &mut img, model, it, &mut rep)?,
		}
		// slot accounting
		for (tier, t) in img.tables.iter() {
			rep.tables.insert((col, *tier), (t.filled, t.file_len));
			let free: BTreeSet<u64> = t.free_list.iter().cloned().collect();
			for s in 1..t.filled {
				let used = t.used.get(&s).cloned().unwrap_or(0);
				let is_tomb = matches!(t.kind(s), Some(SlotKind::Tombstone(_)));
				// the btree header lives in slot 1 of tier 0
				let is_header = ccfg.kind == Kind::Btree && *tier == 0 && s == 1;
				if is_header {
					continue
				}
				if used > 1 {
					lfail!("layout-slot-used-twice", "col {col} tier {tier:02x} slot {s}: part of {used} live value chains")
				}
				if used == 1 && free.contains(&s) {
					lfail!("layout-slot-live-and-free", "col {col} tier {tier:02x} slot {s}: on the free list and part of a live chain")
				}
				if used == 0 && !free.contains(&s) {
					let unwritten = t.slot(s).map_or(true, |b| b.iter().all(|x| *x == 0));
					if tolerate_claim_leaks && ccfg.kind == Kind::Multi && (is_tomb || unwritten) {
						rep.claim_leaks += 1;
						continue
					}
					if is_tomb {
						lfail!("layout-tombstone-not-on-free-list", "col {col} tier {tier:02x} slot {s}: freed but not reachable from the free list (leaked)")
					} else {
						lfail!("layout-orphan-slot", "col {col} tier {tier:02x} slot {s}: live data that nothing references (leaked)")
					}
				}
				if used == 1 {
					rep.live_slots += 1;
				}
			}
			rep.free_slots += t.free_list.len() as u64;
		}
	}
	Ok(rep)
}

fn check_btree(col: u8, ccfg: &ColCfg, img: &mut ColImg, model: Option<&ColModel>, rep: &mut LayoutReport) -> LRes<()> {
	// header: tier 0 slot 1: [size:2][root:8][depth:4]
	let (root, depth) = match img.tables.get(&0) {
		None => (0u64, 0u32),
		Some(t) => match t.slot(1) {
			None => (0, 0),
			Some(b) => {
				let size = u16::from_le_bytes([b[0], b[1]]) & 0x7fff;
				if size == 0 && t.filled <= 1 {
					(0, 0)
				} else {
					// every entry of a reference counted column carries a 4-byte count
					let o = if ccfg.rc { 6 } else { 2 };
					if size as usize != 12 + o - 2 {
						lfail!("layout-btree-header", "col {col}: header entry has size {size}, expected {}", 12 + o - 2)
					}
					(u64::from_le_bytes(b[o..o + 8].try_into().unwrap()), u32::from_le_bytes(b[o + 8..o + 12].try_into().unwrap()))
				}
			},
		},
	};
	let mut pairs: Vec<(Vec<u8>, Vec<u8>, u32)> = Vec::new();
	let node_cfg = ColCfg { rc: ccfg.rc, compression: 0, ..ccfg.clone() };
	// nodes are stored uncompressed? they go through the same value path: honour the flag
	fn walk(
		col: u8,
		ccfg: &ColCfg,
		node_cfg: &ColCfg,
		img: &mut ColImg,
		addr: u64,
		level: u32,
		depth: u32,
		pairs: &mut Vec<(Vec<u8>, Vec<u8>, u32)>,
		rep: &mut LayoutReport,
	) -> LRes<()> {
		if level > 64 {
			lfail!("layout-btree-too-deep", "col {col}: node chain deeper than 64")
		}
		let _ = node_cfg;
		let d = img.decode(col, ccfg, addr, false)?;
		let b = d.value;
		let mut pos = 0usize;
		let mut n_children = 0;
		let mut n_seps = 0;
		let mut any_child = false;
		loop {
			if pos + 8 > b.len() {
				lfail!("layout-btree-node-truncated", "col {col}: node at {addr:#x} truncated at child {n_children}")
			}
			let child = u64::from_le_bytes(b[pos..pos + 8].try_into().unwrap());
			pos += 8;
			if child != 0 {
				any_child = true;
				if level + 1 > depth {
					lfail!("layout-btree-depth", "col {col}: node at {addr:#x} (level {level}) has a child although the header records depth {depth}")
				}
				walk(col, ccfg, node_cfg, img, child, level + 1, depth, pairs, rep)?;
			} else if level < depth && (n_seps > 0 || pos < b.len()) {
				// an internal node must have a child on every side of a separator
				if any_child || level < depth {
					lfail!("layout-btree-missing-child", "col {col}: internal node at {addr:#x} (level {level} of depth {depth}) lacks child {n_children}")
				}
			}
			n_children += 1;
			if n_children == 9 || pos == b.len() {
				break
			}
			if pos + 9 > b.len() {
				lfail!("layout-btree-node-truncated", "col {col}: node at {addr:#x} truncated at separator {n_seps}")
			}
			let vaddr = u64::from_le_bytes(b[pos..pos + 8].try_into().unwrap());
			let head = b[pos + 8];
			pos += 9;
			let klen = if head == 255 {
				if pos + 4 > b.len() {
					lfail!("layout-btree-node-truncated", "col {col}: node at {addr:#x} truncated in key length")
				}
				let l = u32::from_le_bytes(b[pos..pos + 4].try_into().unwrap()) as usize;
				pos += 4;
				l
			} else {
				head as usize
			};
			if pos + klen > b.len() {
				lfail!("layout-btree-node-truncated", "col {col}: node at {addr:#x} truncated in key")
			}
			let key = b[pos..pos + klen].to_vec();
			pos += klen;
			if vaddr == 0 {
				break
			}
			let v = img.decode(col, ccfg, vaddr, false)?;
			if v.compressed {
				rep.compressed_values += 1;
			}
			if v.slots.len() > 1 {
				rep.multipart_values += 1;
			}
			pairs.push((key, v.value, v.rc));
			n_seps += 1;
		}
		if level == depth && any_child {
			lfail!("layout-btree-depth", "col {col}: leaf level node at {addr:#x} has children")
		}
		Ok(())
	}
	if root != 0 {
		walk(col, ccfg, &node_cfg, img, root, 0, depth, &mut pairs, rep)?;
		rep.btree_max_depth = rep.btree_max_depth.max(depth + 1);
	}
	// in-order = node order? The walk above appends separators after visiting the child to
	// their left, i.e. in-order, as long as children and separators alternate.
	for w in pairs.windows(2) {
		if w[0].0 >= w[1].0 {
			lfail!("layout-btree-unsorted", "col {col}: on-disk tree keys not strictly ascending: {:?} then {:?}", crate::interp::brief(Some(&w[0].0)), crate::interp::brief(Some(&w[1].0)))
		}
	}
	if let Some(model) = model {
		let want: Vec<(Vec<u8>, Vec<u8>, u32)> = match model {
			ColModel::Map(m) => {
				let mut v: Vec<_> = m.iter().map(|(id, v)| (ccfg.key(*id), v.clone(), 1u32)).collect();
				v.sort();
				v
			},
			ColModel::Rc(m) => {
				let mut v: Vec<_> = m.iter().map(|(id, c)| (ccfg.key(*id), ccfg.pre_value(*id), *c as u32)).collect();
				v.sort();
				v
			},
			_ => vec![],
		};
		if pairs.len() != want.len() || pairs.iter().zip(want.iter()).any(|(a, b)| a.0 != b.0 || a.1 != b.1 || (ccfg.rc && a.2 != b.2)) {
			let first = pairs.iter().zip(want.iter()).position(|(a, b)| a != b);
			lfail!("layout-btree-content", "col {col}: on-disk tree holds {} entries, model {}; first difference at {:?}", pairs.len(), want.len(), first)
		}
	}
	Ok(())
}

fn check_hash(
	col: u8,
	ccfg: &ColCfg,
	salt: &[u8; 32],
	img: &mut ColImg,
	model: Option<&ColModel>,
	it: Option<&Interp>,
	rep: &mut LayoutReport,
) -> LRes<()> {
	rep.index_files = rep.index_files.max(img.indexes.len());
	if img.indexes.len() > 1 {
		lfail!("layout-two-index-files", "col {col}: {} index files remain on a quiescent database", img.indexes.len())
	}
	// model: hashed key -> (key id, expected value, expected rc)
	let mut want: HashMap<[u8; 32], (u16, Option<Vec<u8>>, u64)> = HashMap::new();
	if let Some(m) = model {
		match m {
			ColModel::Map(m) =>
				for (id, v) in m {
					want.insert(hash_key(&ccfg.key(*id), salt, ccfg.uniform), (*id, Some(v.clone()), 1));
				},
			ColModel::Rc(m) =>
				for (id, c) in m {
					want.insert(hash_key(&ccfg.key(*id), salt, ccfg.uniform), (*id, Some(ccfg.pre_value(*id)), *c));
				},
			ColModel::Multi(mm) =>
				for (id, (c, _, _)) in &mm.roots {
					want.insert(hash_key(&ccfg.key(*id), salt, ccfg.uniform), (*id, None, *c));
				},
		}
	}
	let mut found: HashMap<u16, u32> = HashMap::new();
	let mut found_at: HashMap<u16, Vec<(u8, u64, usize, u64)>> = HashMap::new();
	let mut root_children: Vec<(u16, Vec<u8>, Vec<u64>)> = Vec::new();
	let indexes = std::mem::take(&mut img.indexes);
	for (bits, entries) in indexes.iter() {
		rep.max_index_bits = rep.max_index_bits.max(*bits);
		let address_bits = *bits as u32 + 6 + 8;
		for (chunk, _slot, raw) in entries {
			let addr = raw & ((1u64 << address_bits) - 1);
			let partial = raw >> address_bits;
			// first 50 bits of the hashed key
			let prefix = (chunk << (64 - *bits as u32)) | (partial << (64 - 50));
			// leftovers (stale entries) are tolerated only after index growth
			let tolerate = *bits > 16;
			let tier = (addr & 0xff) as u8;
			let offset = addr >> 8;
			let live_head = match img.tables.get(&tier) {
				Some(t) if offset >= 1 && offset < t.filled =>
					matches!(t.kind(offset), Some(SlotKind::Sized) | Some(SlotKind::MultiHead(..))) && !(tier == 255 && matches!(t.kind(offset), Some(SlotKind::Sized))),
				_ => false,
			};
			if !live_head {
				if tolerate {
					rep.leftovers += 1;
					continue
				}
				lfail!("layout-index-entry-dangling", "col {col}: index entry (chunk {chunk}) -> address {addr:#x} which is not a live value head (index never grew, so no leftovers are possible)")
			}
			// peek at the key tail without claiming
			let probe = {
				let t = img.tables.get(&tier).unwrap();
				let b = t.slot(offset).unwrap();
				let mut pos = if matches!(t.kind(offset), Some(SlotKind::MultiHead(..))) { 10 } else { 2 };
				if ccfg.rc {
					pos += 4;
				}
				let mut k = [0u8; 26];
				if pos + 26 <= b.len() {
					k.copy_from_slice(&b[pos..pos + 26]);
				}
				k
			};
			let mut full = [0u8; 32];
			full[0..8].copy_from_slice(&prefix.to_be_bytes());
			let top2_index = full[6] & 0xc0;
			full[6..32].copy_from_slice(&probe);
			let consistent = (probe[0] & 0xc0) == top2_index;
			let known = want.get(&full);
			if !consistent || (model.is_some() && known.is_none()) {
				// the slot holds the value of another key (or a key the model does not have)
				if tolerate {
					rep.leftovers += 1;
					continue
				}
				if !consistent {
					lfail!("layout-index-entry-wrong-key", "col {col}: index entry (chunk {chunk}) -> address {addr:#x} whose stored key does not match the entry's key bits")
				}
				lfail!("layout-index-entry-unknown-key", "col {col}: index entry (chunk {chunk}) -> address {addr:#x} holds a key that is not live in the model")
			}
			let d = img.decode(col, ccfg, addr, true)?;
			if d.compressed {
				rep.compressed_values += 1;
			}
			if d.slots.len() > 1 {
				rep.multipart_values += 1;
			}
			if let Some((id, val, count)) = known {
				*found.entry(*id).or_insert(0) += 1;
				found_at.entry(*id).or_default().push((*bits, *chunk, *_slot, addr));
				match val {
					Some(v) =>
						if &d.value != v {
							lfail!("layout-value-mismatch", "col {col} key id {id}: stored value {} differs from model {}", crate::interp::brief(Some(&d.value)), crate::interp::brief(Some(v)))
						},
					None => {
						// multitree root: unpack children
						let (data, children) = unpack_node(&d.value).ok_or_else(|| Failure::new("layout-root-unpack", format!("col {col} root {id}: cannot unpack node")))?;
						root_children.push((*id, data, children));
					},
				}
				if ccfg.rc && d.rc as u64 != *count {
					lfail!("layout-rc-mismatch", "col {col} key id {id}: stored count {} model {}", d.rc, count)
				}
			} else if ccfg.kind == Kind::Multi {
				if let Some((data, children)) = unpack_node(&d.value) {
					root_children.push((u16::MAX, data, children));
				}
			}
		}
	}
	img.indexes = indexes;
	if model.is_some() {
		for (_h, (id, _, _)) in want.iter() {
			match found.get(id).cloned().unwrap_or(0) {
				1 => {},
				0 => lfail!("layout-key-not-in-index", "col {col} key id {id}: live in the model but no valid index entry resolves to it"),
				n => lfail!("layout-key-duplicated", "col {col} key id {id}: {n} valid index entries (index bits, chunk, slot, address): {:x?}", found_at.get(id)),
			}
		}
	}
	if ccfg.kind == Kind::Multi {
		// decode the forest: node address -> number of referencing parents
		let mut parents: HashMap<u64, u64> = HashMap::new();
		let mut decoded: HashMap<u64, (Vec<u8>, Vec<u64>)> = HashMap::new();
		let mut stack: Vec<u64> = Vec::new();
		for (_, _, ch) in &root_children {
			for a in ch {
				*parents.entry(*a).or_insert(0) += 1;
				stack.push(*a);
			}
		}
		while let Some(a) = stack.pop() {
			if decoded.contains_key(&a) {
				continue
			}
			let d = img.decode(col, ccfg, a, false)?;
			let (data, children) = unpack_node(&d.value).ok_or_else(|| Failure::new("layout-node-unpack", format!("col {col}: cannot unpack node at {a:#x}")))?;
			for c in &children {
				*parents.entry(*c).or_insert(0) += 1;
				stack.push(*c);
			}
			decoded.insert(a, (data, children));
		}
		if !ccfg.append_only {
			let mut counts: HashMap<u64, u64> = HashMap::new();
			for (_, m) in &img.refcounts {
				for (a, c) in m {
					counts.insert(*a, *c);
				}
			}
			for (a, p) in &parents {
				let stored = counts.get(a).cloned().unwrap_or(1);
				if stored != *p {
					lfail!("layout-node-refcount", "col {col}: node {a:#x} has {p} referencing parents but stored reference count {stored}")
				}
				if *p > 1 {
					rep.shared_nodes += 1;
				}
			}
			for (a, c) in &counts {
				if !parents.contains_key(a) {
					lfail!("layout-refcount-entry-for-dead-node", "col {col}: reference count table holds {c} for {a:#x} which no live tree references")
				}
			}
		}
		// compare with the model forest
		if let (Some(ColModel::Multi(mm)), Some(it)) = (model, it) {
			for (id, data, children) in &root_children {
				if let Some((_, mdata, mch)) = mm.roots.get(id) {
					if data != mdata || children.len() != mch.len() {
						lfail!("layout-root-content", "col {col} root {id}: stored root differs from the model")
					}
					let mut st: Vec<(NodeId, u64)> = mch.iter().cloned().zip(children.iter().cloned()).collect();
					let mut seen = BTreeSet::new();
					while let Some((n, a)) = st.pop() {
						if !seen.insert((n, a)) {
							continue
						}
						if let Some(known) = it.addr.get(&(col, n)) {
							if *known != a {
								lfail!("layout-node-address", "col {col}: model node {n} expected at {known:#x}, tree references {a:#x}")
							}
						}
						let (d, ch) = &decoded[&a];
						let mn = &mm.nodes[n];
						if d != &mn.data || ch.len() != mn.children.len() {
							lfail!("layout-node-content", "col {col}: node {a:#x} differs from model node {n}")
						}
						for (cn, ca) in mn.children.iter().zip(ch.iter()) {
							st.push((*cn, *ca));
						}
					}
				}
			}
		}
	}
	Ok(())
}

pub fn unpack_node(v: &[u8]) -> Option<(Vec<u8>, Vec<u64>)> {
	let n = *v.last()? as usize;
	if v.len() < n * 8 + 1 {
		return None
	}
	let dl = v.len() - n * 8 - 1;
	let children = (0..n).map(|i| u64::from_le_bytes(v[dl + i * 8..dl + i * 8 + 8].try_into().unwrap())).collect();
	Some((v[..dl].to_vec(), children))
}
