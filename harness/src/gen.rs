//! proptest strategies shared by the property checks.

use crate::{layout::SIZES, spec::*};
use proptest::prelude::*;

/// Value specs over the size classes of DESIGN C01/C06.
pub fn vspec(max_big: u32) -> impl Strategy<Value = VSpec> {
	let len = prop_oneof![
		2 => Just(0u32),
		10 => 1u32..60,
		4 => (0usize..SIZES.len(), 0u32..5).prop_map(|(t, d)| (SIZES[t] as u32).saturating_sub(30 + d)),
		3 => 60u32..1200,
		2 => 3900u32..4300,
		1 => Just(5000u32),
		1 => 32700u32..32800,
		1 => (0u32..3).prop_map(move |k| max_big / (k + 1)),
	];
	(len, 0u8..4, 0u16..1000).prop_map(|(len, fill, seed)| VSpec { len, fill, seed })
}

pub fn small_vspec() -> impl Strategy<Value = VSpec> {
	(prop_oneof![1 => Just(0u32), 8 => 1u32..40, 2 => 40u32..300], 0u8..4, 0u16..1000)
		.prop_map(|(len, fill, seed)| VSpec { len, fill, seed })
}

pub fn stage_op() -> impl Strategy<Value = Op> {
	prop_oneof![
		6 => Just(Op::P),
		3 => Just(Op::F),
		3 => Just(Op::E),
		2 => Just(Op::C),
		1 => Just(Op::R),
	]
}

/// A plain hash column configuration (no reference counting).
pub fn hash_col() -> impl Strategy<Value = ColCfg> {
	(
		prop_oneof![3 => Just(0u8), 1 => Just(1u8), 1 => Just(2u8)],
		prop_oneof![3 => Just(0u8), 1 => Just(1u8), 1 => Just(2u8)],
		prop_oneof![3 => Just(None), 1 => Just(Some(0u32)), 1 => Just(Some(u32::MAX))],
	)
		.prop_map(|(variant, compression, threshold)| {
			let mut c = ColCfg::hash();
			match variant {
				1 => {
					c.uniform = true;
					c.keyset = KeySet::Uniform;
				},
				2 => c.preimage = true,
				_ => {},
			}
			c.compression = compression;
			c.threshold = threshold;
			c
		})
}

/// Changes for map-like (hash / btree, non rc) columns.
pub fn map_change(nkeys: u16, big: u32) -> impl Strategy<Value = Change> {
	prop_oneof![
		3 => (0..nkeys, vspec(big)).prop_map(|(k, v)| Change::Set(k, v)),
		1 => (0..nkeys).prop_map(Change::Del),
	]
}

pub fn rc_change(nkeys: u16) -> impl Strategy<Value = Change> {
	prop_oneof![
		3 => (0..nkeys).prop_map(|k| Change::Set(k, VSpec { len: 0, fill: 0, seed: 0 })),
		2 => (0..nkeys).prop_map(Change::Ref),
		3 => (0..nkeys).prop_map(Change::Del),
	]
}

/// Tree shapes: depth <= `depth`, fan-out mostly small, sometimes large.
pub fn tree_spec(depth: u32, allow_huge: bool) -> impl Strategy<Value = TreeSpec> {
	let data = prop_oneof![
		1 => Just(0u32),
		8 => 1u32..100,
		1 => Just(5000u32),
		1 => Just(40000u32),
	];
	let leaf = (data.clone(), 0u8..3, 0u16..1000)
		.prop_map(|(len, fill, seed)| TreeSpec { data: VSpec { len, fill, seed }, children: vec![] });
	leaf.prop_recursive(depth, 64, 8, move |inner| {
		let child = prop_oneof![
			3 => inner.clone().prop_map(ChildSpec::New),
			2 => (any::<u16>(), any::<u16>()).prop_map(|(a, b)| ChildSpec::Existing(a, b)),
		];
		let fan = if allow_huge {
			prop_oneof![10 => 0usize..7, 1 => Just(40usize), 1 => Just(255usize)].boxed()
		} else {
			(0usize..7).boxed()
		};
		(
			prop_oneof![1 => Just(0u32), 8 => 1u32..100, 1 => Just(5000u32)],
			0u8..3,
			0u16..1000,
			fan.prop_flat_map(move |n| proptest::collection::vec(child.clone(), n..=n)),
		)
			.prop_map(|(len, fill, seed, children)| TreeSpec { data: VSpec { len, fill, seed }, children })
	})
}

pub fn multi_change(nroots: u16, depth: u32, huge: bool, rc: bool) -> impl Strategy<Value = Change> {
	prop_oneof![
		4 => (0..nroots, tree_spec(depth, huge)).prop_map(|(k, t)| Change::InsertTree(k, t)),
		if rc { 2 } else { 0 } => any::<u16>().prop_map(Change::RefTree),
		3 => any::<u16>().prop_map(Change::DerefTree),
	]
}
