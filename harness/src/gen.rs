//! proptest strategies shared by the property checks.

use crate::{layout::SIZES, spec::*};
use proptest::prelude::*;

/// Value specs over the size classes of DESIGN C01/C06.
pub fn vspec(max_big: u32) -> impl Strategy<Value = VSpec> {
	let len = prop_oneof![
		2 => Just(0u32),
		10 => 1u32..60,
		4 => (0usize..SIZES.len(), 0u32..5).prop_map(|(t, d)| (SIZES[t] as u32).saturating_sub(30 + d)),
		3 => 60u32..1200,
		2 => 3900u32..4300,
		1 => Just(5000u32),
		1 => 32700u32..32800,
		1 => (0u32..3).prop_map(move |k| max_big / (k + 1)),
	];
	(len, 0u8..4, 0u16..1000).prop_map(|(len, fill, seed)| VSpec { len, fill, seed })
}

pub fn small_vspec() -> impl Strategy<Value = VSpec> {
	(prop_oneof![1 => Just(0u32), 8 => 1u32..40, 2 => 40u32..300], 0u8..4, 0u16..1000)
		.prop_map(|(len, fill, seed)| VSpec { len, fill, seed })
}

pub fn stage_op() -> impl Strategy<Value = Op> {
	prop_oneof![
		6 => Just(Op::P),
		3 => Just(Op::F),
		3 => Just(Op::E),
		2 => Just(Op::C),
		1 => Just(Op::R),
	]
}

/// A plain hash column configuration (no reference counting).
pub fn hash_col() -> impl Strategy<Value = ColCfg> {
	(
		prop_oneof![3 => Just(0u8), 1 => Just(1u8), 1 => Just(2u8)],
		prop_oneof![3 => Just(0u8), 1 => Just(1u8), 1 => Just(2u8)],
		prop_oneof![3 => Just(None), 1 => Just(Some(0u32)), 1 => Just(Some(u32::MAX))],
	)
		.prop_map(|(variant, compression, threshold)| {
			let mut c = ColCfg::hash();
			match variant {
				1 => {
					c.uniform = true;
					c.keyset = KeySet::Uniform;
				},
				2 => c.preimage = true,
				_ => {},
			}
			c.compression = compression;
			c.threshold = threshold;
			c
		})
}

/// Changes for map-like (hash / btree, non rc) columns.
pub fn map_change(nkeys: u16, big: u32) -> impl Strategy<Value = Change> {
	prop_oneof![
		3 => (0..nkeys, vspec(big)).prop_map(|(k, v)| Change::Set(k, v)),
		1 => (0..nkeys).prop_map(Change::Del),
	]
}

pub fn rc_change(nkeys: u16) -> impl Strategy<Value = Change> {
	prop_oneof![
		3 => (0..nkeys).prop_map(|k| Change::Set(k, VSpec { len: 0, fill: 0, seed: 0 })),
		2 => (0..nkeys).prop_map(Change::Ref),
		3 => (0..nkeys).prop_map(Change::Del),
	]
}

/// Tree shapes: depth <= `depth`, fan-out mostly small, sometimes large.
pub fn tree_spec(depth: u32, allow_huge: bool) -> impl Strategy<Value = TreeSpec> {
	let data = prop_oneof![
		1 => Just(0u32),
		8 => 1u32..100,
		1 => Just(5000u32),
		1 => Just(40000u32),
	];
	let leaf = (data.clone(), 0u8..3, 0u16..1000)
		.prop_map(|(len, fill, seed)| TreeSpec { data: VSpec { len, fill, seed }, children: vec![] });
	leaf.prop_recursive(depth, 64, 8, move |inner| {
		let child = prop_oneof![
			3 => inner.clone().prop_map(ChildSpec::New),
			2 => (any::<u16>(), any::<u16>()).prop_map(|(a, b)| ChildSpec::Existing(a, b)),
		];
		let fan = if allow_huge {
			prop_oneof![10 => 0usize..7, 1 => Just(40usize), 1 => Just(255usize)].boxed()
		} else {
			(0usize..7).boxed()
		};
		(
			prop_oneof![1 => Just(0u32), 8 => 1u32..100, 1 => Just(5000u32)],
			0u8..3,
			0u16..1000,
			fan.prop_flat_map(move |n| proptest::collection::vec(child.clone(), n..=n)),
		)
			.prop_map(|(len, fill, seed, children)| TreeSpec { data: VSpec { len, fill, seed }, children })
	})
}

pub fn multi_change(nroots: u16, depth: u32, huge: bool, rc: bool) -> BoxedStrategy<Change> {
	let ins = (0..nroots, tree_spec(depth, huge)).prop_map(|(k, t)| Change::InsertTree(k, t));
	if rc {
		prop_oneof![4 => ins, 2 => any::<u16>().prop_map(Change::RefTree), 3 => any::<u16>().prop_map(Change::DerefTree)].boxed()
	} else {
		prop_oneof![4 => ins, 3 => any::<u16>().prop_map(Change::DerefTree)].boxed()
	}
}

/// Column configurations of every kind for crash / structural scenarios.
pub fn any_col(multi: bool) -> impl Strategy<Value = ColCfg> {
	let base = prop_oneof![
		4 => hash_col(),
		2 => Just(ColCfg::hash_rc()),
		3 => (0u8..3).prop_map(|c| { let mut b = ColCfg::btree(); b.compression = c; b }),
		1 => Just(ColCfg::btree_rc()),
	];
	if multi {
		prop_oneof![
			6 => base,
			2 => Just(ColCfg::multi()),
			1 => Just(ColCfg { rc: true, preimage: true, ..ColCfg::multi() }),
			1 => Just(ColCfg { direct: true, ..ColCfg::multi() }),
		]
		.boxed()
	} else {
		base.boxed()
	}
}

/// One item for column `col` of configuration `c`.
pub fn item_for(col: u8, c: &ColCfg, nkeys: u16, big: u32, tree_depth: u32) -> BoxedStrategy<Item> {
	match c.kind {
		Kind::Multi => {
			let rc = c.rc;
			let ao = c.append_only;
			let ins = (0..nkeys, tree_spec(tree_depth, false)).prop_map(|(k, t)| Change::InsertTree(k, t));
			let s: BoxedStrategy<Change> = if ao {
				ins.boxed()
			} else if rc {
				prop_oneof![4 => ins, 2 => any::<u16>().prop_map(Change::RefTree), 3 => any::<u16>().prop_map(Change::DerefTree)].boxed()
			} else {
				prop_oneof![4 => ins, 3 => any::<u16>().prop_map(Change::DerefTree)].boxed()
			};
			s.prop_map(move |ch| Item { col, ch }).boxed()
		},
		_ if c.rc => rc_change(nkeys).prop_map(move |ch| Item { col, ch }).boxed(),
		_ => map_change(nkeys, big).prop_map(move |ch| Item { col, ch }).boxed(),
	}
}

pub fn mixed_items(cfg: &DbCfg, nkeys: u16, big: u32, max_items: usize, tree_depth: u32) -> BoxedStrategy<Vec<Item>> {
	let per_col: Vec<BoxedStrategy<Item>> =
		cfg.cols.iter().enumerate().map(|(i, c)| item_for(i as u8, c, nkeys, big, tree_depth)).collect();
	let any_item = proptest::strategy::Union::new(per_col);
	proptest::collection::vec(any_item, 1..=max_items)
		.prop_map(|mut items| {
			// at most one tree insertion per column and transaction keeps transactions small
			let mut seen = std::collections::BTreeSet::new();
			items.retain(|it| match it.ch {
				Change::InsertTree(..) => seen.insert(it.col),
				_ => true,
			});
			items
		})
		.boxed()
}

/// Moves the columns of a scenario behind `pad` plain hash columns (two-digit column ids, whose
/// decimal and hexadecimal spellings differ; table ids beyond one hex digit); every fifth plain
/// write goes to one of the padding columns instead.
pub fn widen(sc: &mut Scenario, pad: u8) {
	if pad == 0 {
		return
	}
	let mut cols: Vec<ColCfg> = (0..pad).map(|_| ColCfg::hash()).collect();
	cols.extend(sc.cfg.cols.drain(..));
	sc.cfg.cols = cols;
	for op in sc.ops.iter_mut() {
		if let Op::Commit(items) = op {
			for (i, it) in items.iter_mut().enumerate() {
				if i % 5 == 4 {
					if let Change::Set(..) | Change::Del(..) = it.ch {
						it.col %= pad;
						continue
					}
				}
				it.col += pad;
			}
		}
	}
}

pub fn mixed_cfg(max_cols: usize, multi: bool) -> impl Strategy<Value = DbCfg> {
	(proptest::collection::vec(any_col(multi), 1..=max_cols), 0u8..2).prop_map(|(cols, bits)| DbCfg::new(cols).flags(bits))
}
