//! Deliberately naive reference models of the logical content of a database.

use crate::spec::*;
use serde::{Deserialize, Serialize};
use std::collections::BTreeMap;

pub type NodeId = usize;

#[derive(Clone, Debug, PartialEq, Eq, Serialize, Deserialize)]
pub struct MNode {
	pub data: Vec<u8>,
	pub children: Vec<NodeId>,
	/// number of parent references (each occurrence in a child list counts)
	pub refs: u64,
	pub live: bool,
}

#[derive(Clone, Debug, PartialEq, Eq, Default, Serialize, Deserialize)]
pub struct MultiModel {
	pub nodes: Vec<MNode>,
	/// root key id -> (count, root data, root children)
	pub roots: BTreeMap<u16, (u64, Vec<u8>, Vec<NodeId>)>,
}

impl MultiModel {
	pub fn live_nodes(&self) -> usize {
		self.nodes.iter().filter(|n| n.live).count()
	}
	pub fn live_entries(&self) -> usize {
		self.live_nodes() + self.roots.len()
	}
	/// All node ids reachable from live roots (with repetition removed), in DFS order.
	pub fn reachable_of(&self, root: u16) -> Vec<NodeId> {
		let mut out = Vec::new();
		let mut seen = std::collections::BTreeSet::new();
		if let Some((_, _, ch)) = self.roots.get(&root) {
			let mut stack: Vec<NodeId> = ch.iter().rev().cloned().collect();
			while let Some(n) = stack.pop() {
				if seen.insert(n) {
					out.push(n);
					for c in self.nodes[n].children.iter().rev() {
						stack.push(*c);
					}
				}
			}
		}
		out
	}
	fn deref_node(&mut self, n: NodeId) {
		let mut stack = vec![n];
		while let Some(n) = stack.pop() {
			let node = &mut self.nodes[n];
			assert!(node.live && node.refs > 0, "model: dereference of dead node");
			node.refs -= 1;
			if node.refs == 0 {
				node.live = false;
				// children are dereferenced in order (depth first, like the implementation)
				for c in node.children.clone().iter().rev() {
					stack.push(*c);
				}
			}
		}
	}
	pub fn deref_root(&mut self, root: u16, append_only: bool) {
		if append_only {
			return
		}
		if let Some((count, _, children)) = self.roots.get_mut(&root) {
			*count -= 1;
			if *count == 0 {
				let children = children.clone();
				self.roots.remove(&root);
				for c in children {
					self.deref_node(c);
				}
			}
		}
	}
}

#[derive(Clone, Debug, PartialEq, Eq, Serialize, Deserialize)]
pub enum ColModel {
	Map(BTreeMap<u16, Vec<u8>>),
	/// key id -> count (> 0)
	Rc(BTreeMap<u16, u64>),
	Multi(MultiModel),
}

#[derive(Clone, Debug, PartialEq, Eq, Serialize, Deserialize)]
pub struct Model {
	pub cols: Vec<ColModel>,
}

/// A transaction with trees resolved against the model (node ids instead of selectors).
#[derive(Clone, Debug, PartialEq, Eq)]
pub enum RChange {
	Set(u16, Vec<u8>),
	Del(u16),
	Ref(u16),
	InsertTree(u16, RTree),
	RefTree(u16),
	DerefTree(u16),
}

#[derive(Clone, Debug, PartialEq, Eq)]
pub struct RTree {
	pub data: Vec<u8>,
	pub children: Vec<RChild>,
}

#[derive(Clone, Debug, PartialEq, Eq)]
pub enum RChild {
	New(RTree),
	Existing(NodeId),
}

impl Model {
	pub fn new(cfg: &DbCfg) -> Model {
		Model {
			cols: cfg
				.cols
				.iter()
				.map(|c| match c.kind {
					Kind::Multi => ColModel::Multi(Default::default()),
					_ if c.rc => ColModel::Rc(Default::default()),
					_ => ColModel::Map(Default::default()),
				})
				.collect(),
		}
	}

	/// Applies one resolved change. Returns the ids of the nodes created (InsertTree), in the
	/// order of a pre-order walk of the new nodes.
	pub fn apply(&mut self, cfg: &DbCfg, col: u8, ch: &RChange) -> Vec<NodeId> {
		let ccfg = &cfg.cols[col as usize];
		match (&mut self.cols[col as usize], ch) {
			(ColModel::Map(m), RChange::Set(k, v)) => {
				m.insert(*k, v.clone());
			},
			(ColModel::Map(m), RChange::Del(k)) => {
				m.remove(k);
			},
			(ColModel::Rc(m), RChange::Set(k, _)) => {
				*m.entry(*k).or_insert(0) += 1;
			},
			(ColModel::Rc(m), RChange::Ref(k)) =>
				if let Some(c) = m.get_mut(k) {
					*c += 1;
				},
			(ColModel::Rc(m), RChange::Del(k)) =>
				if let Some(c) = m.get_mut(k) {
					*c -= 1;
					if *c == 0 {
						m.remove(k);
					}
				},
			(ColModel::Multi(m), RChange::InsertTree(root, tree)) => {
				let mut created = Vec::new();
				let children = Self::insert_children(m, &tree.children, &mut created, ccfg.append_only);
				match m.roots.get_mut(root) {
					Some(r) => r.0 += 1, // generators never do this (distinct live roots)
					None => {
						m.roots.insert(*root, (1, tree.data.clone(), children));
					},
				}
				return created
			},
			(ColModel::Multi(m), RChange::RefTree(root)) =>
				if !ccfg.append_only {
					if let Some(r) = m.roots.get_mut(root) {
						r.0 += 1;
					}
				},
			(ColModel::Multi(m), RChange::DerefTree(root)) => m.deref_root(*root, ccfg.append_only),
			(m, c) => panic!("model: change {:?} not applicable to column model {:?}", c, m),
		}
		Vec::new()
	}

	fn insert_children(
		m: &mut MultiModel,
		children: &[RChild],
		created: &mut Vec<NodeId>,
		append_only: bool,
	) -> Vec<NodeId> {
		let mut out = Vec::new();
		for c in children {
			match c {
				RChild::New(t) => {
					let id = m.nodes.len();
					m.nodes.push(MNode { data: t.data.clone(), children: vec![], refs: 1, live: true });
					created.push(id);
					let ch = Self::insert_children(m, &t.children, created, append_only);
					m.nodes[id].children = ch;
					out.push(id);
				},
				RChild::Existing(n) => {
					if !append_only {
						m.nodes[*n].refs += 1;
					}
					out.push(*n);
				},
			}
		}
		out
	}
}

/// Hash of a byte string used in observations (keeps observation vectors small).
pub fn h64(data: &[u8]) -> u64 {
	let mut h = 0xcbf29ce484222325u64;
	for chunk in data.chunks(8) {
		let mut b = [0u8; 8];
		b[..chunk.len()].copy_from_slice(chunk);
		h = splitmix(h ^ u64::from_le_bytes(b));
	}
	splitmix(h ^ data.len() as u64)
}
