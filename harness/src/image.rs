//! Crash images: sparse-aware directory copies, logical observations, stop points and the
//! prefix-recovery oracle (DESIGN 3.2, 3.3).

use crate::{interp::*, model::*, spec::*};
use serde::{Deserialize, Serialize};
use std::{
	collections::{BTreeMap, BTreeSet},
	fs::File,
	io,
	os::unix::{fs::FileExt, io::AsRawFd},
	path::Path,
};

pub fn set_faults(n: usize) {
	parity_db::set_number_of_allowed_io_operations(n);
}

pub fn disarm() {
	set_faults(usize::MAX);
}

pub fn remaining_faults() -> usize {
	parity_db::verif_remaining_io_operations()
}

/// Copies one file preserving holes (SEEK_DATA / SEEK_HOLE).
pub fn copy_file_sparse(src: &Path, dst: &Path) -> io::Result<()> {
	let s = File::open(src)?;
	let len = s.metadata()?.len();
	let d = File::create(dst)?;
	d.set_len(len)?;
	let fd = s.as_raw_fd();
	let mut off: i64 = 0;
	let mut buf = vec![0u8; 1 << 16];
	while (off as u64) < len {
		let data = unsafe { libc::lseek(fd, off, libc::SEEK_DATA) };
		if data < 0 {
			break // ENXIO: no more data
		}
		let mut hole = unsafe { libc::lseek(fd, data, libc::SEEK_HOLE) };
		if hole < 0 {
			hole = len as i64;
		}
		let mut p = data as u64;
		while p < hole as u64 {
			let n = ((hole as u64 - p) as usize).min(buf.len());
			let r = s.read_at(&mut buf[..n], p)?;
			if r == 0 {
				break
			}
			// skip all-zero blocks to keep the copy sparse
			if buf[..r].iter().any(|b| *b != 0) {
				d.write_all_at(&buf[..r], p)?;
			}
			p += r as u64;
		}
		off = hole;
	}
	Ok(())
}

/// Copies a database directory (the `lock` file is skipped).
pub fn copy_dir(src: &Path, dst: &Path) -> io::Result<()> {
	let _ = std::fs::remove_dir_all(dst);
	std::fs::create_dir_all(dst)?;
	for e in std::fs::read_dir(src)? {
		let e = e?;
		let name = e.file_name();
		if name == "lock" {
			continue
		}
		if e.file_type()?.is_file() {
			copy_file_sparse(&e.path(), &dst.join(&name))?;
		}
	}
	Ok(())
}

pub fn file_sizes(dir: &Path) -> BTreeMap<String, u64> {
	let mut m = BTreeMap::new();
	if let Ok(rd) = std::fs::read_dir(dir) {
		for e in rd.flatten() {
			if let Ok(md) = e.metadata() {
				if md.is_file() {
					m.insert(e.file_name().to_string_lossy().to_string(), md.len());
				}
			}
		}
	}
	m
}

pub fn is_log(name: &str) -> bool {
	name.starts_with("log") && name[3..].parse::<u32>().is_ok()
}

/// Snapshot of names, lengths and content hashes of a directory (`lock` and `stats.txt`
/// ignored) - used to assert that a call modified nothing.
pub fn dir_snapshot(dir: &Path) -> BTreeMap<String, (u64, u64)> {
	let mut m = BTreeMap::new();
	if let Ok(rd) = std::fs::read_dir(dir) {
		for e in rd.flatten() {
			let name = e.file_name().to_string_lossy().to_string();
			if name == "lock" {
				continue
			}
			if let Ok(md) = e.metadata() {
				if md.is_file() {
					let tmp = std::env::temp_dir();
					let _ = tmp;
					let h = hash_file_sparse(&e.path()).unwrap_or(0);
					m.insert(name, (md.len(), h));
				} else {
					m.insert(name, (u64::MAX, 0));
				}
			}
		}
	}
	m
}

pub fn hash_file_sparse(p: &Path) -> io::Result<u64> {
	let s = File::open(p)?;
	let len = s.metadata()?.len();
	let fd = s.as_raw_fd();
	let mut h = 0x1234u64;
	let mut off: i64 = 0;
	let mut buf = vec![0u8; 1 << 16];
	while (off as u64) < len {
		let data = unsafe { libc::lseek(fd, off, libc::SEEK_DATA) };
		if data < 0 {
			break
		}
		let mut hole = unsafe { libc::lseek(fd, data, libc::SEEK_HOLE) };
		if hole < 0 {
			hole = len as i64;
		}
		let mut p = data as u64;
		while p < hole as u64 {
			let n = ((hole as u64 - p) as usize).min(buf.len());
			let r = s.read_at(&mut buf[..n], p)?;
			if r == 0 {
				break
			}
			// hash 4 KiB blocks, skipping zero blocks so that holes and zero data agree
			for (i, blk) in buf[..r].chunks(4096).enumerate() {
				if blk.iter().any(|b| *b != 0) {
					h = splitmix(h ^ h64(blk) ^ (p + i as u64 * 4096));
				}
			}
			p += r as u64;
		}
		off = hole;
	}
	Ok(h)
}

// ---------------------------------------------------------------------------------------
// Observations

#[derive(Clone, Debug, PartialEq, Eq, Serialize, Deserialize)]
pub enum ColObs {
	/// key id -> (len, hash)
	Map(BTreeMap<u16, (u32, u64)>),
	/// present key ids with their count (hash columns, through value iteration) or 1 (btree
	/// columns, where the count is not observable)
	Rc(BTreeMap<u16, u64>),
	/// root id -> canonical hash of the tree
	Multi(BTreeMap<u16, u64>),
}

pub type Obs = Vec<ColObs>;

fn canon_hash(c: &CanonTree) -> u64 {
	let mut h = splitmix(c.data ^ (c.len as u64) << 32 ^ c.children.len() as u64);
	for ch in &c.children {
		h = splitmix(h ^ canon_hash(ch));
	}
	h
}

pub fn expected_obs(it: &Interp, model: &Model) -> Obs {
	let mut out = Vec::new();
	for (col, m) in model.cols.iter().enumerate() {
		out.push(match m {
			ColModel::Map(m) => ColObs::Map(
				it.universe[col]
					.iter()
					.filter_map(|id| m.get(id).map(|v| (*id, (v.len() as u32, h64(v)))))
					.collect(),
			),
			ColModel::Rc(m) => {
				let hash = it.cfg.cols[col].kind == Kind::Hash;
				ColObs::Rc(
					it.universe[col]
						.iter()
						.filter_map(|id| m.get(id).map(|c| (*id, if hash { *c } else { 1 })))
						.collect(),
				)
			},
			ColModel::Multi(mm) => {
				let mut t = BTreeMap::new();
				for id in it.universe[col].iter() {
					if mm.roots.contains_key(id) {
						let tmp = Model { cols: vec![ColModel::Multi(mm.clone())] };
						let _ = tmp;
						t.insert(*id, canon_hash(&canon_of(mm, *id)));
					}
				}
				ColObs::Multi(t)
			},
		});
	}
	out
}

fn canon_of(m: &MultiModel, root: u16) -> CanonTree {
	let (_, data, children) = m.roots.get(&root).unwrap();
	fn node(m: &MultiModel, n: NodeId) -> CanonTree {
		let nd = &m.nodes[n];
		CanonTree { data: h64(&nd.data), len: nd.data.len(), children: nd.children.iter().map(|c| node(m, *c)).collect() }
	}
	CanonTree { data: h64(data), len: data.len(), children: children.iter().map(|c| node(m, *c)).collect() }
}

/// Observes the logical state of the open database of `it` over its universe.
pub fn observe(it: &Interp) -> Res<Obs> {
	let mut out = Vec::new();
	for (col, ccfg) in it.cfg.cols.iter().enumerate() {
		let col8 = col as u8;
		out.push(match ccfg.kind {
			Kind::Multi => {
				let mut t = BTreeMap::new();
				for id in it.universe[col].iter() {
					match it.read_tree(col8, *id) {
						Ok(Some((c, _))) => {
							t.insert(*id, canon_hash(&c));
						},
						Ok(None) => {},
						Err(f) => {
							// a structurally broken tree is an observation that matches no model
							return Err(Failure::new(format!("recovered-tree-broken:{}", f.sig), f.detail))
						},
					}
				}
				ColObs::Multi(t)
			},
			_ if ccfg.rc => {
				let mut s = BTreeMap::new();
				for id in it.universe[col].iter() {
					if let Some(v) = it.get(col8, &ccfg.key(*id))? {
						if v != ccfg.pre_value(*id) {
							fail!("recovered-value-corrupt", "col {col} key id {id}: value differs from f(key): {}", brief(Some(&v)))
						}
						s.insert(*id, 1);
					}
				}
				if ccfg.kind == Kind::Hash && it.queue_empty() && it.stages.in_flight() == 0 {
					let counts = observe_rc_counts(it, col8)?;
					let present: BTreeSet<u16> = s.keys().cloned().collect();
					let iterated: BTreeSet<u16> = counts.keys().cloned().filter(|k| it.universe[col].contains(k)).collect();
					if present != iterated || counts.len() != iterated.len() {
						fail!("value-iteration-disagrees-with-get", "col {col}: keys readable {:?} but value iteration reports {:?}", present, counts)
					}
					s = counts;
				}
				ColObs::Rc(s)
			},
			_ => {
				let mut m = BTreeMap::new();
				for id in it.universe[col].iter() {
					if let Some(v) = it.get(col8, &ccfg.key(*id))? {
						m.insert(*id, (v.len() as u32, h64(&v)));
					}
				}
				ColObs::Map(m)
			},
		});
	}
	Ok(out)
}

/// Reference counts of a drained hash rc column through value iteration: key id -> count.
pub fn observe_rc_counts(it: &Interp, col: u8) -> Res<BTreeMap<u16, u64>> {
	let ccfg = &it.cfg.cols[col as usize];
	let mut out = BTreeMap::new();
	let mut bad: Option<String> = None;
	let r = it.db().iter_column_while(col, |st| {
		match ccfg.pre_value_owner(&st.value) {
			Some(id) => {
				if out.insert(id, st.rc as u64).is_some() {
					bad = Some(format!("value of key id {id} reported twice by iteration"));
				}
			},
			None => bad = Some(format!("iteration reported a value that belongs to no key: {}", brief(Some(&st.value)))),
		}
		true
	});
	if let Err(e) = r {
		fail!(format!("iter_column-failed:{}", err_sig(&e)), "iter_column_while failed: {e}")
	}
	if let Some(b) = bad {
		fail!("value-iteration-wrong", "col {col}: {b}")
	}
	Ok(out)
}

// ---------------------------------------------------------------------------------------
// Stop points

#[derive(Clone, Debug, Serialize, Deserialize, PartialEq, Eq, Hash)]
pub struct StopPoint {
	/// index of the op in which the fault is injected
	pub op: usize,
	/// the op fails at its n-th file operation (n >= number of operations: boundary after the op)
	pub n: usize,
	/// cut of the unsynced log tail: per-65536 fraction of the unsynced bytes kept (None: keep all)
	pub cut: Option<u16>,
	/// crash again inside recovery at this file operation of Db::open (recursively)
	pub recover_n: Vec<usize>,
}

#[derive(Clone)]
pub struct ImageInfo {
	pub faulted: bool,
	pub committed: usize,
	pub synced: usize,
	pub cleaned: usize,
	/// transactions whose records had been applied to the tables
	pub cleaned_or_enacted: usize,
	/// id of the last log record applied to the tables at the crash instant
	pub last_enacted_record: u64,
	pub had_log: bool,
	pub cut_inside: bool,
	pub prefix: Vec<Model>,
	pub addr: std::collections::HashMap<(u8, NodeId), u64>,
	pub universe: Vec<BTreeSet<u16>>,
	pub labels: BTreeSet<&'static str>,
}

/// Tracks, per log file, how many of its bytes were covered by the last successful sync.
#[derive(Default, Clone)]
pub struct SyncTrack {
	pub synced: BTreeMap<String, u64>,
}

impl SyncTrack {
	pub fn after_op(&mut self, dir: &Path, was_flush_ok: bool) {
		let sizes = file_sizes(dir);
		self.synced.retain(|k, _| sizes.contains_key(k));
		for (name, sz) in sizes {
			if !is_log(&name) {
				continue
			}
			let e = self.synced.entry(name).or_insert(0);
			if was_flush_ok || sz < *e {
				*e = sz;
			}
		}
	}
}

/// Runs the scenario up to the stop point and leaves the crash image in `img`.
/// `pre_ops` = the ops executed completely before the faulted op.
pub fn make_image(sc: &Scenario, sp: &StopPoint, work: &Path, img: &Path) -> Res<ImageInfo> {
	let _ = std::fs::remove_dir_all(work);
	std::fs::create_dir_all(work).map_err(|e| Failure::new("harness-io", e.to_string()))?;
	let mut it = Interp::new(&sc.cfg, work, Interp::universe_of(sc));
	it.keep_prefix = true;
	it.check_every_op = false;
	it.open()?;
	it.sync_track = Some(SyncTrack::default());
	for op in sc.ops.iter().take(sp.op) {
		it.step(op)?;
	}
	let mut faulted = false;
	if sp.op < sc.ops.len() {
		let op = &sc.ops[sp.op];
		it.fault_armed = true;
		set_faults(sp.n);
		let r = it.step(op);
		let left = remaining_faults();
		set_faults(0);
		match r {
			Ok(StepOut::Faulted(_)) => faulted = true,
			Ok(_) => {
				// an op can swallow the injected error internally; treat "budget exhausted" as faulted
				faulted = left == 0;
			},
			Err(f) => {
				disarm();
				return Err(f)
			},
		}
	}
	let mut track = it.sync_track.clone().unwrap_or_default();
	// files that shrank or vanished in the interrupted op
	track.after_op(work, false);
	// the crash image: the directory as it is right now
	copy_dir(work, img).map_err(|e| Failure::new("harness-io", format!("copy: {e}")))?;
	// cut the unsynced tail of log files
	let mut had_log = false;
	let mut cut_inside = false;
	for (name, sz) in file_sizes(img) {
		if !is_log(&name) {
			continue
		}
		if sz > 0 {
			had_log = true;
		}
		let synced = track.synced.get(&name).cloned().unwrap_or(0).min(sz);
		// a stop point inside Reopen may lie after a log sync performed by the shutdown
		// sequence itself, which the tracker cannot see: never cut there
		let in_reopen = sp.op < sc.ops.len() && matches!(sc.ops[sp.op], Op::Reopen);
		if let (Some(cut), false) = (sp.cut, in_reopen) {
			if sz > synced {
				let keep = synced + (((sz - synced) as u128 * cut as u128) >> 16) as u64;
				if keep < sz {
					let f = std::fs::OpenOptions::new().write(true).open(img.join(&name)).map_err(|e| Failure::new("harness-io", e.to_string()))?;
					f.set_len(keep).map_err(|e| Failure::new("harness-io", e.to_string()))?;
					if keep > synced {
						cut_inside = true;
					}
				}
			}
		}
	}
	let last_enacted_record = it.db.as_ref().map_or(0, |d| d.verif_last_enacted());
	let info = ImageInfo {
		faulted,
		last_enacted_record,
		committed: it.committed,
		synced: it.stages.synced,
		cleaned: it.stages.cleaned,
		cleaned_or_enacted: it.stages.cleaned + it.stages.enacted.len(),
		had_log,
		cut_inside,
		prefix: it.prefix.clone(),
		addr: it.addr.clone(),
		universe: it.universe.clone(),
		labels: it.labels.clone(),
	};
	// drop the live handle with the injector refusing everything: the original directory is
	// irrelevant from here on
	set_faults(0);
	drop(it);
	disarm();
	Ok(info)
}

pub struct Recovered {
	pub interp: Interp,
	pub prefix_index: usize,
	/// every prefix index (>= lower bound) whose state equals the observation, descending
	pub candidates: Vec<usize>,
	pub recovery_crashes: usize,
	pub dir: std::path::PathBuf,
}

/// Opens a crash image and checks the prefix oracle: `lower <= p <= committed`.
pub fn recover_and_check(sc: &Scenario, info: &ImageInfo, sp: &StopPoint, img: &Path, scratch: &Path, lower: usize) -> Res<Recovered> {
	let mut cur = img.to_path_buf();
	let mut crashes = 0;
	// crashes inside recovery
	for (depth, n) in sp.recover_n.iter().enumerate() {
		let mut it = Interp::new(&sc.cfg, &cur, info.universe.clone());
		it.fault_armed = true;
		set_faults(*n);
		let r = it.open();
		set_faults(0);
		let opened = matches!(r, Ok(StepOut::Done));
		let next = scratch.join(format!("rec{depth}"));
		let cp = copy_dir(&cur, &next);
		drop(it);
		disarm();
		if let Err(f) = r {
			return Err(f)
		}
		cp.map_err(|e| Failure::new("harness-io", format!("copy: {e}")))?;
		if opened {
			// the budget was larger than the number of operations of open: no crash happened
			let _ = std::fs::remove_dir_all(&next);
			break
		}
		crashes += 1;
		cur = next;
	}
	let mut it = Interp::new(&sc.cfg, &cur, info.universe.clone());
	it.check_every_op = true;
	match it.open() {
		Ok(_) => {},
		Err(f) => return Err(Failure::new(format!("recovery-{}", f.sig), format!("opening the crash image failed: {}", f.detail))),
	}
	let obs = observe(&it)?;
	let upper = info.committed.min(info.prefix.len() - 1);
	let mut candidates = Vec::new();
	let mut any_match = None;
	for p in (0..=upper).rev() {
		if expected_obs(&it, &info.prefix[p]) == obs {
			if any_match.is_none() {
				any_match = Some(p);
			}
			if p >= lower {
				candidates.push(p);
			}
		}
	}
	let p = match (candidates.first(), any_match) {
		(Some(p), _) => *p,
		(None, Some(p)) => fail!(
			"recovered-state-too-old",
			"recovered state equals prefix {p} but {lower} transactions had been synced before the crash (committed {})",
			info.committed
		),
		(None, None) => fail!(
			"recovered-state-not-a-prefix",
			"recovered state matches no prefix of the {} committed transactions: observed {}",
			info.committed,
			obs_brief(&obs)
		),
	};
	adopt_prefix(&mut it, info, p);
	Ok(Recovered { interp: it, prefix_index: p, candidates, recovery_crashes: crashes, dir: cur })
}

/// Makes the interpreter continue from prefix state `p`.
pub fn adopt_prefix(it: &mut Interp, info: &ImageInfo, p: usize) {
	it.model = info.prefix[p].clone();
	it.committed = p;
	it.addr.clear();
	// node addresses known for nodes that exist in that prefix
	for ((col, n), a) in info.addr.iter() {
		if let ColModel::Multi(m) = &it.model.cols[*col as usize] {
			if *n < m.nodes.len() {
				it.addr.insert((*col, *n), *a);
			}
		}
	}
	it.stages = Stages { cleaned: p, synced: p, logged: p, ..Default::default() };
}

pub fn obs_brief(o: &Obs) -> String {
	let mut s = String::new();
	for (i, c) in o.iter().enumerate() {
		match c {
			ColObs::Map(m) => s.push_str(&format!("col{i}:{{{}}} ", m.iter().map(|(k, (l, h))| format!("{k}:len{l}/h{:04x}", *h as u16)).collect::<Vec<_>>().join(","))),
			ColObs::Rc(m) => s.push_str(&format!("col{i}:rc{:?} ", m)),
			ColObs::Multi(m) => s.push_str(&format!("col{i}:trees{:?} ", m.keys().collect::<Vec<_>>())),
		}
	}
	s
}
