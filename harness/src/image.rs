//! Crash images: sparse-aware directory copies, stop points (see DESIGN 3.3).
