//! Generic property runner: proptest driven from a binary, case counting, labels, samples,
//! shrinking to a replay file, shard reports and evidence files.

use crate::interp::Failure;
use proptest::{
	strategy::Strategy,
	test_runner::{Config, RngAlgorithm, RngSeed, TestCaseError, TestError, TestRunner},
};
use serde::{de::DeserializeOwned, Deserialize, Serialize};
use std::{
	cell::{Cell, RefCell},
	collections::{BTreeMap, BTreeSet},
	hash::{Hash, Hasher},
	path::{Path, PathBuf},
};

#[derive(Clone, Debug, Default)]
pub struct CaseOut {
	pub labels: BTreeSet<String>,
	pub nontrivial: bool,
	/// additional evaluations performed inside this case (e.g. crash images), each counted as
	/// an evaluation; `sub_nontrivial` of them were non-trivial and distinct within the case.
	pub sub_evals: u64,
	pub sub_nontrivial: u64,
	pub counters: BTreeMap<String, u64>,
}

impl CaseOut {
	pub fn label(&mut self, l: &str) {
		self.labels.insert(l.to_string());
	}
	pub fn excluded_known_count(&mut self, n: u64) {
		if n > 0 {
			self.count("excluded_known", n);
		}
	}
	pub fn count(&mut self, k: &str, n: u64) {
		*self.counters.entry(k.to_string()).or_insert(0) += n;
	}
}

pub type CaseResult = Result<CaseOut, Failure>;

#[derive(Clone, Debug, Serialize, Deserialize, Default)]
pub struct FailureReport {
	pub signature: String,
	pub detail: String,
	pub replay: String,
	pub known: bool,
}

#[derive(Clone, Debug, Serialize, Deserialize, Default)]
pub struct ShardReport {
	pub evaluations: u64,
	pub cases: u64,
	pub nontrivial_cases: u64,
	pub sub_nontrivial: u64,
	pub labels: BTreeMap<String, u64>,
	pub counters: BTreeMap<String, u64>,
	pub samples: Vec<serde_json::Value>,
	pub failures: Vec<FailureReport>,
	pub known_findings: Vec<String>,
	pub shrink_runs: u64,
	pub excluded_known: u64,
	pub rules: Vec<String>,
	pub exhaustive: bool,
	pub notes: Vec<String>,
	#[serde(skip)]
	pub fps: BTreeSet<u64>,
}

impl ShardReport {
	pub fn merge(&mut self, o: ShardReport) {
		self.evaluations += o.evaluations;
		self.cases += o.cases;
		self.nontrivial_cases += o.nontrivial_cases;
		self.sub_nontrivial += o.sub_nontrivial;
		for (k, v) in o.labels {
			*self.labels.entry(k).or_insert(0) += v;
		}
		for (k, v) in o.counters {
			*self.counters.entry(k).or_insert(0) += v;
		}
		for s in o.samples {
			if self.samples.len() < 6 {
				self.samples.push(s);
			}
		}
		self.failures.extend(o.failures);
		for k in o.known_findings {
			if !self.known_findings.contains(&k) {
				self.known_findings.push(k);
			}
		}
		self.shrink_runs += o.shrink_runs;
		self.excluded_known += o.excluded_known;
		for r in o.rules {
			if !self.rules.contains(&r) {
				self.rules.push(r);
			}
		}
		for r in o.notes {
			if !self.notes.contains(&r) {
				self.notes.push(r);
			}
		}
		self.exhaustive = self.exhaustive || o.exhaustive;
		self.fps.extend(o.fps);
	}
}

pub struct Ctx {
	pub prop: String,
	pub tier: String,
	pub seed: u64,
	pub shard: u64,
	pub shards: u64,
	pub scratch: PathBuf,
	pub replay_dir: PathBuf,
	pub report: RefCell<ShardReport>,
	pub case_no: Cell<u64>,
	/// where the shard report goes (set for shard processes)
	pub out_path: RefCell<Option<PathBuf>>,
}

pub fn fingerprint<T: Serialize>(v: &T) -> u64 {
	let s = serde_json::to_string(v).unwrap_or_default();
	let mut h = std::collections::hash_map::DefaultHasher::new();
	s.hash(&mut h);
	h.finish()
}

thread_local! {
	static LAST_PANIC: RefCell<Option<String>> = RefCell::new(None);
}

pub static ALL_PANICS: std::sync::Mutex<Vec<String>> = std::sync::Mutex::new(Vec::new());

/// Panics seen on any thread since the last call.
pub fn take_panics() -> Vec<String> {
	ALL_PANICS.lock().map(|mut g| std::mem::take(&mut *g)).unwrap_or_default()
}

pub fn install_panic_hook() {
	std::panic::set_hook(Box::new(|info| {
		let loc = info.location().map(|l| format!("{}:{}", l.file(), l.line())).unwrap_or_default();
		let msg = if let Some(s) = info.payload().downcast_ref::<&str>() {
			s.to_string()
		} else if let Some(s) = info.payload().downcast_ref::<String>() {
			s.clone()
		} else {
			"?".into()
		};
		if std::env::var("PDBV_BACKTRACE").is_ok() {
			eprintln!("panic at {loc}: {msg}\n{}", std::backtrace::Backtrace::force_capture());
		}
		// panics of other threads (the library's workers) are collected too
		if let Ok(mut g) = ALL_PANICS.lock() {
			if g.len() < 16 {
				let loc2 = loc.rsplit_once("/src/").map(|(_, r)| format!("src/{r}")).unwrap_or(loc.clone());
				g.push(format!("{loc2}: {msg}"));
			}
		}
		LAST_PANIC.with(|p| *p.borrow_mut() = Some(format!("{loc}|{msg}")));
	}));
}

/// Runs `f`, converting a panic inside it into a Failure with signature `panic@file:line`.
pub fn guarded<R>(f: impl FnOnce() -> Result<R, Failure>) -> Result<R, Failure> {
	// the fault injector is thread-local state of the library: never let it leak between cases
	parity_db::set_number_of_allowed_io_operations(usize::MAX);
	let r = std::panic::catch_unwind(std::panic::AssertUnwindSafe(f));
	parity_db::set_number_of_allowed_io_operations(usize::MAX);
	match r {
		Ok(r) => r,
		Err(_) => {
			let p = LAST_PANIC.with(|p| p.borrow_mut().take()).unwrap_or_default();
			let (loc, msg) = p.split_once('|').unwrap_or((&p, ""));
			// only the repository-relative part of the path
			let loc = loc.rsplit_once("/src/").map(|(_, r)| format!("src/{r}")).unwrap_or(loc.to_string());
			Err(Failure::new(format!("panic@{loc}"), format!("panic at {loc}: {msg}")))
		},
	}
}

impl Ctx {
	pub fn case_dir(&self) -> PathBuf {
		let n = self.case_no.get();
		self.case_no.set(n + 1);
		let d = self.scratch.join(format!("c{n}"));
		let _ = std::fs::remove_dir_all(&d);
		std::fs::create_dir_all(&d).expect("scratch dir");
		d
	}

	pub fn shard_seed(&self, sub: u64) -> u64 {
		crate::spec::splitmix(self.seed.wrapping_mul(1000003).wrapping_add(self.shard).wrapping_add(sub << 32))
	}

	pub fn rule(&self, r: &str) {
		let mut rep = self.report.borrow_mut();
		if !rep.rules.iter().any(|x| x == r) {
			rep.rules.push(r.to_string());
		}
	}

	pub fn note(&self, r: &str) {
		let mut rep = self.report.borrow_mut();
		if !rep.notes.iter().any(|x| x == r) {
			rep.notes.push(r.to_string());
		}
	}

	fn record_ok<T: Serialize>(&self, case: &T, out: &CaseOut) {
		let mut rep = self.report.borrow_mut();
		rep.cases += 1;
		rep.evaluations += 1 + out.sub_evals;
		rep.sub_nontrivial += out.sub_nontrivial;
		if out.nontrivial {
			rep.nontrivial_cases += 1;
			rep.fps.insert(fingerprint(case));
		}
		for l in &out.labels {
			*rep.labels.entry(l.clone()).or_insert(0) += 1;
		}
		for (k, v) in &out.counters {
			*rep.counters.entry(k.clone()).or_insert(0) += v;
			if k.starts_with("excluded_known") {
				rep.excluded_known += v;
			}
		}
		if rep.samples.len() < 3 && (out.nontrivial || rep.cases > 20) {
			let mut v = serde_json::to_value(case).unwrap_or(serde_json::Value::Null);
			abridge(&mut v, 0);
			rep.samples.push(v);
		}
	}

	/// Writes the replay file for a failing case and records the failure.
	pub fn record_failure<T: Serialize>(&self, sub: &str, case: &T, f: &Failure) {
		let case = match &f.case_override {
			Some(c) => c.clone(),
			None => serde_json::to_value(case).unwrap_or(serde_json::Value::Null),
		};
		let fp = fingerprint(&case);
		let path = self.replay_dir.join(format!("{}-{}-{:016x}.json", self.prop, sub, fp));
		let doc = serde_json::json!({
			"property": self.prop,
			"sub": sub,
			"signature": f.sig,
			"detail": f.detail,
			"case": case,
		});
		let _ = std::fs::create_dir_all(&self.replay_dir);
		let _ = std::fs::write(&path, serde_json::to_string_pretty(&doc).unwrap());
		self.report.borrow_mut().failures.push(FailureReport {
			signature: f.sig.clone(),
			detail: f.detail.clone(),
			replay: path.to_string_lossy().to_string(),
			known: false,
		});
	}

	/// Runs `cases` generated cases of `strat` through `f`. Stops at the first failure, shrinks
	/// it and writes the replay file. Returns false if a failure was found.
	pub fn run_prop<S, F>(&self, sub: &str, cases: u32, strat: S, f: F) -> bool
	where
		S: Strategy,
		S::Value: Serialize + std::fmt::Debug + Clone,
		F: Fn(&S::Value, &Path) -> CaseResult,
	{
		self.run_prop_shrink(sub, cases, 1500, strat, f)
	}

	/// Like `run_prop` with an explicit bound on shrink iterations (expensive cases).
	pub fn run_prop_shrink<S, F>(&self, sub: &str, cases: u32, max_shrink: u32, strat: S, f: F) -> bool
	where
		S: Strategy,
		S::Value: Serialize + std::fmt::Debug + Clone,
		F: Fn(&S::Value, &Path) -> CaseResult,
	{
		// debugging aid: PDBV_ONLY_SUB=<name> runs only that sub-run
		if let Ok(only) = std::env::var("PDBV_ONLY_SUB") {
			if only != sub {
				return true
			}
		}
		let seed = self.shard_seed(fingerprint(&sub.to_string()) & 0xffff);
		let mut seed_bytes = [0u8; 32];
		crate::spec::fill_random(&mut seed_bytes, seed);
		let config = Config {
			cases,
			failure_persistence: None,
			rng_algorithm: RngAlgorithm::ChaCha,
			rng_seed: RngSeed::Fixed(seed),
			// seeded-change runs only need the verdict, not a minimal case
			max_shrink_iters: if std::env::var("PDBV_NO_SHRINK").is_ok() { 0 } else { max_shrink },
			max_shrink_time: 0,
			max_global_rejects: 1_000_000,
			..Config::default()
		};
		let mut runner = TestRunner::new(config);
		let failed_once = Cell::new(false);
		let last_failure: RefCell<Option<Failure>> = RefCell::new(None);
		let trace = std::env::var("PDBV_TRACE_CASE").is_ok();
		let result = runner.run(&strat, |case| {
			if trace {
				// debugging aid for hangs: the case in progress is left on disk
				let doc = serde_json::json!({ "property": self.prop, "sub": sub, "signature": "in-progress", "detail": "", "case": &case });
				let _ = std::fs::write(scratch_root().join(format!("pdbv.current.{}.{}.json", self.prop, self.shard)), serde_json::to_string(&doc).unwrap_or_default());
			}
			let dir = self.case_dir();
			let r = guarded(|| f(&case, &dir));
			let _ = std::fs::remove_dir_all(&dir);
			match r {
				Ok(out) => {
					if !failed_once.get() {
						self.record_ok(&case, &out);
					} else {
						self.report.borrow_mut().shrink_runs += 1;
					}
					Ok(())
				},
				Err(fl) => {
					if failed_once.get() {
						self.report.borrow_mut().shrink_runs += 1;
						// keep shrinking only towards the same signature
						let same = last_failure.borrow().as_ref().map_or(true, |l: &Failure| l.sig == fl.sig);
						if !same {
							return Ok(())
						}
					} else {
						let mut rep = self.report.borrow_mut();
						rep.cases += 1;
						rep.evaluations += 1;
					}
					failed_once.set(true);
					let msg = format!("{}: {}", fl.sig, fl.detail);
					*last_failure.borrow_mut() = Some(fl);
					Err(TestCaseError::fail(msg))
				},
			}
		});
		match result {
			Ok(()) => true,
			Err(TestError::Fail(_reason, minimal)) => {
				// re-run the minimal case to get its own failure detail
				let dir = self.case_dir();
				let r = guarded(|| f(&minimal, &dir));
				let _ = std::fs::remove_dir_all(&dir);
				let fl = match r {
					Err(fl) => fl,
					Ok(_) => last_failure.borrow().clone().unwrap_or(Failure::new("unknown", "failure did not reproduce on the minimal case")),
				};
				self.record_failure(sub, &minimal, &fl);
				false
			},
			Err(TestError::Abort(reason)) => {
				self.note(&format!("sub-run {sub} aborted: {reason}"));
				true
			},
		}
	}

	/// Runs one explicit (enumerated) case.
	pub fn run_case<T: Serialize + Clone>(&self, sub: &str, case: &T, f: impl FnOnce(&T, &Path) -> CaseResult) -> bool {
		let dir = self.case_dir();
		let r = guarded(|| f(case, &dir));
		let _ = std::fs::remove_dir_all(&dir);
		match r {
			Ok(out) => {
				self.record_ok(case, &out);
				true
			},
			Err(fl) => {
				{
					let mut rep = self.report.borrow_mut();
					rep.cases += 1;
					rep.evaluations += 1;
				}
				self.record_failure(sub, case, &fl);
				false
			},
		}
	}

	/// Writes the shard report to its destination.
	pub fn write_report(&self) {
		if let Some(out) = self.out_path.borrow().as_ref() {
			let rep = self.report.borrow();
			let fps: Vec<u8> = rep.fps.iter().flat_map(|f| f.to_le_bytes()).collect();
			let _ = std::fs::write(out.with_extension("fps"), fps);
			let _ = std::fs::write(out, serde_json::to_vec(&*rep).unwrap());
		}
	}

	/// A library call did not return (a helper thread is stuck inside it): record the failure
	/// for the given case, write the report and leave the process - shrinking is impossible.
	pub fn abort_with_failure<T: Serialize>(&self, sub: &str, case: &T, f: &Failure) -> ! {
		{
			let mut rep = self.report.borrow_mut();
			rep.cases += 1;
			rep.evaluations += 1;
		}
		self.record_failure(sub, case, f);
		self.write_report();
		let _ = std::fs::remove_dir_all(&self.scratch);
		std::process::exit(0)
	}

	pub fn failed(&self) -> bool {
		!self.report.borrow().failures.is_empty()
	}
}

/// Shortens long arrays / strings inside a sample so that evidence files stay readable.
pub fn abridge(v: &mut serde_json::Value, depth: usize) {
	match v {
		serde_json::Value::Array(a) => {
			let max = if depth <= 2 { 40 } else { 12 };
			if a.len() > max {
				let n = a.len();
				a.truncate(max);
				a.push(serde_json::Value::String(format!("... {} more", n - max)));
			}
			for x in a.iter_mut() {
				abridge(x, depth + 1);
			}
		},
		serde_json::Value::Object(o) =>
			for (_, x) in o.iter_mut() {
				abridge(x, depth + 1);
			},
		serde_json::Value::String(s) =>
			if s.len() > 200 {
				s.truncate(200);
				s.push_str("...");
			},
		_ => {},
	}
}

pub fn load_replay<T: DeserializeOwned>(path: &Path) -> Result<(String, T), String> {
	let s = std::fs::read_to_string(path).map_err(|e| format!("cannot read {}: {e}", path.display()))?;
	let v: serde_json::Value = serde_json::from_str(&s).map_err(|e| format!("bad json: {e}"))?;
	let sub = v.get("sub").and_then(|s| s.as_str()).unwrap_or("").to_string();
	let case = v.get("case").cloned().ok_or("no case in replay file")?;
	let case: T = serde_json::from_value(case).map_err(|e| format!("bad case: {e}"))?;
	Ok((sub, case))
}

pub fn scratch_root() -> PathBuf {
	let base = if Path::new("/dev/shm").is_dir() { PathBuf::from("/dev/shm") } else { std::env::temp_dir() };
	base
}

struct StderrLogger;
impl log::Log for StderrLogger {
	fn enabled(&self, _: &log::Metadata) -> bool {
		true
	}
	fn log(&self, record: &log::Record) {
		eprintln!("[{}] {}", record.level(), record.args());
	}
	fn flush(&self) {}
}
static LOGGER: StderrLogger = StderrLogger;

/// PDBV_LOG=debug|trace prints the library's log output (debugging of replays only).
pub fn init_logging() {
	if let Ok(l) = std::env::var("PDBV_LOG") {
		let _ = log::set_logger(&LOGGER);
		log::set_max_level(if l == "trace" { log::LevelFilter::Trace } else { log::LevelFilter::Debug });
	}
}
