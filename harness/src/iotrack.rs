//! Durability tracker (DESIGN 3.4): fed by the syscall interposers of the `pdbv_io` binary.
//! Keeps, for every file under the tracked directory, a *durable copy* = its content as of its
//! last successful fdatasync / fsync / msync (msync only its range); ftruncate sizes, creation
//! and unlink are applied to the durable copy at once (stated assumption of C12).

use crate::image::{copy_file_sparse, file_sizes, is_log};
use std::{
	cell::Cell,
	collections::BTreeMap,
	os::unix::fs::FileExt,
	path::{Path, PathBuf},
	sync::{
		atomic::{AtomicBool, AtomicI64, AtomicU64, Ordering},
		Mutex,
	},
};

pub struct Tracker {
	pub root: PathBuf,
	pub shadow: PathBuf,
	/// base address -> (length, file name, file offset)
	pub maps: BTreeMap<usize, (usize, String, u64)>,
	/// invariant violations observed at events (I2)
	pub violations: Vec<String>,
	pub events: u64,
	pub msyncs: u64,
	pub fsyncs: u64,
	pub check_i2: bool,
	/// threaded mode: power-loss images are taken inside the hooks
	pub snap: Option<SnapCfg>,
	pub snaps: Vec<SnapMeta>,
	pub eligible: u64,
	/// log files whose truncation / removal has been announced to the tracker but may not have
	/// happened yet (the hook runs before the real call): images taken by other threads in
	/// between treat them as already truncated, never as files with an unsynced tail
	pub in_flight: std::collections::BTreeSet<String>,
}

/// Threaded mode (real worker threads): at every log sync and every log truncate / unlink a
/// power-loss image is built right inside the hook, under the tracker lock, from the durable
/// copies (plus a generated subset of the dirty table pages).
#[derive(Clone, Debug)]
pub struct SnapCfg {
	pub dir: PathBuf,
	pub max: usize,
	/// take every stride-th eligible event
	pub stride: u64,
	pub seed: u64,
}

#[derive(Clone, Debug)]
pub struct SnapMeta {
	pub seq: usize,
	pub what: String,
	/// number of commit calls started when the image was taken (upper bound of its prefix)
	pub issued: u64,
	pub dir: PathBuf,
	pub kept_pages: u64,
	pub dropped_pages: u64,
	/// the image holds a generated prefix of the unsynced bytes of every log file (power failing
	/// during the sync of a log file); what is recovered from it was not necessarily durable
	pub volatile: bool,
	/// number of log files that held unsynced bytes when the image was taken
	pub unsynced_logs: u64,
	/// log files whose generated cut was raised to the replay anchor (known finding, excluded)
	pub anchors_kept: u64,
	pub log_cuts: Vec<(String, usize, usize, usize)>,
}

/// Number of commit calls the client has started (threaded mode).
pub static ISSUED: AtomicU64 = AtomicU64::new(0);
/// Threaded mode: the durable copy of an msync range is taken BEFORE the real msync (content
/// at call time is what the call guarantees; whatever a concurrent thread writes during the
/// call is not), and the call is slowed down by this many microseconds ("slow disk").
pub static THREADED: AtomicBool = AtomicBool::new(false);
pub static MSYNC_DELAY_US: AtomicU64 = AtomicU64::new(0);
/// Threaded mode: the sync of a log file is preceded by this delay ("slow disk": the log worker
/// may meanwhile append the next record to the next log file, so that two log files hold unsynced
/// bytes), after which a power-loss image WITH unsynced log bytes is taken (`SnapMeta::volatile`).
pub static LOGSYNC_DELAY_US: AtomicU64 = AtomicU64::new(0);

/// EIO mode (C16, real worker threads): the interposed write / sync / truncate / unlink / mmap
/// calls on files of `EIO_ROOT` succeed this many more times and fail with EIO from then on, on
/// whatever thread they are made. -1 = off.
pub static EIO_AFTER: AtomicI64 = AtomicI64::new(-1);
/// false: every interposed call fails (EIO); true: only `write` fails (ENOSPC, a full disk:
/// syncs, truncation, unlink and mapped-memory stores keep working)
pub static EIO_WRITES_ONLY: AtomicBool = AtomicBool::new(false);
pub static EIO_FAILED_CALLS: AtomicU64 = AtomicU64::new(0);
pub static EIO_ROOT: Mutex<Option<PathBuf>> = Mutex::new(None);

pub fn eio_arm(root: &Path, after: i64) {
	*EIO_ROOT.lock().unwrap_or_else(|e| e.into_inner()) = Some(root.to_path_buf());
	EIO_FAILED_CALLS.store(0, Ordering::SeqCst);
	EIO_AFTER.store(after, Ordering::SeqCst);
}

pub fn eio_disarm() -> u64 {
	EIO_AFTER.store(-1, Ordering::SeqCst);
	EIO_WRITES_ONLY.store(false, Ordering::SeqCst);
	EIO_FAILED_CALLS.load(Ordering::SeqCst)
}

fn eio_tick() -> bool {
	let mut fail = false;
	let _ = EIO_AFTER.fetch_update(Ordering::SeqCst, Ordering::SeqCst, |v| {
		if v > 0 {
			fail = false;
			Some(v - 1)
		} else {
			fail = v == 0;
			None
		}
	});
	if fail {
		EIO_FAILED_CALLS.fetch_add(1, Ordering::SeqCst);
	}
	fail
}

/// `write` calls: subject to both modes.
pub fn eio_write_fd(fd: i32) -> bool {
	eio_fd_inner(fd)
}

/// Should this call on `fd` fail? (counts the call when the file belongs to the root)
pub fn eio_fd(fd: i32) -> bool {
	if EIO_WRITES_ONLY.load(Ordering::Relaxed) {
		return false
	}
	eio_fd_inner(fd)
}

fn eio_fd_inner(fd: i32) -> bool {
	if EIO_AFTER.load(Ordering::Relaxed) < 0 || IN_HOOK.with(|h| h.get()) {
		return false
	}
	let root = match EIO_ROOT.lock().unwrap_or_else(|e| e.into_inner()).clone() {
		Some(r) => r,
		None => return false,
	};
	match std::fs::read_link(format!("/proc/self/fd/{fd}")) {
		Ok(p) if p.parent() == Some(&root) && p.file_name().map_or(false, |n| n != "lock") => eio_tick(),
		_ => false,
	}
}

pub fn eio_path(path: &Path) -> bool {
	if EIO_WRITES_ONLY.load(Ordering::Relaxed) || EIO_AFTER.load(Ordering::Relaxed) < 0 || IN_HOOK.with(|h| h.get()) {
		return false
	}
	let root = EIO_ROOT.lock().unwrap_or_else(|e| e.into_inner()).clone();
	if root.is_some() && path.parent() == root.as_deref() {
		return eio_tick()
	}
	false
}

/// msync: by mapped address (needs a tracker started for the same root)
pub fn eio_addr(addr: usize) -> bool {
	if EIO_WRITES_ONLY.load(Ordering::Relaxed) || EIO_AFTER.load(Ordering::Relaxed) < 0 || IN_HOOK.with(|h| h.get()) {
		return false
	}
	let mut hit = false;
	{
		let g = TRACKER.lock().unwrap_or_else(|e| e.into_inner());
		if let Some(t) = g.as_ref() {
			if let Some((b, (l, _, _))) = t.maps.range(..=addr).next_back() {
				hit = addr < b + l;
			}
		}
	}
	hit && eio_tick()
}

pub static TRACKER: Mutex<Option<Tracker>> = Mutex::new(None);

thread_local! {
	static IN_HOOK: Cell<bool> = Cell::new(false);
}

fn guarded(f: impl FnOnce(&mut Tracker)) {
	if IN_HOOK.with(|h| h.replace(true)) {
		return
	}
	{
		let mut g = TRACKER.lock().unwrap_or_else(|e| e.into_inner());
		if let Some(t) = g.as_mut() {
			f(t);
		}
	}
	IN_HOOK.with(|h| h.set(false));
}

/// Like `start`, but `shadow` already holds the durable copies (a process that takes over a
/// directory after the previous one was killed).
pub fn start_keep(root: &Path, shadow: &Path, check_i2: bool) {
	start_inner(root, shadow, check_i2, true)
}

pub fn start(root: &Path, shadow: &Path, check_i2: bool) {
	start_inner(root, shadow, check_i2, false)
}

fn start_inner(root: &Path, shadow: &Path, check_i2: bool, keep: bool) {
	if !keep {
		let _ = std::fs::remove_dir_all(shadow);
	}
	let _ = std::fs::create_dir_all(shadow);
	IN_HOOK.with(|h| h.set(true));
	*TRACKER.lock().unwrap_or_else(|e| e.into_inner()) =
		Some(Tracker { root: root.to_path_buf(), shadow: shadow.to_path_buf(), maps: BTreeMap::new(), violations: vec![], events: 0, msyncs: 0, fsyncs: 0, check_i2, snap: None, snaps: vec![], eligible: 0, in_flight: Default::default() });
	IN_HOOK.with(|h| h.set(false));
}

/// Threaded mode: see `SnapCfg`.
pub fn start_threaded(root: &Path, shadow: &Path, snap: SnapCfg, msync_delay_us: u64) {
	start(root, shadow, false);
	IN_HOOK.with(|h| h.set(true));
	if let Some(t) = TRACKER.lock().unwrap_or_else(|e| e.into_inner()).as_mut() {
		let _ = std::fs::create_dir_all(&snap.dir);
		t.snap = Some(snap);
	}
	IN_HOOK.with(|h| h.set(false));
	ISSUED.store(0, Ordering::SeqCst);
	MSYNC_DELAY_US.store(msync_delay_us, Ordering::SeqCst);
	THREADED.store(true, Ordering::SeqCst);
}

pub fn stop() -> Option<Tracker> {
	THREADED.store(false, Ordering::SeqCst);
	MSYNC_DELAY_US.store(0, Ordering::SeqCst);
	LOGSYNC_DELAY_US.store(0, Ordering::SeqCst);
	IN_HOOK.with(|h| h.set(true));
	let t = TRACKER.lock().unwrap_or_else(|e| e.into_inner()).take();
	IN_HOOK.with(|h| h.set(false));
	t
}

pub fn is_active() -> bool {
	TRACKER.try_lock().map(|g| g.is_some()).unwrap_or(false)
}

/// Runs `f` with the hooks disabled on this thread (harness-internal file work).
pub fn paused<R>(f: impl FnOnce() -> R) -> R {
	let prev = IN_HOOK.with(|h| h.replace(true));
	let r = f();
	IN_HOOK.with(|h| h.set(prev));
	r
}

fn fd_name(t: &Tracker, fd: i32) -> Option<String> {
	let p = std::fs::read_link(format!("/proc/self/fd/{fd}")).ok()?;
	if p.parent()? == t.root {
		Some(p.file_name()?.to_string_lossy().to_string())
	} else {
		None
	}
}

fn take_snapshot(t: &mut Tracker, what: &str) {
	take_snapshot_kind(t, what, false)
}

fn take_snapshot_kind(t: &mut Tracker, what: &str, volatile: bool) {
	let cfg = match &t.snap {
		Some(c) => c.clone(),
		None => return,
	};
	t.eligible += 1;
	if t.snaps.len() >= cfg.max || t.eligible % cfg.stride.max(1) != 0 {
		return
	}
	let seq = t.snaps.len();
	let dir = cfg.dir.join(format!("snap{seq}"));
	let seed = crate::spec::splitmix(cfg.seed ^ (seq as u64) << 20);
	// mode 0: none of the dirty pages; otherwise a generated subset
	let mode = if seed % 3 == 0 { 0 } else { 2 };
	let issued = ISSUED.load(Ordering::SeqCst);
	if volatile {
		if let Ok(r) = crate::props::c12::build_power_image_ex(&t.root, &t.shadow, &dir, seed, 2, false, true, &t.in_flight) {
			t.snaps.push(SnapMeta { seq, what: what.to_string(), issued, dir, kept_pages: r.kept, dropped_pages: r.dropped, volatile: true, unsynced_logs: r.unsynced_logs, anchors_kept: r.anchors_kept, log_cuts: r.log_cuts });
		}
		return
	}
	if let Ok((kept, dropped, _)) = crate::props::c12::build_power_image(&t.root, &t.shadow, &dir, seed, mode, true) {
		t.snaps.push(SnapMeta { seq, what: what.to_string(), issued, dir, kept_pages: kept, dropped_pages: dropped, volatile: false, unsynced_logs: 0, anchors_kept: 0, log_cuts: Vec::new() });
	}
}

fn sync_whole(t: &mut Tracker, name: &str) {
	let _ = copy_file_sparse(&t.root.join(name), &t.shadow.join(name));
}

fn ensure_shadow(t: &Tracker, name: &str) -> Option<std::fs::File> {
	let cur_len = std::fs::metadata(t.root.join(name)).ok()?.len();
	let p = t.shadow.join(name);
	let f = std::fs::OpenOptions::new().read(true).write(true).create(true).open(&p).ok()?;
	if f.metadata().ok()?.len() != cur_len {
		// sizes are durable at once
		let _ = f.set_len(cur_len);
	}
	Some(f)
}

/// Threaded mode, called before the real fdatasync / fsync: see `LOGSYNC_DELAY_US`.
pub fn before_log_sync(fd: i32) {
	if !THREADED.load(Ordering::SeqCst) {
		return
	}
	let mut log_name: Option<String> = None;
	guarded(|t| {
		if t.snap.is_some() {
			log_name = fd_name(t, fd).filter(|n| is_log(n));
		}
	});
	let name = match log_name {
		Some(n) => n,
		None => return,
	};
	let d = LOGSYNC_DELAY_US.load(Ordering::SeqCst);
	if d > 0 {
		std::thread::sleep(std::time::Duration::from_micros(d));
	}
	guarded(|t| take_snapshot_kind(t, &format!("power failure during the sync of {name}"), true));
}

pub fn on_fsync(fd: i32) {
	guarded(|t| {
		if let Some(name) = fd_name(t, fd) {
			t.events += 1;
			t.fsyncs += 1;
			sync_whole(t, &name);
			if is_log(&name) {
				take_snapshot(t, &format!("sync of {name}"));
			}
		}
	});
}

pub fn on_mmap(addr: usize, len: usize, fd: i32, offset: i64) {
	guarded(|t| {
		if fd < 0 {
			return
		}
		if let Some(name) = fd_name(t, fd) {
			t.maps.insert(addr, (len, name, offset as u64));
		}
	});
}

pub fn on_munmap(addr: usize) {
	guarded(|t| {
		t.maps.remove(&addr);
	});
}

pub fn on_msync(addr: usize, len: usize) {
	guarded(|t| {
		let hit = t.maps.range(..=addr).next_back().map(|(b, (l, n, o))| (*b, *l, n.clone(), *o));
		if let Some((base, mlen, name, moff)) = hit {
			if addr >= base + mlen {
				return
			}
			t.events += 1;
			t.msyncs += 1;
			let start = moff + (addr - base) as u64;
			let cur = match std::fs::File::open(t.root.join(&name)) {
				Ok(f) => f,
				Err(_) => return,
			};
			let cur_len = cur.metadata().map(|m| m.len()).unwrap_or(0);
			let end = (start + len as u64).min(cur_len);
			let shadow = match ensure_shadow(t, &name) {
				Some(s) => s,
				None => return,
			};
			let mut buf = vec![0u8; 1 << 16];
			let mut p = start;
			while p < end {
				let n = ((end - p) as usize).min(buf.len());
				match cur.read_at(&mut buf[..n], p) {
					Ok(0) | Err(_) => break,
					Ok(r) => {
						// keep holes as holes where both sides are zero
						if buf[..r].iter().any(|b| *b != 0) || shadow_has_data(&shadow, p, r) {
							let _ = shadow.write_all_at(&buf[..r], p);
						}
						p += r as u64;
					},
				}
			}
		}
	});
}

fn shadow_has_data(shadow: &std::fs::File, off: u64, len: usize) -> bool {
	let mut b = vec![0u8; len];
	match shadow.read_at(&mut b, off) {
		Ok(r) => b[..r].iter().any(|x| *x != 0),
		Err(_) => false,
	}
}

pub fn on_ftruncate(fd: i32, len: i64) {
	guarded(|t| {
		if let Some(name) = fd_name(t, fd) {
			t.events += 1;
			if is_log(&name) && len == 0 && t.check_i2 {
				check_i2(t, &format!("truncate of {name}"));
			}
			let p = t.shadow.join(&name);
			if let Ok(f) = std::fs::OpenOptions::new().write(true).create(true).open(&p) {
				let _ = f.set_len(len.max(0) as u64);
			}
			if is_log(&name) && len == 0 {
				take_snapshot(t, &format!("truncate of {name}"));
				t.in_flight.insert(name);
			}
		}
	});
}

/// After the real ftruncate returned.
pub fn after_ftruncate(fd: i32) {
	guarded(|t| {
		if let Some(name) = fd_name(t, fd) {
			t.in_flight.remove(&name);
		}
	});
}

/// After the real unlink returned.
pub fn after_unlink(path: &Path) {
	guarded(|t| {
		if path.parent() == Some(&t.root) {
			if let Some(name) = path.file_name().map(|n| n.to_string_lossy().to_string()) {
				t.in_flight.remove(&name);
			}
		}
	});
}

pub fn on_unlink(path: &Path) {
	guarded(|t| {
		if path.parent() == Some(&t.root) {
			if let Some(name) = path.file_name().map(|n| n.to_string_lossy().to_string()) {
				t.events += 1;
				if is_log(&name) && t.check_i2 {
					if std::fs::metadata(path).map(|m| m.len() > 0).unwrap_or(false) {
						check_i2(t, &format!("unlink of {name}"));
					}
				}
				let _ = std::fs::remove_file(t.shadow.join(&name));
				if is_log(&name) {
					take_snapshot(t, &format!("unlink of {name}"));
					t.in_flight.insert(name);
				}
			}
		}
	});
}

/// I2: when a log file is reclaimed, every table / index / ref-count file must equal its
/// durable copy (index files: beyond the 16 KiB statistics area).
fn check_i2(t: &mut Tracker, what: &str) {
	for (name, _) in file_sizes(&t.root) {
		let skip = if name.starts_with("index_") {
			16 * 1024
		} else if name.starts_with("table_") || name.starts_with("refcount_") {
			0
		} else {
			continue
		};
		if let Some(page) = first_dirty_page(&t.root.join(&name), &t.shadow.join(&name), skip) {
			t.violations.push(format!("{what}: {name} has unflushed changes (first dirty 4 KiB page at offset {page})"));
			return
		}
	}
}

/// Offsets of the 4 KiB pages in which `cur` differs from its durable copy `shadow` (absent
/// shadow = zero-filled).
pub fn dirty_pages(cur: &Path, shadow: &Path, skip: u64) -> Vec<u64> {
	let mut out = Vec::new();
	let c = match std::fs::read(cur) {
		Ok(c) => c,
		Err(_) => return out,
	};
	let s = std::fs::read(shadow).unwrap_or_default();
	let mut off = skip as usize;
	while off < c.len() {
		let end = (off + 4096).min(c.len());
		let cp = &c[off..end];
		let same = if off >= s.len() {
			cp.iter().all(|b| *b == 0)
		} else {
			let se = end.min(s.len());
			cp[..se - off] == s[off..se] && cp[se - off..].iter().all(|b| *b == 0)
		};
		if !same {
			out.push(off as u64);
		}
		off = end;
	}
	out
}

fn first_dirty_page(cur: &Path, shadow: &Path, skip: u64) -> Option<u64> {
	// cheap path for big sparse files: compare allocated data only
	let ch = crate::image::hash_file_sparse(cur).ok()?;
	let sh = crate::image::hash_file_sparse(shadow).unwrap_or(0x1234);
	if skip == 0 && ch == sh {
		return None
	}
	dirty_pages(cur, shadow, skip).first().cloned()
}
