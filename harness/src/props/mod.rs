//! Registry of property checks.

use crate::{interp::Failure, runner::Ctx};
use serde::Deserialize;
use std::path::Path;

pub mod c01;
pub mod c02;
pub mod c03;
pub mod c04;
pub mod c05;
pub mod c06;
pub mod c07;
pub mod c08;
pub mod c09;
pub mod c10;
pub mod c11;
pub mod c12;
pub mod c13;
pub mod c14;
pub mod c16;
pub mod c17;
pub mod c18;
pub mod c19;
pub mod c20;
pub mod refgrow;

pub struct PropDef {
	pub id: &'static str,
	pub level: &'static str,
	pub rule: &'static str,
	pub assumptions: &'static [&'static str],
	pub run: fn(&Ctx),
	pub replay: fn(&Ctx, &Path) -> Result<(), Failure>,
	pub shards: fn(&str) -> u64,
	pub watchdog_s: fn(&str) -> u64,
	/// which binaries run shards: 0 = this harness, 1 = the shuttle binary (pdbs), 2 = both,
	/// 3 = the harness binary with syscall interposers (pdbv_io)
	pub engine: u8,
}

pub fn default_shards(_tier: &str) -> u64 {
	14
}

pub fn default_watchdog(tier: &str) -> u64 {
	if tier == "thorough" {
		3 * 3600
	} else {
		900
	}
}

/// Properties decided (partly) by the shuttle flavour; their shard work is done by `pdbs`.
pub fn shuttle_def(id: &'static str, rule: &'static str, assumptions: &'static [&'static str]) -> PropDef {
	fn nop(_: &Ctx) {}
	fn norep(_: &Ctx, _: &Path) -> Result<(), Failure> {
		Err(Failure::new("bad-replay", "replay files of this property are handled by the shuttle binary"))
	}
	PropDef { id, level: "exploration", rule, assumptions, run: nop, replay: norep, shards: default_shards, watchdog_s: default_watchdog, engine: 1 }
}

pub fn all() -> Vec<PropDef> {
	vec![c01::def(), c02::def(), c03::def(), c04::def(), c06::def(), c07::def(), c08::def(), c09::def(), c10::def(), c11::def(), c12::def(), c13::def(), c14::def(), c16::def(), c17::def(), c18::def(), c19::def(), c20::def(), c05_def(), c15_def()]
}

#[derive(Clone, Debug, Deserialize)]
pub struct KnownFinding {
	pub property: String,
	pub signature: String,
	pub status: String,
	#[serde(default)]
	pub what: String,
	#[serde(default)]
	pub commit: String,
}

pub fn load_known(root: &Path) -> Vec<KnownFinding> {
	let p = root.join("known_findings.json");
	match std::fs::read(&p) {
		Ok(b) => serde_json::from_slice(&b).unwrap_or_default(),
		Err(_) => vec![],
	}
}

/// cases per shard for a tier
pub fn scaled(ctx: &Ctx, quick_total: u64, thorough_total: u64) -> u32 {
	let mut total = if ctx.tier == "thorough" { thorough_total } else { quick_total };
	// smoke test of the thorough tier (all its sub-runs, small): PDBV_THOROUGH_DIV=<n>
	if ctx.tier == "thorough" {
		if let Some(d) = std::env::var("PDBV_THOROUGH_DIV").ok().and_then(|s| s.parse::<u64>().ok()) {
			total = (total / d.max(1)).max(ctx.shards);
		}
	}
	((total + ctx.shards - 1) / ctx.shards).max(1) as u32
}

pub fn c05_def() -> PropDef {
	c05::def(shuttle_def(
		"C05",
		"generated workloads (1-2 committing threads with disjoint key sets, each a script of transactions writing 2-4 keys with version-tagged values whose length class changes size tiers incl. multipart; 1-3 reader threads with scripts of point reads; hash or btree column; optionally identity-hashed keys crowded into one index page so that the index grows while readers run) x pipeline driven by the four REAL worker loops (verif_run_worker, throttles active) or by one stage thread with a generated step order x seeded shuttle schedules (random + PCT depth 3) at lock/condvar granularity. Oracle per read of key k of writer w: lo = completed[w] sampled before, hi = started[w] sampled after (harness atomics); the returned version t must satisfy last_write(k,<=lo) <= t <= last_write(k,<=hi), the bytes must be exactly what transaction t wrote (no torn value), and per reader every later read of a key written by a transaction <= the highest one observed must return that write or a later one (atomic, monotonic). After the threads finish: clean close, reopen, every key holds its last write. Non-trivial = an execution in which >=1 read was served while the pipeline was non-idle (commits queued, bytes logged-not-applied or log files awaiting enactment); evaluations = schedule executions; distinct = each execution has its own (workload, schedule) pair - counted as executions in which the non-trivial condition was observed. Sub-run os-threads (harness binary, half of the shards): the same workload shape (8-60 transactions per writer, readers reading generator-chosen keys until the writers are done, optional compression, btree, index growth by filler keys) and the same oracle with std threads, the library's own background workers and always_flush, so that memory-mapped table bytes are read while another thread rewrites them; there the schedule is the operating system's and non-trivial = >=1 read served while the pipeline was busy",
		&[
			"schedules are controlled at the granularity of the crate's lock / condvar operations (feature loom mapped onto shuttle); data races on memory-mapped bytes without a lock in between are outside what this engine can schedule",
			"the library is built with feature loom (Vec buffers instead of arrays, value_ref copies)",
			"ordering knowledge comes only from harness atomics; writers have disjoint key sets so per-key order is known",
		],
	))
}

pub fn c15_def() -> PropDef {
	shuttle_def(
		"C15",
		"generated client scripts (1-3 clients; transactions from empty to 1 MiB values, bursts whose queued bytes exceed the 16 MiB commit-queue limit; transactions beyond the 128 MiB log-queue limit; sync_data=false with 30-70 transactions per client so that more than the 16 kept log files are applied; always_flush on/off; optional index growth) against the four REAL worker loops with the queue-full throttles active, x generated moment of shutdown, x seeded shuttle schedules (random + PCT). Oracle: no execution ends in a deadlock (all threads blocked - reported by shuttle); every commit call returns; after the clients finish the main thread only polls the pipeline counters (yield) and the queue must become empty - and with always_flush the logged-but-unapplied byte count must reach 0 - within a bounded number of observer steps without any further call (1M under the uniformly random scheduler, 3M under PCT where exhausting shuttle's own step limit first is counted as an unfair schedule and skipped); shutdown + joining the four workers + drop terminate; reopen shows every committed transaction. Non-trivial = an execution in which some commit was throttled or some worker had to be woken (queue or log-queue non-empty when sampled); evaluations = schedule executions",
		&[
			"bounded liveness: 'eventually' is replaced by 'within L scheduler steps while only the observer spins'; sound as a violation criterion, cannot prove termination for unexplored schedules",
			"production configuration is always_flush=false; always_flush=true executions are labelled separately",
		],
	)
}
