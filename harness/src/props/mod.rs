//! Registry of property checks.

use crate::{interp::Failure, runner::Ctx};
use serde::Deserialize;
use std::path::Path;

pub mod c01;
pub mod c02;
pub mod c03;
pub mod c04;
pub mod c06;
pub mod c07;
pub mod c08;
pub mod c09;
pub mod c10;
pub mod c13;
pub mod c14;
pub mod c16;
pub mod c17;
pub mod c18;
pub mod c19;
pub mod c20;

pub struct PropDef {
	pub id: &'static str,
	pub level: &'static str,
	pub rule: &'static str,
	pub assumptions: &'static [&'static str],
	pub run: fn(&Ctx),
	pub replay: fn(&Ctx, &Path) -> Result<(), Failure>,
	pub shards: fn(&str) -> u64,
	pub watchdog_s: fn(&str) -> u64,
}

pub fn default_shards(_tier: &str) -> u64 {
	14
}

pub fn default_watchdog(tier: &str) -> u64 {
	if tier == "thorough" {
		3 * 3600
	} else {
		900
	}
}

pub fn all() -> Vec<PropDef> {
	vec![c01::def(), c02::def(), c03::def(), c04::def(), c06::def(), c07::def(), c08::def(), c09::def(), c10::def(), c13::def(), c14::def(), c16::def(), c17::def(), c18::def(), c19::def(), c20::def()]
}

#[derive(Clone, Debug, Deserialize)]
pub struct KnownFinding {
	pub property: String,
	pub signature: String,
	pub status: String,
	#[serde(default)]
	pub what: String,
	#[serde(default)]
	pub commit: String,
}

pub fn load_known(root: &Path) -> Vec<KnownFinding> {
	let p = root.join("known_findings.json");
	match std::fs::read(&p) {
		Ok(b) => serde_json::from_slice(&b).unwrap_or_default(),
		Err(_) => vec![],
	}
}

/// cases per shard for a tier
pub fn scaled(ctx: &Ctx, quick_total: u64, thorough_total: u64) -> u32 {
	let total = if ctx.tier == "thorough" { thorough_total } else { quick_total };
	((total + ctx.shards - 1) / ctx.shards).max(1) as u32
}
