//! C13 Damaged or stale write-ahead logs are rejected, never half-applied.

use super::{c02::*, *};
use crate::{image::*, interp::*, runner::*, spec::*};
use proptest::prelude::*;
use serde::{Deserialize, Serialize};
use std::path::Path;

pub fn def() -> PropDef {
	PropDef {
		id: "C13",
		level: "exploration",
		rule: "base images: generated histories (block regimes of C02, so 1-4 log files are pending) captured at a generated op boundary; damage program of 1-4 steps over the pending log files: truncate at any length, flip 1-8 bits at any offset, overwrite a range with random bytes, append garbage, cut below the 9-byte header, zero-length, delete, duplicate a file under a new id, swap two files. Oracle: Db::open does not panic and returns Ok; the observed state equals the model after some prefix p with enacted-at-image <= p <= committed; a second clean reopen observes the same state; the database then accepts commits. Excluded by construction and counted (known findings, regression cases printed as KNOWN-FINDING): damage to log files whose records were already applied to the tables (enacted, not yet reclaimed); programs that remove / empty / cut below the header a pending log file that is NOT the last one; re-insertion of a log file of an earlier generation. Checksum-forging inputs are not generated. Non-trivial = the damage touches a byte inside the written part of a pending log or changes the file set; distinct = distinct case fingerprints",
		assumptions: &["checksum-valid adversarial records are out of scope (the property speaks of damage, not forgery)"],
		run,
		replay,
		shards: default_shards,
		watchdog_s: default_watchdog,
		engine: 0,
	}
}

#[derive(Clone, Debug, Serialize, Deserialize, PartialEq, Eq, Hash)]
pub enum Damage {
	/// (file selector, length selector per 65536 of the file length)
	Truncate(u16, u16),
	/// (file, offset selector, xor mask)
	Flip(u16, u16, u8),
	/// (file, offset selector, length 1..64, seed)
	Overwrite(u16, u16, u8, u16),
	/// (file, offset selector, value 0..=8): a small byte value, i.e. possibly a forged action
	/// tag of the record format (1 begin, 2 index, 3 value, 4 end, 5 drop, 6 ref count, 7 drop
	/// ref count)
	SetByte(u16, u16, u8),
	/// (file, candidate selector, byte within the 11-byte action head, value): overwrite one
	/// byte of something that looks like an action head (tag 2/3/6, table id of an existing
	/// column, 8-byte index) — a structure-aware mutation that reaches the per-action validation
	/// (wrong action kind for the column, table of another column, out-of-range index)
	Forge(u16, u16, u8, u8),
	/// (file, candidate selector, size): the two-byte size field that follows the head of an
	/// InsertValue action is replaced (entry sizes at and beyond the largest entry, the
	/// tombstone / multipart markers, the compressed flag)
	ForgeSize(u16, u16, u16),
	/// the record id in the header of the LAST pending log file becomes `id` (0, 1, huge):
	/// a file that claims to start the sequence over, or lies far ahead
	SetLastRecordId(u64),
	/// (file, length, seed)
	Append(u16, u16, u16),
	/// cut the LAST k pending files below the header (0..8 bytes)
	CutLastBelowHeader(u8, u8),
	/// make the last k pending files zero-length
	ZeroLast(u8),
	/// delete the last k pending files
	DeleteLast(u8),
	/// duplicate file under a fresh id
	Duplicate(u16),
	/// swap the names of two files
	Swap(u16, u16),
	/// KNOWN FINDING shapes (only used by the regression cases): delete the first pending file
	DeleteFirst,
	/// KNOWN FINDING: cut the first pending file below the header
	CutFirstBelowHeader(u8),
	/// KNOWN FINDING: delete the i-th log file (by record order) although its records were
	/// already applied to the tables
	DeleteEnacted(u8),
}

#[derive(Clone, Debug, Serialize, Deserialize)]
pub struct WalCase {
	pub sc: Scenario,
	pub at: u16,
	pub damage: Vec<Damage>,
}

fn damage() -> impl Strategy<Value = Damage> {
	prop_oneof![
		5 => (any::<u16>(), any::<u16>()).prop_map(|(f, l)| Damage::Truncate(f, l)),
		6 => (any::<u16>(), any::<u16>(), 1u8..=255).prop_map(|(f, o, m)| Damage::Flip(f, o, m)),
		3 => (any::<u16>(), any::<u16>(), 1u8..64, any::<u16>()).prop_map(|(f, o, l, s)| Damage::Overwrite(f, o, l, s)),
		3 => (any::<u16>(), any::<u16>(), 0u8..9).prop_map(|(f, o, v)| Damage::SetByte(f, o, v)),
		6 => (any::<u16>(), any::<u16>(), prop_oneof![3 => Just(0u8), 2 => 1u8..3, 1 => 3u8..11], prop_oneof![3 => 0u8..9, 1 => any::<u8>()])
			.prop_map(|(f, o, w, v)| Damage::Forge(f, o, w, v)),
		3 => (any::<u16>(), any::<u16>(), prop_oneof![3 => 0x7ff0u16..=0x7fff, 1 => 0xfff0u16..=0xffff, 1 => Just(0x8000u16), 1 => Just(0u16), 2 => any::<u16>()])
			.prop_map(|(f, o, v)| Damage::ForgeSize(f, o, v)),
		2 => prop_oneof![3 => Just(0u64), 1 => Just(1u64), 1 => Just(u64::MAX), 1 => any::<u64>()].prop_map(Damage::SetLastRecordId),
		3 => (any::<u16>(), 1u16..3000, any::<u16>()).prop_map(|(f, l, s)| Damage::Append(f, l, s)),
		1 => (1u8..3, 0u8..9).prop_map(|(k, l)| Damage::CutLastBelowHeader(k, l)),
		1 => (1u8..3).prop_map(Damage::ZeroLast),
		2 => (1u8..4).prop_map(Damage::DeleteLast),
		2 => any::<u16>().prop_map(Damage::Duplicate),
		1 => (any::<u16>(), any::<u16>()).prop_map(|(a, b)| Damage::Swap(a, b)),
	]
}

/// Histories that keep several un-applied log files around (few enact / clean steps).
fn wal_scenario() -> impl Strategy<Value = Scenario> {
	crate::gen::mixed_cfg(3, true).prop_flat_map(|cfg| {
		let commit = crate::gen::mixed_items(&cfg, 12, 40_000, 6, 3).prop_map(Op::Commit);
		let block = prop_oneof![
			8 => commit.clone().prop_map(|c| vec![c, Op::P, Op::F]),
			3 => commit.clone().prop_map(|c| vec![c, Op::P]),
			2 => commit.prop_map(|c| vec![c]),
			1 => Just(vec![Op::E]),
			1 => Just(vec![Op::E, Op::C]),
			1 => Just(vec![Op::F]),
			1 => Just(vec![Op::P]),
		];
		proptest::collection::vec(block, 3..=10).prop_map(move |b| Scenario { cfg: cfg.clone(), ops: b.into_iter().flatten().collect() })
	})
}

pub fn wal_case() -> impl Strategy<Value = WalCase> {
	(
		prop_oneof![3 => wal_scenario().boxed(), 1 => crash_scenario(3, 5, 16, true, 40_000).boxed()],
		prop_oneof![1 => any::<u16>(), 2 => Just(u16::MAX)],
		proptest::collection::vec(damage(), 1..=4),
	)
		.prop_map(|(sc, at, damage)| WalCase { sc, at, damage })
}

fn first_record_id(p: &Path) -> Option<u64> {
	let b = std::fs::read(p).ok()?;
	if b.len() < 9 {
		return None
	}
	Some(u64::from_le_bytes(b[1..9].try_into().ok()?))
}

/// Log files holding only records that have NOT been applied to the tables yet (first record
/// id > last enacted), ordered by the id of their first record. Files with already enacted
/// records are never damaged by the generator (known finding, see `known_regression`).
fn pending_logs_after(dir: &Path, last_enacted: u64) -> Vec<String> {
	let mut v: Vec<(u64, String)> = file_sizes(dir)
		.into_iter()
		.filter(|(n, s)| is_log(n) && *s >= 9)
		.filter_map(|(n, _)| first_record_id(&dir.join(&n)).map(|r| (r, n)))
		.filter(|(r, _)| *r > last_enacted)
		.collect();
	v.sort();
	v.into_iter().map(|(_, n)| n).collect()
}

fn enacted_logs(dir: &Path, last_enacted: u64) -> usize {
	file_sizes(dir).into_iter().filter(|(n, s)| is_log(n) && *s >= 9).filter_map(|(n, _)| first_record_id(&dir.join(&n))).filter(|r| *r <= last_enacted).count()
}

pub fn apply_damage(dir: &Path, d: &Damage, last_enacted: u64, touched: &mut bool) -> std::io::Result<()> {
	use std::os::unix::fs::FileExt;
	// the known-finding regression shapes address every log file
	let logs = if matches!(d, Damage::DeleteFirst | Damage::CutFirstBelowHeader(_) | Damage::DeleteEnacted(_)) { pending_logs_after(dir, 0) } else { pending_logs_after(dir, last_enacted) };
	if logs.is_empty() {
		return Ok(())
	}
	let sel = |s: u16| dir.join(&logs[pick(s, logs.len())]);
	let last_k = |k: u8| -> Vec<std::path::PathBuf> { logs.iter().rev().take(k as usize).map(|n| dir.join(n)).collect() };
	match d {
		Damage::Truncate(f, l) => {
			let p = sel(*f);
			let len = std::fs::metadata(&p)?.len();
			let is_last = p == dir.join(logs.last().unwrap());
			let mut new_len = (len as u128 * *l as u128 >> 16) as u64;
			if !is_last {
				new_len = new_len.max(9); // below-header cuts of non-last files are the known finding
			}
			std::fs::OpenOptions::new().write(true).open(&p)?.set_len(new_len)?;
			*touched = true;
		},
		Damage::Flip(f, o, m) => {
			let p = sel(*f);
			let len = std::fs::metadata(&p)?.len();
			let mut off = (len as u128 * *o as u128 >> 16) as u64;
			if p != dir.join(logs.last().unwrap()) {
				// the record id in the header of a non-last pending file is the replay anchor:
				// damaging it is the known finding (file effectively missing)
				if len <= 9 {
					return Ok(())
				}
				off = off.max(9).min(len - 1);
			}
			let file = std::fs::OpenOptions::new().read(true).write(true).open(&p)?;
			let mut b = [0u8; 1];
			file.read_at(&mut b, off)?;
			b[0] ^= *m;
			file.write_at(&b, off)?;
			// flipping inside the 9-byte header of a non-last file may turn it into "record id 0"
			// etc.; still damage of the class the property names
			*touched = true;
		},
		Damage::SetByte(f, o, v) => {
			let p = sel(*f);
			let len = std::fs::metadata(&p)?.len();
			let mut off = (len as u128 * *o as u128 >> 16) as u64;
			if p != dir.join(logs.last().unwrap()) {
				if len <= 9 {
					return Ok(())
				}
				off = off.max(9).min(len - 1);
			}
			if off < len {
				std::fs::OpenOptions::new().write(true).open(&p)?.write_at(&[*v], off)?;
				*touched = true;
			}
		},
		Damage::Forge(f, o, w, v) => {
			let p = sel(*f);
			let data = std::fs::read(&p)?;
			let cands: Vec<usize> = (9..data.len().saturating_sub(11))
				.filter(|&i| matches!(data[i], 2 | 3 | 6) && data[i + 2] < 8 && data[i + 1] < 64 && data[i + 8..i + 11] == [0, 0, 0])
				.collect();
			if cands.is_empty() {
				return Ok(())
			}
			let at = cands[pick(*o, cands.len())] + *w as usize;
			if data[at] != *v {
				std::fs::OpenOptions::new().write(true).open(&p)?.write_at(&[*v], at as u64)?;
				*touched = true;
			}
		},
		Damage::SetLastRecordId(id) => {
			let p = dir.join(logs.last().unwrap());
			// With several pending files an id that sorts the last file before another one makes
			// it the replay anchor: the known finding (replay start not anchored). Only ids that
			// keep the file last are in scope then.
			let others_max = pending_logs_after(dir, 0).iter().filter(|n| dir.join(n) != p).filter_map(|n| first_record_id(&dir.join(n))).max();
			if let Some(m) = others_max {
				if *id <= m {
					return Ok(())
				}
			}
			if std::fs::metadata(&p)?.len() >= 9 {
				std::fs::OpenOptions::new().write(true).open(&p)?.write_at(&id.to_le_bytes(), 1)?;
				*touched = true;
			}
		},
		Damage::ForgeSize(f, o, v) => {
			let p = sel(*f);
			let data = std::fs::read(&p)?;
			let cands: Vec<usize> = (9..data.len().saturating_sub(13)).filter(|&i| data[i] == 3 && data[i + 2] < 8 && data[i + 8..i + 11] == [0, 0, 0]).collect();
			if cands.is_empty() {
				return Ok(())
			}
			let at = cands[pick(*o, cands.len())] + 11;
			if data[at..at + 2] != v.to_le_bytes() {
				std::fs::OpenOptions::new().write(true).open(&p)?.write_at(&v.to_le_bytes(), at as u64)?;
				*touched = true;
			}
		},
		Damage::Overwrite(f, o, l, s) => {
			let p = sel(*f);
			let len = std::fs::metadata(&p)?.len();
			let mut off = (len as u128 * *o as u128 >> 16) as u64;
			if p != dir.join(logs.last().unwrap()) {
				if len <= 9 {
					return Ok(())
				}
				off = off.max(9).min(len - 1);
			}
			let n = (*l as u64).min(len - off) as usize;
			let mut buf = vec![0u8; n];
			fill_random(&mut buf, *s as u64);
			std::fs::OpenOptions::new().write(true).open(&p)?.write_at(&buf, off)?;
			*touched = true;
		},
		Damage::Append(f, l, s) => {
			let p = sel(*f);
			let len = std::fs::metadata(&p)?.len();
			let mut buf = vec![0u8; *l as usize];
			fill_random(&mut buf, *s as u64 ^ 0x77);
			std::fs::OpenOptions::new().write(true).open(&p)?.write_at(&buf, len)?;
			*touched = true;
		},
		Damage::CutLastBelowHeader(k, l) =>
			for p in last_k(*k) {
				std::fs::OpenOptions::new().write(true).open(&p)?.set_len(*l as u64)?;
				*touched = true;
			},
		Damage::ZeroLast(k) =>
			for p in last_k(*k) {
				std::fs::OpenOptions::new().write(true).open(&p)?.set_len(0)?;
				*touched = true;
			},
		Damage::DeleteLast(k) =>
			for p in last_k(*k) {
				std::fs::remove_file(&p)?;
				*touched = true;
			},
		Damage::Duplicate(f) => {
			let p = sel(*f);
			let max_id = file_sizes(dir).keys().filter(|n| is_log(n)).filter_map(|n| n[3..].parse::<u32>().ok()).max().unwrap_or(0);
			std::fs::copy(&p, dir.join(format!("log{}", max_id + 1)))?;
			*touched = true;
		},
		Damage::Swap(a, b) => {
			let (pa, pb) = (sel(*a), sel(*b));
			if pa != pb {
				let tmp = dir.join("swap.tmp");
				std::fs::rename(&pa, &tmp)?;
				std::fs::rename(&pb, &pa)?;
				std::fs::rename(&tmp, &pb)?;
				*touched = true;
			}
		},
		Damage::DeleteFirst => {
			std::fs::remove_file(dir.join(&logs[0]))?;
			*touched = true;
		},
		Damage::DeleteEnacted(i) => {
			if let Some(n) = logs.get(*i as usize) {
				std::fs::remove_file(dir.join(n))?;
				*touched = true;
			}
		},
		Damage::CutFirstBelowHeader(l) => {
			std::fs::OpenOptions::new().write(true).open(dir.join(&logs[0]))?.set_len(*l as u64)?;
			*touched = true;
		},
	}
	Ok(())
}

/// Replaces everything after the 9-byte header of the last un-applied log file.
pub fn replace_last_log_body(dir: &Path, last_enacted: u64, body: &[u8]) -> std::io::Result<()> {
	let logs = pending_logs_after(dir, last_enacted);
	if let Some(last) = logs.last() {
		let p = dir.join(last);
		let mut b = std::fs::read(&p)?;
		b.truncate(9);
		b.extend_from_slice(body);
		std::fs::write(&p, b)?;
	}
	Ok(())
}

pub fn run_case(case: &WalCase, dir: &Path) -> CaseResult {
	let mut out = CaseOut::default();
	let sc = &case.sc;
	let at = pick(case.at, sc.ops.len() + 1);
	let sp = StopPoint { op: at, n: usize::MAX / 4, cut: None, recover_n: vec![] };
	// the image is taken at an op boundary (the fault budget is never reached)
	let sp = if at < sc.ops.len() { sp } else { StopPoint { op: sc.ops.len(), n: 0, cut: None, recover_n: vec![] } };
	let img = dir.join("img");
	let info = make_image(sc, &sp, &dir.join("work"), &img)?;
	let _ = std::fs::remove_dir_all(dir.join("work"));
	let n_pending = pending_logs_after(&img, info.last_enacted_record).len();
	let n_enacted_files = enacted_logs(&img, info.last_enacted_record);
	if n_enacted_files > 0 {
		out.count("excluded_known:enacted-log-files-not-damaged", n_enacted_files as u64);
	}
	out.label(match n_pending {
		0 => "pending-logs:0",
		1 => "pending-logs:1",
		2 => "pending-logs:2",
		_ => "pending-logs:3+",
	});
	let mut touched = false;
	for d in &case.damage {
		apply_damage(&img, d, info.last_enacted_record, &mut touched).map_err(|e| Failure::new("harness-io", e.to_string()))?;
	}
	// lower bound: what the tables already held
	let enacted = info.cleaned_or_enacted;
	let rec = recover_and_check(sc, &info, &sp, &img, dir, enacted)?;
	let p = rec.prefix_index;
	let mut it = rec.interp;
	let first = observe(&it)?;
	it.step(&Op::Reopen)?;
	let second = observe(&it)?;
	if first != second {
		fail!("state-changed-on-second-reopen", "the state observed after the first open differs from the state after a clean reopen (prefix {p})")
	}
	// keeps working
	if rec.candidates.len() == 1 {
		let ops: Vec<Op> = sc.ops.iter().filter(|o| matches!(o, Op::Commit(_))).take(2).cloned().collect();
		for op in ops {
			it.step(&op)?;
		}
		it.step(&Op::Drain)?;
		it.check_reads(true)?;
	}
	out.count(&format!("recovered_minus_enacted:{}", (p as i64 - enacted as i64).min(4)), 1);
	out.nontrivial = touched && n_pending > 0;
	Ok(out)
}

/// Known finding: recovery is anchored at the first log file it finds.
fn known_regression(ctx: &Ctx) {
	if ctx.shard != 0 {
		return
	}
	let v = |seed: u16| VSpec { len: 20, fill: 1, seed };
	let tx = |k: u16| Op::Commit(vec![Item { col: 0, ch: Change::Set(k, v(k)) }]);
	let sc = Scenario { cfg: DbCfg::new(vec![ColCfg::hash()]), ops: vec![tx(1), Op::P, tx(2), Op::P, Op::F, tx(3), Op::P, tx(4), Op::P, Op::F] };
	// second shape: both log files already applied, the later one removed
	{
		let sc2 = Scenario { cfg: DbCfg::new(vec![ColCfg::hash()]), ops: vec![tx(1), Op::P, Op::F, Op::Commit(vec![Item { col: 0, ch: Change::Del(1) }]), Op::P, Op::F, Op::E, Op::E] };
		let case = WalCase { sc: sc2, at: u16::MAX, damage: vec![Damage::DeleteEnacted(1)] };
		let dir = ctx.case_dir();
		let r = guarded(|| run_case(&case, &dir));
		let _ = std::fs::remove_dir_all(&dir);
		let mut rep = ctx.report.borrow_mut();
		match r {
			Err(f) if f.sig == "recovered-state-too-old" || f.sig == "recovered-state-not-a-prefix" => {
				let line = "damage to a log record that was already applied to the tables but whose file is not reclaimed yet: replay re-applies the older records of the remaining files only, moving the state back (set k; remove k; both applied; second log file deleted -> k is back) [enacted-record-damage-rolls-back]".to_string();
				if !rep.known_findings.contains(&line) {
					rep.known_findings.push(line);
				}
			},
			Err(f) => rep.notes.push(format!("known-finding regression (enacted) failed differently: {} {}", f.sig, f.detail)),
			Ok(_) => rep.notes.push("known finding enacted-record-damage-rolls-back did not reproduce (fixed?)".to_string()),
		}
	}
	for (name, dmg) in [("delete", Damage::DeleteFirst), ("cut-below-header", Damage::CutFirstBelowHeader(5))] {
		let case = WalCase { sc: sc.clone(), at: u16::MAX, damage: vec![dmg] };
		let dir = ctx.case_dir();
		let r = guarded(|| run_case(&case, &dir));
		let _ = std::fs::remove_dir_all(&dir);
		let mut rep = ctx.report.borrow_mut();
		match r {
			Err(f) if f.sig == "recovered-state-not-a-prefix" => {
				let line = "recovery is anchored at the first log file found: with two pending log files (records 1-2 and 3-4), deleting the first one or cutting it below its 9-byte header makes records 3-4 replay alone -> state {tx3,tx4} is not a prefix (the same missing anchor lets a log file of an earlier generation replay) [replay-start-not-anchored]".to_string();
				if !rep.known_findings.contains(&line) {
					rep.known_findings.push(line);
				}
			},
			Err(f) => rep.notes.push(format!("known-finding regression ({name}) failed differently: {} {}", f.sig, f.detail)),
			Ok(_) => rep.notes.push(format!("known finding replay-start-not-anchored ({name}) did not reproduce (fixed?)")),
		}
	}
}

/// Runs a case on a helper thread; `None` if it did not return within the limit. The limit is
/// three orders of magnitude above the time a case takes (milliseconds), so that only a call
/// that never returns can hit it.
fn run_case_with_limit(case: &WalCase, dir: &Path, secs: u64) -> Option<CaseResult> {
	let (tx, rx) = std::sync::mpsc::channel();
	let c = case.clone();
	let d = dir.to_path_buf();
	std::thread::Builder::new()
		.stack_size(16 << 20)
		.spawn(move || {
			crate::runner::install_panic_hook();
			let _ = tx.send(guarded(|| run_case(&c, &d)));
		})
		.ok()?;
	rx.recv_timeout(std::time::Duration::from_secs(secs)).ok()
}

fn run(ctx: &Ctx) {
	known_regression(ctx);
	let n = scaled(ctx, 12_000, 300_000);
	ctx.run_prop_shrink("damage", n, 500, wal_case(), |case, dir| match run_case_with_limit(case, dir, 120) {
		Some(r) => r,
		None => ctx.abort_with_failure(
			"damage",
			case,
			&Failure::new("hang-at-open", "opening the damaged database (or the first operations on it) did not return within 120 s; a case normally takes milliseconds"),
		),
	});
}

fn replay(ctx: &Ctx, path: &Path) -> Result<(), Failure> {
	let (_sub, c): (String, WalCase) = load_replay(path).map_err(|e| Failure::new("bad-replay", e))?;
	let dir = ctx.case_dir();
	guarded(|| run_case(&c, &dir)).map(|_| ())
}
