//! C11 A locked tree reader is never invalidated, and deferral keeps commit order.
//! (deterministic, stepping-mode part; the concurrent part lives in the shuttle flavour)

use super::*;
use crate::{gen::*, interp::*, layout, model::*, runner::*, spec::*};
use proptest::prelude::*;
use serde::{Deserialize, Serialize};
use std::path::Path;

pub fn def() -> PropDef {
	PropDef {
		id: "C11",
		level: "exploration",
		rule: "generated histories on a multitree column (default or ref-counted roots) plus a hash column written by the same transactions: setup trees (with shared nodes), then the read lock of the tree reader of a live root is taken and KEPT while: the tree is dereferenced (alone or together with writes to the hash column), trees that reuse its nodes (Existing children) and other trees are inserted, other keys are written, and a generated number of process_commits / flush / enact / clean steps run (so the dereferencing commit is really deferred and re-queued); then the lock is released, the pipeline drained, the database reopened. Oracle: while the lock is held every traversal through the reader equals the tree as it was when locked, and all other live trees and keys equal the model; after release + drain the root is gone, nodes still referenced by trees inserted meanwhile stay, the raw layout reader (forest, reference counts, slot accounting) and the entry count agree with the model, and the final state of ALL columns equals the model of applying the transactions in commit-return order. Excluded by construction and counted (known finding, printed by a fixed regression history): a later transaction writing a key that the postponed transaction also writes. Non-trivial = the dereferencing commit was actually deferred (>=1 process_commits step while the lock was held); distinct = distinct case fingerprints. The concurrent schedules (reader threads, writer, pruner, workers) are explored by the shuttle engine (bin/check C11 runs both).",
		assumptions: &["the client holds the tree's read lock while committing insertions that reuse its nodes (as admin/multitree_bench does)"],
		run,
		replay,
		shards: default_shards,
		watchdog_s: default_watchdog,
		engine: 2,
	}
}

pub fn scenario() -> impl Strategy<Value = Scenario> {
	(any::<bool>(), 2usize..6, 2usize..14).prop_flat_map(|(rc, n_setup, n_locked)| {
		let mut tree_col = ColCfg::multi();
		if rc {
			tree_col.rc = true;
			tree_col.preimage = true;
		}
		// a hash column and a btree column are written by the same transactions
		let cfg = DbCfg::new(vec![tree_col, ColCfg::hash(), ColCfg::btree()]);
		let ins = |k: std::ops::Range<u16>| (k, tree_spec(3, false)).prop_map(|(k, t)| Item { col: 0, ch: Change::InsertTree(k, t) });
		let set = (1u8..3, 0u16..8, small_vspec()).prop_map(|(col, k, v)| Item { col, ch: Change::Set(k, v) }).boxed();
		let setup_op = prop_oneof![
			6 => ins(0..20).prop_map(|i| Op::Commit(vec![i])),
			2 => (ins(0..20), set.clone()).prop_map(|(a, b)| Op::Commit(vec![a, b])),
			4 => stage_op(),
		];
		// under the lock: the dereference of the locked tree is expressed as DerefTree(0xffff)
		// = "the locked root" (resolved by the driver)
		let locked_op = prop_oneof![
			3 => Just(Op::Commit(vec![Item { col: 0, ch: Change::DerefTreeKey(u16::MAX) }])),
			3 => set.clone().prop_map(|s| Op::Commit(vec![Item { col: 0, ch: Change::DerefTreeKey(u16::MAX) }, s])),
			4 => ins(20..40).prop_map(|i| Op::Commit(vec![i])),
			3 => set.clone().prop_map(|s| Op::Commit(vec![s])),
			2 => (ins(20..40), set).prop_map(|(a, b)| Op::Commit(vec![a, b])),
			1 => any::<u16>().prop_map(|s| Op::Commit(vec![Item { col: 0, ch: Change::DerefTree(s) }])),
			8 => Just(Op::P),
			2 => Just(Op::F),
			2 => Just(Op::E),
			1 => Just(Op::C),
		];
		(proptest::collection::vec(setup_op, n_setup..=n_setup + 4), any::<u16>(), proptest::collection::vec(locked_op, n_locked..=n_locked + 6), any::<bool>()).prop_map(move |(setup, sel, locked, drain_first)| {
			let mut ops = setup;
			if drain_first {
				ops.push(Op::Drain);
			}
			ops.push(Op::LockTree(0, sel));
			ops.extend(locked);
			ops.push(Op::UnlockTree);
			ops.push(Op::Drain);
			Scenario { cfg: cfg.clone(), ops }
		})
	})
}

fn resolve_locked(it: &Interp, op: &Op) -> Op {
	// DerefTreeKey(u16::MAX) stands for "dereference the locked root"
	if let Op::Commit(items) = op {
		let items = items
			.iter()
			.filter_map(|i| match (&i.ch, &it.locked) {
				(Change::DerefTreeKey(u16::MAX), Some(l)) if l.deferred.is_empty() => Some(Item { col: i.col, ch: Change::DerefTreeKey(l.root) }),
				(Change::DerefTreeKey(u16::MAX), _) => None,
				_ => Some(i.clone()),
			})
			.collect::<Vec<_>>();
		return Op::Commit(items)
	}
	op.clone()
}

pub fn run_scenario(sc: &Scenario, dir: &Path, strict: bool) -> CaseResult {
	let mut out = CaseOut::default();
	let mut it = Interp::new(&sc.cfg, dir, Interp::universe_of(sc));
	it.strict_known = strict;
	it.open()?;
	for op in &sc.ops {
		let op = resolve_locked(&it, op);
		if let Op::Commit(items) = &op {
			if items.is_empty() {
				continue
			}
		}
		if matches!(op, Op::UnlockTree) {
			if let Some(l) = &it.locked {
				if !l.deferred.is_empty() && l.steps_while_locked > 0 {
					out.label("dereference-deferred-while-locked");
				}
			}
		}
		it.step(&op)?;
		it.check_locked_tree()?;
	}
	it.check_reads(true)?;
	let rep = layout::check_dir(&it.cfg, dir, Some(&it)).map_err(|e| Failure::new(format!("layout:{}", e.sig), e.detail))?;
	if rep.shared_nodes > 0 {
		out.label("shared-nodes-survive");
	}
	if let (ColModel::Multi(m), Some(n)) = (&it.model.cols[0], it.num_entries(0)) {
		if n != m.live_entries() as u64 {
			fail!("entry-count-mismatch", "after release and drain: {n} entries, model {}", m.live_entries())
		}
	}
	it.step(&Op::Reopen)?;
	it.check_reads(true)?;
	for l in &it.labels {
		out.label(l);
	}
	out.excluded_known_count(it.excluded_known.get());
	out.nontrivial = out.labels.contains("dereference-deferred-while-locked");
	Ok(out)
}

/// Known finding: deferral re-orders the whole transaction.
pub fn known_reorder_case() -> Scenario {
	let leaf = |s: u16| ChildSpec::New(TreeSpec { data: VSpec { len: 4, fill: 1, seed: s }, children: vec![] });
	let t = TreeSpec { data: VSpec { len: 6, fill: 1, seed: 1 }, children: vec![leaf(2), leaf(3)] };
	let k = |seed: u16| Item { col: 1, ch: Change::Set(3, VSpec { len: 10, fill: 1, seed }) };
	Scenario {
		cfg: DbCfg::new(vec![ColCfg::multi(), ColCfg::hash()]),
		ops: vec![
			Op::Commit(vec![Item { col: 0, ch: Change::InsertTree(0, t) }]),
			Op::Drain,
			Op::LockTree(0, 0),
			Op::Commit(vec![Item { col: 0, ch: Change::DerefTreeKey(u16::MAX) }, k(100)]),
			Op::Commit(vec![k(200)]),
			Op::P,
			Op::P,
			Op::UnlockTree,
			Op::Drain,
		],
	}
}

fn known_regression(ctx: &Ctx) {
	if ctx.shard != 0 {
		return
	}
	let sc = known_reorder_case();
	let dir = ctx.case_dir();
	let r = guarded(|| run_scenario(&sc, &dir, true));
	let _ = std::fs::remove_dir_all(&dir);
	let mut rep = ctx.report.borrow_mut();
	match r {
		Err(f) if f.sig == "read-mismatch" => {
			rep.known_findings.push("postponing a tree removal re-queues the WHOLE transaction behind later ones: with the reader lock held, A = [DereferenceTree(root), Set(K, vA)] then B = [Set(K, vB)] ends with K = vA (also after reopen) instead of vB [deferred-commit-reorders-writes]".to_string());
		},
		Err(f) => rep.notes.push(format!("known-finding regression failed differently: {} {}", f.sig, f.detail)),
		Ok(_) => rep.notes.push("known finding deferred-commit-reorders-writes did not reproduce on its regression history (fixed?)".to_string()),
	}
}

/// Known finding: a reader lock acquired after a dereference was submitted, in the window
/// between the worker's dereference walk (under the tree's write lock) and the publication of
/// its record, still sees the root and then loses the nodes. Needs the real worker threads;
/// the window is hit by repetition (the oracle itself is schedule-independent).
fn known_vanish_regression(ctx: &Ctx) {
	if ctx.shard != 0 {
		return
	}
	use parity_db::{NewNode, NodeRef, Operation};
	let dir = ctx.case_dir();
	let cfg = DbCfg::new(vec![ColCfg::multi()]);
	let observed = guarded(|| -> Res<Option<String>> {
		let db = parity_db::Db::open_or_create(&cfg.options(&dir, true)).map_err(|e| Failure::new("open-failed", e.to_string()))?;
		let t0 = std::time::Instant::now();
		let mut i = 0u16;
		while t0.elapsed() < std::time::Duration::from_secs(12) && i < 20_000 {
			let key = cfg.cols[0].key(i);
			let children = (0..150u16).map(|c| NodeRef::New(NewNode { data: vec![c as u8; 24], children: vec![] })).collect();
			db.commit_changes(vec![(0u8, Operation::InsertTree(key.clone(), NewNode { data: vec![1, 2, 3], children }))]).map_err(|e| Failure::new("commit-failed", e.to_string()))?;
			db.commit_changes(vec![(0u8, Operation::DereferenceTree(key.clone()))]).map_err(|e| Failure::new("commit-failed", e.to_string()))?;
			// lock the reader again and again until the tree is gone
			for _ in 0..10_000 {
				let tree = match db.get_tree(0, &key) {
					Ok(Some(t)) => t,
					_ => break,
				};
				let guard = tree.read();
				match guard.get_root() {
					Ok(Some((_, ch))) =>
						for a in ch {
							if let Ok(None) = guard.get_node(a) {
								return Ok(Some(format!("iteration {i}: root readable under the read lock, node {a:#x} gone")))
							}
						},
					_ => break,
				}
			}
			i += 1;
		}
		Ok(None)
	});
	let _ = std::fs::remove_dir_all(&dir);
	let mut rep = ctx.report.borrow_mut();
	match observed {
		Ok(Some(how)) => rep.known_findings.push(format!(
			"a tree reader locked AFTER the tree's dereference was submitted can see the root and then lose the nodes while holding the lock: the worker checks 'not locked', walks the tree under its write lock, releases it, and publishes the removal only with the record [locked-reader-after-queued-dereference] ({how})"
		)),
		Ok(None) => rep.notes.push("known finding locked-reader-after-queued-dereference was not observed within its repetition budget".to_string()),
		Err(f) => rep.notes.push(format!("known-finding regression failed differently: {} {}", f.sig, f.detail)),
	}
}

/// A reader locked while a dereference of its tree is already QUEUED (committed, not yet
/// processed), an insertion that reuses the tree's nodes under that lock, and the bookkeeping of
/// queued dereferences per tree (roots with a reference count > 1 need several). Stepping
/// mode; the expected state is computed directly.
#[derive(Clone, Debug, Serialize, Deserialize)]
pub struct QueuedDerefCase {
	pub rc: bool,
	/// reference count of the root of T when the dereferences start (1..=3; 1 if !rc)
	pub refs: u8,
	/// dereferences of T committed before the lock
	pub derefs: u8,
	/// of which processed before the lock
	pub processed: u8,
	pub children: u8,
	/// children of T reused by the new tree B (selector bits)
	pub reuse: u16,
	/// process_commits steps while the lock is held
	pub steps_locked: u8,
	/// a further dereference of T committed while the lock is held
	pub deref_while_locked: bool,
}

fn queued_deref_case() -> impl Strategy<Value = QueuedDerefCase> {
	(any::<bool>(), 1u8..=3, 1u8..=3, 0u8..=3, 2u8..7, 1u16..128, 0u8..3, any::<bool>()).prop_map(|(rc, refs, derefs, processed, children, reuse, steps_locked, deref_while_locked)| {
		let refs = if rc { refs } else { 1 };
		let derefs = derefs.min(refs);
		QueuedDerefCase { rc, refs, derefs, processed: processed.min(derefs), children, reuse, steps_locked, deref_while_locked }
	})
}

pub fn run_queued_deref_case(c: &QueuedDerefCase, dir: &Path) -> CaseResult {
	use parity_db::{NewNode, NodeRef, Operation};
	let mut out = CaseOut::default();
	let mut col = ColCfg::multi();
	if c.rc {
		col.rc = true;
		col.preimage = true;
	}
	let cfg = DbCfg::new(vec![col]);
	let db = std::sync::Arc::new(parity_db::Db::open_or_create(&cfg.options(dir, false)).map_err(|e| Failure::new("open-failed", e.to_string()))?);
	let err = |what: &str, e: parity_db::Error| Failure::new(format!("{what}-failed"), e.to_string());
	let drain = |db: &parity_db::Db| -> Res<()> {
		for _ in 0..40 {
			db.process_commits().map_err(|e| err("process_commits", e))?;
			db.flush_logs().map_err(|e| err("flush_logs", e))?;
			db.enact_logs().map_err(|e| err("enact_logs", e))?;
			db.clean_logs().map_err(|e| err("clean_logs", e))?;
			let st = db.verif_pipeline_state();
			if st.0 == 0 && st.3 == 0 && !st.4 {
				break
			}
		}
		Ok(())
	};
	let kt = cfg.cols[0].key(1);
	let kb = cfg.cols[0].key(2);
	let child_data = |i: u8| vec![0xc0 | i; 10 + i as usize];
	let t = NewNode { data: vec![7; 12], children: (0..c.children).map(|i| NodeRef::New(NewNode { data: child_data(i), children: vec![] })).collect() };
	db.commit_changes(vec![(0u8, Operation::InsertTree(kt.clone(), t))]).map_err(|e| err("commit", e))?;
	for _ in 1..c.refs {
		db.commit_changes(vec![(0u8, Operation::ReferenceTree(kt.clone()))]).map_err(|e| err("commit", e))?;
	}
	drain(&db)?;
	let addrs: Vec<u64> = {
		let tree = db.get_tree(0, &kt).map_err(|e| err("get_tree", e))?.ok_or_else(|| Failure::new("live-tree-unreadable", "T not readable after its insertion"))?;
		let g = tree.read();
		let (_, ch) = g.get_root().map_err(|e| err("get_root", e))?.ok_or_else(|| Failure::new("live-tree-unreadable", "root of T missing"))?;
		ch
	};
	for _ in 0..c.derefs {
		db.commit_changes(vec![(0u8, Operation::DereferenceTree(kt.clone()))]).map_err(|e| err("commit", e))?;
	}
	for _ in 0..c.processed {
		db.process_commits().map_err(|e| err("process_commits", e))?;
	}
	let mut refs_left = c.refs - c.derefs;
	// lock T if it is still there (a dereference may be queued for it)
	let tree = db.get_tree(0, &kt).map_err(|e| err("get_tree", e))?;
	let mut reused: Vec<usize> = Vec::new();
	if let Some(tree) = tree {
		let guard = tree.read();
		if let Some((_, ch)) = guard.get_root().map_err(|e| err("get_root", e))? {
			if ch != addrs {
				fail!("locked-tree-changed", "child addresses of T changed")
			}
			out.label(if c.derefs > c.processed { "locked-with-dereference-queued" } else { "locked-without-queued-dereference" });
			reused = (0..c.children as usize).filter(|i| c.reuse >> i & 1 == 1).collect();
			let mut children: Vec<NodeRef> = reused.iter().map(|i| NodeRef::Existing(addrs[*i])).collect();
			children.push(NodeRef::New(NewNode { data: vec![0xbb; 9], children: vec![] }));
			db.commit_changes(vec![(0u8, Operation::InsertTree(kb.clone(), NewNode { data: vec![8; 5], children }))]).map_err(|e| err("commit", e))?;
			if c.deref_while_locked && refs_left > 0 {
				db.commit_changes(vec![(0u8, Operation::DereferenceTree(kt.clone()))]).map_err(|e| err("commit", e))?;
				refs_left -= 1;
			}
			for _ in 0..c.steps_locked {
				// must not block: the removal is postponed while the lock is held
				let (tx, rx) = std::sync::mpsc::channel();
				let db2 = db.clone();
				// detached: if it blocks it is released when the guard goes away with the failure
				let handle = std::thread::spawn(move || {
					let _ = tx.send(db2.process_commits().map(|_| ()).map_err(|e| e.to_string()));
				});
				let blocked = rx.recv_timeout(std::time::Duration::from_secs(4)).is_err();
				if !blocked {
					// the helper must have let go of its handle before the database is closed
					let _ = handle.join();
				}
				if blocked {
					fail!("process_commits-blocked-by-reader-lock", "process_commits did not return while the reader lock of a tree with a queued dereference was held")
				}
			}
			// under the lock the tree is intact
			for (i, a) in addrs.iter().enumerate() {
				match guard.get_node(*a) {
					Ok(Some((d, _))) if d == child_data(i as u8) => {},
					Ok(Some(_)) => fail!("locked-tree-changed", "node {i} of T holds other data under the lock"),
					Ok(None) => fail!("locked-tree-node-vanished", "node {i} of T disappeared while the reader lock was held (lock taken in stepping mode, no worker running)"),
					Err(e) => return Err(err("get_node", e)),
				}
			}
		}
		drop(guard);
	}
	drain(&db)?;
	// final state
	let t_live = refs_left > 0;
	let check = |db: &parity_db::Db, when: &str| -> Res<()> {
		match db.get_tree(0, &kt).map_err(|e| err("get_tree", e))? {
			Some(tr) => {
				let g = tr.read();
				let root = g.get_root().map_err(|e| err("get_root", e))?;
				if root.is_some() != t_live {
					fail!("tree-liveness-wrong", "{when}: T readable = {}, expected {t_live} ({} references, all dereferences applied)", root.is_some(), refs_left)
				}
			},
			None =>
				if t_live {
					fail!("live-tree-unreadable", "{when}: T has {refs_left} references left but is not readable")
				},
		}
		if !reused.is_empty() || db.get_tree(0, &kb).map_err(|e| err("get_tree", e))?.is_some() {
			let tr = db.get_tree(0, &kb).map_err(|e| err("get_tree", e))?.ok_or_else(|| Failure::new("live-tree-unreadable", format!("{when}: B is not readable")))?;
			let g = tr.read();
			let (_, ch) = g.get_root().map_err(|e| err("get_root", e))?.ok_or_else(|| Failure::new("live-tree-unreadable", format!("{when}: root of B missing")))?;
			if ch.len() != reused.len() + 1 {
				fail!("tree-mismatch", "{when}: B has {} children, expected {}", ch.len(), reused.len() + 1)
			}
			for (j, i) in reused.iter().enumerate() {
				match g.get_node(ch[j]) {
					Ok(Some((d, _))) if d == child_data(*i as u8) => {},
					Ok(Some(_)) => fail!("tree-mismatch", "{when}: child {j} of B (node {i} of T) holds other data"),
					Ok(None) => fail!("shared-node-freed", "{when}: child {j} of B - node {i} reused from T under T's reader lock - is gone"),
					Err(e) => return Err(err("get_node", e)),
				}
			}
		}
		Ok(())
	};
	check(&db, "after drain")?;
	let db = std::sync::Arc::try_unwrap(db).map_err(|_| Failure::new("harness", "db still shared"))?;
	drop(db);
	let db = parity_db::Db::open(&cfg.options(dir, false)).map_err(|e| Failure::new("reopen-failed", e.to_string()))?;
	check(&db, "after reopen")?;
	drop(db);
	let b_exists = !reused.is_empty();
	let _ = b_exists;
	out.nontrivial = out.labels.contains("locked-with-dereference-queued");
	Ok(out)
}

fn run(ctx: &Ctx) {
	known_regression(ctx);
	known_vanish_regression(ctx);
	let n = scaled(ctx, 5_000, 120_000);
	if !ctx.run_prop_shrink("locked", n, 40, scenario(), |sc, dir| run_scenario(sc, dir, false)) {
		return
	}
	let n = scaled(ctx, 3_000, 60_000);
	ctx.run_prop_shrink("queued-deref", n, 60, queued_deref_case(), run_queued_deref_case);
}

fn replay(ctx: &Ctx, path: &Path) -> Result<(), Failure> {
	let v: serde_json::Value = serde_json::from_str(&std::fs::read_to_string(path).map_err(|e| Failure::new("bad-replay", e.to_string()))?).map_err(|e| Failure::new("bad-replay", e.to_string()))?;
	if v.get("sub").and_then(|s| s.as_str()) == Some("queued-deref") {
		let (_sub, c): (String, QueuedDerefCase) = load_replay(path).map_err(|e| Failure::new("bad-replay", e))?;
		let dir = ctx.case_dir();
		return guarded(|| run_queued_deref_case(&c, &dir)).map(|_| ())
	}
	let (_sub, sc): (String, Scenario) = load_replay(path).map_err(|e| Failure::new("bad-replay", e))?;
	let dir = ctx.case_dir();
	guarded(|| run_scenario(&sc, &dir, false)).map(|_| ())
}
