//! C14 Storage stays structurally sound: no orphan, double-used or leaked slot.

use super::{c02::*, *};
use crate::{interp::*, layout, runner::*, spec::*};
use std::path::Path;

pub fn def() -> PropDef {
	PropDef {
		id: "C14",
		level: "exploration",
		rule: "generated mixed histories (hash, hash-rc, btree, btree-rc, multitree columns in one database; cross-tier overwrites, multipart values, reference counting, tree sharing; block regimes of C02) ending in a drain, a clean reopen, or a crash + recovery (stop points of C02); after every drain / reopen / recovery the directory is re-parsed by an independent reader of the documented file formats and ALL of: every model key resolves through the index to a slot with matching key tail and value (and count); no index entry resolves to another key's value (leftovers only tolerated after index growth, and counted); every slot below the fill mark is in exactly one live chain or exactly once on the free list; free list acyclic, in range; btree sorted, uniform depth, content == model; multitree node reference counts == number of referencing parents, forest == model; value iteration == live values; plus steady-state rounds (insert N / remove N): fill marks and file lengths after round k <= round 2. Non-trivial = the free list was non-empty at some check (data had been removed / moved) - and for crash variants the stop point was inside an op with a non-empty log; distinct = distinct case fingerprints / (scenario, stop point) pairs",
		assumptions: &["the layout reader is an independent re-implementation of the on-disk formats documented in table.rs / index.rs / btree/mod.rs; a start-up self-check compares it with API reads on every run (content comparison against the model)"],
		run,
		replay,
		shards: default_shards,
		watchdog_s: default_watchdog,
		engine: 0,
	}
}

pub fn run_struct(sc: &Scenario, dir: &Path) -> CaseResult {
	let mut out = CaseOut::default();
	let mut it = Interp::new(&sc.cfg, dir, Interp::universe_of(sc));
	it.open()?;
	let mut free_seen = false;
	let mut check = |it: &Interp, out: &mut CaseOut| -> Res<()> {
		let rep = layout::check_dir(&it.cfg, &it.dir, Some(it)).map_err(|e| Failure::new(format!("layout:{}", e.sig), e.detail))?;
		if rep.free_slots > 0 {
			free_seen = true;
		}
		if rep.shared_nodes > 0 {
			out.label("shared-tree-nodes");
		}
		if rep.multipart_values > 0 {
			out.label("multipart-values");
		}
		out.count("layout_checks", 1);
		out.count("live_slots_seen", rep.live_slots);
		Ok(())
	};
	for op in &sc.ops {
		it.step(op)?;
		if matches!(op, Op::Drain) {
			check(&it, &mut out)?;
		}
	}
	it.step(&Op::Drain)?;
	it.check_reads(true)?;
	check(&it, &mut out)?;
	it.step(&Op::Reopen)?;
	it.check_reads(true)?;
	it.ensure_room_for_close()?;
	it.close();
	check(&it, &mut out)?;
	for c in &sc.cfg.cols {
		out.label(match (c.kind, c.rc) {
			(Kind::Hash, false) => "col-hash",
			(Kind::Hash, true) => "col-hash-rc",
			(Kind::Btree, false) => "col-btree",
			(Kind::Btree, true) => "col-btree-rc",
			(Kind::Multi, _) => "col-multitree",
		});
	}
	out.nontrivial = free_seen;
	if free_seen {
		out.label("free-list-non-empty");
	}
	Ok(out)
}

/// Known finding (DESIGN 6): entries claimed at commit time by a tree insertion are leaked
/// when a crash loses that transaction. Fixed regression history, checked strictly.
pub fn known_claim_leak_case() -> CrashCase {
	let leaf = |seed: u16| TreeSpec { data: VSpec { len: 3, fill: 1, seed }, children: vec![] };
	let a = TreeSpec { data: VSpec { len: 5, fill: 1, seed: 1 }, children: vec![] };
	let b = TreeSpec { data: VSpec { len: 5, fill: 1, seed: 2 }, children: vec![ChildSpec::New(leaf(3))] };
	let sc = Scenario {
		cfg: DbCfg::new(vec![ColCfg::multi()]),
		ops: vec![
			Op::Commit(vec![Item { col: 0, ch: Change::InsertTree(0, a) }]),
			Op::Commit(vec![Item { col: 0, ch: Change::InsertTree(1, b) }]),
			Op::P,
			Op::F,
		],
	};
	CrashCase { sc, sample_seed: 0, only: Some(crate::image::StopPoint { op: 4, n: 0, cut: None, recover_n: vec![] }) }
}

fn known_regression(ctx: &Ctx) {
	if ctx.shard != 0 {
		return
	}
	let case = known_claim_leak_case();
	let opts = CrashOpts { cap: 1, rec_depth: 0, synced_bound: false, tail: true, layout: true, tolerate_known: false };
	let dir = ctx.case_dir();
	let r = guarded(|| run_crash_case(&case, &dir, &opts));
	let _ = std::fs::remove_dir_all(&dir);
	let mut rep = ctx.report.borrow_mut();
	match r {
		Err(f) if f.sig.contains("layout-orphan-slot") || f.sig.contains("layout-tombstone-not-on-free-list") => {
			rep.known_findings.push("multitree: value-table entries claimed at commit time by a tree insertion are leaked (below the fill mark, neither live nor free) when a crash loses that transaction [regression history: InsertTree A; InsertTree B(+1 node); process_commits; flush_logs; crash] [multitree-claimed-slots-leaked-by-crash]".to_string());
		},
		Err(f) => {
			rep.notes.push(format!("known-finding regression case failed differently: {} {}", f.sig, f.detail));
		},
		Ok(_) => {
			rep.notes.push("known finding multitree-claimed-slots-leaked-by-crash did not reproduce on its regression history (fixed?)".to_string());
		},
	}
}

fn run(ctx: &Ctx) {
	known_regression(ctx);
	let thorough = ctx.tier == "thorough";
	let n = scaled(ctx, 4_000, 100_000);
	if !ctx.run_prop("drain", n, crash_scenario(4, 6, 30, true, 70_000), run_struct) {
		return
	}
	let opts = CrashOpts { cap: if thorough { 200 } else { 60 }, rec_depth: 1, synced_bound: false, tail: true, layout: true, tolerate_known: true };
	let n = scaled(ctx, 42, 2_000);
	if !ctx.run_prop_shrink("crash", n, 60, crash_case(3, 4, 12, true), |c, dir| run_crash_case(c, dir, &opts)) {
		return
	}
	let n = scaled(ctx, 300, 8_000);
	ctx.run_prop("steady", n, super::c06::reuse_case(), super::c06::run_reuse);
}

fn replay(ctx: &Ctx, path: &Path) -> Result<(), Failure> {
	let dir = ctx.case_dir();
	let v: serde_json::Value = serde_json::from_str(&std::fs::read_to_string(path).map_err(|e| Failure::new("bad-replay", e.to_string()))?)
		.map_err(|e| Failure::new("bad-replay", e.to_string()))?;
	match v.get("sub").and_then(|s| s.as_str()).unwrap_or("") {
		"crash" => {
			let (_s, c): (String, CrashCase) = load_replay(path).map_err(|e| Failure::new("bad-replay", e))?;
			let opts = CrashOpts { cap: 200, rec_depth: 1, synced_bound: false, tail: true, layout: true, tolerate_known: true };
			guarded(|| run_crash_case(&c, &dir, &opts)).map(|_| ())
		},
		"steady" => {
			let (_s, c): (String, super::c06::ReuseCase) = load_replay(path).map_err(|e| Failure::new("bad-replay", e))?;
			guarded(|| super::c06::run_reuse(&c, &dir)).map(|_| ())
		},
		_ => {
			let (_s, sc): (String, Scenario) = load_replay(path).map_err(|e| Failure::new("bad-replay", e))?;
			guarded(|| run_struct(&sc, &dir)).map(|_| ())
		},
	}
}
