//! C17 Column administration and option checks never touch other columns' data.

use super::{c02::crash_scenario, *};
use crate::{gen::*, image::*, interp::*, model::*, runner::*, spec::*};
use parity_db::{ColumnOptions, CompressionType, Db, Options};
use proptest::prelude::*;
use serde::{Deserialize, Serialize};
use std::{collections::BTreeSet, path::Path};

pub fn def() -> PropDef {
	PropDef {
		id: "C17",
		level: "exploration",
		rule: "(a, exhaustive) all 2^7 x 3 = 384 ColumnOptions values as single-column metadata, plus generated 2-4 column lists: write_metadata -> load_metadata returns equal options, salt and version. (b, generated; half of the cases on a directory as an unclean stop leaves it - applied log files waiting, reclaimed log files kept empty, a synced log pending - and with open / open_or_create / open_read_only) pairs (stored options, requested options) differing in column count or in >=1 flag of one column (requested options valid): Db::open and Db::open_or_create return Err and a directory snapshot (names, lengths, content hashes; lock ignored) is unchanged; Db::open of a missing path returns Err and creates no path component. (c, generated) databases of 1-5 mixed columns with generated content, optionally captured as a crash image with pending (synced, unapplied) logs; one of add_column / drop_last_column / reset_column(i, Some|None) / clear_column(i); reopen with the resulting options: every other column observes exactly as before, the affected column is empty under its (new) configuration and accepts writes. Non-trivial: (b) always; (c) pending logs present, or >=3 columns; distinct = distinct case fingerprints",
		assumptions: &["requested options are valid (Db::open asserts Options::is_valid)", "'as before' for a directory with pending logs = the state a plain reopen of a copy of that directory shows"],
		run,
		replay,
		shards: default_shards,
		watchdog_s: default_watchdog,
		engine: 0,
	}
}

fn col_from_bits(bits: u16) -> ColumnOptions {
	ColumnOptions {
		preimage: bits & 1 != 0,
		uniform: bits & 2 != 0,
		ref_counted: bits & 4 != 0,
		btree_index: bits & 8 != 0,
		multitree: bits & 16 != 0,
		append_only: bits & 32 != 0,
		allow_direct_node_access: bits & 64 != 0,
		compression: match (bits >> 7) % 3 {
			0 => CompressionType::NoCompression,
			1 => CompressionType::Lz4,
			_ => CompressionType::Snappy,
		},
	}
}

#[derive(Clone, Debug, Serialize, Deserialize)]
pub struct MetaCase {
	pub cols: Vec<u16>,
	pub salt_seed: u64,
}

pub fn run_meta(case: &MetaCase, dir: &Path) -> CaseResult {
	let mut out = CaseOut::default();
	let mut o = Options::with_columns(dir, case.cols.len() as u8);
	for (i, b) in case.cols.iter().enumerate() {
		o.columns[i] = col_from_bits(*b);
	}
	let mut salt = [0u8; 32];
	fill_random(&mut salt, case.salt_seed);
	if let Err(e) = o.write_metadata(dir, &salt) {
		fail!("metadata-write-failed", "write_metadata: {e}")
	}
	let m = match Options::load_metadata(dir) {
		Ok(Some(m)) => m,
		Ok(None) => fail!("metadata-missing", "load_metadata returned None after write_metadata"),
		Err(e) => fail!("metadata-load-failed", "load_metadata: {e}"),
	};
	if m.columns != o.columns {
		let i = m.columns.iter().zip(o.columns.iter()).position(|(a, b)| a != b);
		fail!("metadata-roundtrip-mismatch", "column options changed in the write/read round trip: first difference at column {:?}: wrote {:?} read {:?}", i, i.map(|i| &o.columns[i]), i.map(|i| &m.columns[i]))
	}
	if m.salt != salt {
		fail!("metadata-roundtrip-mismatch", "salt changed in the round trip")
	}
	if m.version != 8 {
		fail!("metadata-roundtrip-mismatch", "version {} after round trip", m.version)
	}
	out.nontrivial = true;
	Ok(out)
}

#[derive(Clone, Debug, Serialize, Deserialize)]
pub struct MismatchCase {
	pub stored: Vec<ColCfg>,
	/// 0 drop a column, 1 add a column, 2.. flip flags of column `col`
	pub change: u8,
	pub col: u8,
	pub flags: u8,
	pub with_data: bool,
	/// > 0: the directory is what an unclean stop leaves - that many rounds of commit / log / sync /
	/// apply / reclaim (reclaimed log files stay in the directory, empty, for re-use), then commits
	/// that are logged and synced but not applied; captured while the handle is alive
	#[serde(default)]
	pub unclean: u8,
}

fn flip(c: &ColCfg, flags: u8) -> ColCfg {
	let mut n = c.clone();
	if flags & 1 != 0 {
		n.compression = (n.compression + 1) % 3;
	}
	if flags & 2 != 0 {
		n.uniform = !n.uniform;
	}
	if flags & 4 != 0 {
		n.preimage = !n.preimage;
	}
	if flags & 8 != 0 {
		n.rc = !n.rc;
	}
	if flags & 16 != 0 {
		n.kind = match n.kind {
			Kind::Hash => Kind::Btree,
			Kind::Btree => Kind::Multi,
			Kind::Multi => Kind::Hash,
		};
	}
	if flags & 32 != 0 {
		n.append_only = !n.append_only;
	}
	if flags & 64 != 0 {
		n.direct = !n.direct;
	}
	n
}

pub fn run_mismatch(case: &MismatchCase, dir: &Path) -> CaseResult {
	let mut out = CaseOut::default();
	let cfg = DbCfg::new(case.stored.clone());
	let db_dir = dir.join("db");
	// create (and optionally fill) the database
	{
		let db = Db::open_or_create(&cfg.options(&db_dir, false)).map_err(|e| Failure::new("create-failed", e.to_string()))?;
		if case.with_data {
			for (i, c) in cfg.cols.iter().enumerate() {
				if c.kind != Kind::Multi {
					let v = if c.value_from_key() { c.pre_value(1) } else { vec![7; 50] };
					db.commit(vec![(i as u8, c.key(1), Some(v))]).map_err(|e| Failure::new("commit-failed", e.to_string()))?;
				}
			}
		}
		if case.unclean > 0 {
			let put = |id: u16| -> Res<()> {
				for (i, c) in cfg.cols.iter().enumerate() {
					if c.kind != Kind::Multi {
						let v = if c.value_from_key() { c.pre_value(id) } else { vec![id as u8; 40] };
						db.commit(vec![(i as u8, c.key(id), Some(v))]).map_err(|e| Failure::new("commit-failed", e.to_string()))?;
					}
				}
				Ok(())
			};
			let step = |r: parity_db::Result<()>| r.map_err(|e| Failure::new("step-failed", e.to_string()));
			for round in 0..case.unclean as u16 {
				put(2 + round)?;
				for _ in 0..cfg.cols.len() + 1 {
					step(db.process_commits())?;
				}
				step(db.flush_logs())?;
				if round % 2 == 0 {
					// a second file in circulation
					put(20 + round)?;
					for _ in 0..cfg.cols.len() + 1 {
					step(db.process_commits())?;
				}
					step(db.flush_logs())?;
				}
				for _ in 0..3 {
					step(db.enact_logs())?;
				}
				step(db.clean_logs())?;
			}
			// three files in circulation; applying them leaves two to reclaim (the file read last
			// stays open); one of the two reclaimed files is taken again, the other stays empty
			for id in 40..43u16 {
				put(id)?;
				for _ in 0..cfg.cols.len() + 1 {
					step(db.process_commits())?;
				}
				step(db.flush_logs())?;
			}
			for _ in 0..6 {
				step(db.enact_logs())?;
			}
			step(db.clean_logs())?;
			put(43)?;
			for _ in 0..cfg.cols.len() + 1 {
				step(db.process_commits())?;
			}
			step(db.flush_logs())?;
			let img = dir.join("img");
			copy_dir(&db_dir, &img).map_err(|e| Failure::new("harness-io", e.to_string()))?;
			set_faults(0);
			drop(db);
			disarm();
			let _ = std::fs::remove_dir_all(&db_dir);
			std::fs::rename(&img, &db_dir).map_err(|e| Failure::new("harness-io", e.to_string()))?;
			let logs: Vec<u64> = file_sizes(&db_dir).iter().filter(|(k, _)| k.starts_with("log")).map(|(_, v)| *v).collect();
			if logs.iter().any(|l| *l == 0) {
				out.label("unclean-directory-with-empty-log-file");
			}
			if logs.iter().any(|l| *l > 0) {
				out.label("unclean-directory-with-pending-log");
			}
		}
	}
	let mut req = case.stored.clone();
	match case.change {
		0 if req.len() > 1 => {
			req.pop();
		},
		1 => req.push(ColCfg::hash()),
		_ => {
			let i = case.col as usize % req.len();
			let f = if case.flags & 0x7f == 0 { 1 } else { case.flags };
			req[i] = flip(&req[i], f);
		},
	}
	let rcfg = DbCfg::new(req.clone());
	let ropts = rcfg.options(&db_dir, false);
	if !ropts.is_valid() || req == case.stored {
		out.label("requested-options-invalid-or-equal-skipped");
		return Ok(out)
	}
	let before = dir_snapshot(&db_dir);
	for name in ["open", "open_or_create", "open_read_only"] {
		let r = match name {
			"open" => Db::open(&ropts),
			"open_or_create" => Db::open_or_create(&ropts),
			_ => Db::open_read_only(&ropts),
		};
		match r {
			Ok(_) => fail!("mismatching-options-accepted", "Db::{name} succeeded although the stored options differ: stored {:?} requested {:?}", case.stored, req),
			Err(_) => {},
		}
		let after = dir_snapshot(&db_dir);
		if after != before {
			let changed: Vec<_> = after.iter().filter(|(k, v)| before.get(*k) != Some(*v)).map(|(k, _)| k.clone()).chain(before.keys().filter(|k| !after.contains_key(*k)).cloned()).collect();
			fail!("failed-open-modified-files", "Db::{name} failed but changed the directory: {:?}", changed)
		}
	}
	// missing database without create
	let missing = dir.join("nope").join("deeper");
	match Db::open(&cfg.options(&missing, false)) {
		Ok(_) => fail!("open-created-database", "Db::open on a missing path succeeded"),
		Err(_) => {},
	}
	if dir.join("nope").exists() {
		fail!("open-created-directory", "Db::open on a missing path created {:?}", dir.join("nope"))
	}
	// an existing directory that holds no database (empty, or with unrelated files)
	let empty = dir.join("emptydir");
	let _ = std::fs::remove_dir_all(&empty);
	std::fs::create_dir_all(&empty).map_err(|e| Failure::new("harness-io", e.to_string()))?;
	if case.flags & 1 == 1 {
		std::fs::write(empty.join("notes.txt"), b"not a database").map_err(|e| Failure::new("harness-io", e.to_string()))?;
	}
	let before: Vec<String> = file_sizes(&empty).keys().cloned().collect();
	for read_only in [false, true] {
		let r = if read_only { Db::open_read_only(&cfg.options(&empty, false)) } else { Db::open(&cfg.options(&empty, false)) };
		if r.is_ok() {
			fail!("open-created-database", "Db::open on a directory without a database succeeded")
		}
		let after: Vec<String> = file_sizes(&empty).keys().cloned().collect();
		if after != before {
			fail!("open-created-files", "Db::open{} on a directory without a database failed but left files behind: {:?} (before: {:?})", if read_only { "_read_only" } else { "" }, after, before)
		}
	}
	out.nontrivial = true;
	out.label(match case.change {
		0 => "fewer-columns",
		1 => "more-columns",
		_ => "flag-mismatch",
	});
	Ok(out)
}

#[derive(Clone, Debug, Serialize, Deserialize)]
pub struct AdminCase {
	pub sc: Scenario,
	/// 0 add_column, 1 drop_last_column, 2 reset_column(i, None), 3 reset_column(i, Some), 4 clear_column(i)
	pub admin: u8,
	pub col: u8,
	pub new_col: ColCfg,
	/// stop the history here and capture the directory (pending logs) instead of closing cleanly
	pub capture_at: Option<u16>,
}

pub fn run_admin(case: &AdminCase, dir: &Path) -> CaseResult {
	let mut out = CaseOut::default();
	let sc = &case.sc;
	let ncols = sc.cfg.cols.len();
	let target = case.col as usize % ncols;
	// 1. produce the directory
	let img = dir.join("img");
	let sp_op = match case.capture_at {
		Some(at) => pick(at, sc.ops.len() + 1),
		None => sc.ops.len(),
	};
	let mut sc2 = sc.clone();
	if case.capture_at.is_none() {
		sc2.ops.push(Op::Reopen); // clean close
	}
	let sp = StopPoint { op: if case.capture_at.is_none() { sc2.ops.len() } else { sp_op }, n: 0, cut: None, recover_n: vec![] };
	let info = make_image(&sc2, &sp, &dir.join("work"), &img)?;
	let _ = std::fs::remove_dir_all(dir.join("work"));
	let pending_logs = file_sizes(&img).iter().any(|(n, s)| is_log(n) && *s > 0);
	// 2. what a plain reopen of a copy shows
	let probe = dir.join("probe");
	copy_dir(&img, &probe).map_err(|e| Failure::new("harness-io", e.to_string()))?;
	let rec = recover_and_check(&sc2, &info, &sp, &probe, dir, 0)?;
	let mut p = rec.prefix_index;
	if rec.candidates.len() > 1 {
		// several prefixes read identically (e.g. reference counts of tree roots / btree keys):
		// the stored counts decide which one the directory really holds
		let mut it = rec.interp;
		it.ensure_room_for_close()?;
		it.close();
		for cand in rec.candidates.iter() {
			adopt_prefix(&mut it, &info, *cand);
			if crate::layout::check_dir_opts(&it.cfg, &it.dir, Some(&it), true).is_ok() {
				p = *cand;
				break
			}
		}
		out.label("ambiguous-prefix-resolved-by-layout");
	} else {
		drop(rec);
	}
	let base_model = info.prefix[p].clone();
	let _ = std::fs::remove_dir_all(&probe);
	// 3. the administration call on the image
	let mut options = sc.cfg.options(&img, false);
	let mut new_cols = sc.cfg.cols.clone();
	let mut affected: Option<usize> = Some(target);
	let r = match case.admin % 5 {
		0 => {
			new_cols.push(case.new_col.clone());
			affected = Some(new_cols.len() - 1);
			Db::add_column(&mut options, case.new_col.column_options())
		},
		1 => {
			new_cols.pop();
			affected = None;
			Db::drop_last_column(&mut options)
		},
		2 => Db::reset_column(&mut options, target as u8, None),
		3 => {
			new_cols[target] = case.new_col.clone();
			Db::reset_column(&mut options, target as u8, Some(case.new_col.column_options()))
		},
		_ => parity_db::clear_column(&img, target as u8),
	};
	if let Err(e) = r {
		fail!("admin-call-failed", "administration call {} failed: {e}", case.admin % 5)
	}
	if new_cols.is_empty() {
		out.label("dropped-only-column");
		return Ok(out)
	}
	// 4. reopen with the resulting options
	let ncfg = DbCfg { cols: new_cols.clone(), ..sc.cfg.clone() };
	let mut universe = info.universe.clone();
	universe.resize(new_cols.len(), BTreeSet::new());
	let mut model = base_model.clone();
	model.cols.truncate(new_cols.len());
	let fresh = Model::new(&ncfg);
	while model.cols.len() < new_cols.len() {
		model.cols.push(fresh.cols[model.cols.len()].clone());
	}
	if let Some(a) = affected {
		model.cols[a] = fresh.cols[a].clone();
		if new_cols[a].kind != Kind::Multi {
			universe[a] = (0..12u16).collect();
		} else {
			universe[a] = (0..6u16).collect();
		}
	}
	let mut it = Interp::new(&ncfg, &img, universe);
	it.model = model;
	it.committed = p;
	for ((col, n), a) in info.addr.iter() {
		if Some(*col as usize) == affected || (*col as usize) >= new_cols.len() {
			continue
		}
		if let ColModel::Multi(m) = &it.model.cols[*col as usize] {
			if *n < m.nodes.len() {
				it.addr.insert((*col, *n), *a);
			}
		}
	}
	match it.open() {
		Ok(_) => {},
		Err(f) => return Err(Failure::new(format!("reopen-after-admin-{}", f.sig), f.detail)),
	}
	// other columns exactly as before, affected column empty
	if let Err(f) = it.check_reads(true) {
		let sig = if affected.is_some() && f.detail.contains(&format!("col {}", affected.unwrap())) { "cleared-column-not-empty".to_string() } else { format!("other-column-changed:{}", f.sig) };
		return Err(Failure::new(sig, format!("after administration call {} on column {}: {}", case.admin % 5, target, f.detail)))
	}
	// the affected column accepts writes
	if let Some(a) = affected {
		let c = &new_cols[a];
		let item = match c.kind {
			Kind::Multi => Item { col: a as u8, ch: Change::InsertTree(0, TreeSpec { data: VSpec { len: 9, fill: 1, seed: 1 }, children: vec![ChildSpec::New(TreeSpec { data: VSpec { len: 3, fill: 1, seed: 2 }, children: vec![] })] }) },
			_ => Item { col: a as u8, ch: Change::Set(2, VSpec { len: 33, fill: 2, seed: 5 }) },
		};
		it.step(&Op::Commit(vec![item]))?;
		it.step(&Op::Drain)?;
		it.check_reads(true)?;
		it.step(&Op::Reopen)?;
		it.check_reads(true)?;
	}
	// nothing of the old column may be left on disk (files re-parsed independently)
	it.step(&Op::Drain)?;
	it.ensure_room_for_close()?;
	it.close();
	crate::layout::check_dir_opts(&it.cfg, &it.dir, Some(&it), true).map_err(|e| Failure::new(format!("layout-after-admin:{}", e.sig), e.detail))?;
	if pending_logs {
		out.label("pending-logs");
	}
	out.label(match case.admin % 5 {
		0 => "add_column",
		1 => "drop_last_column",
		2 => "reset_column-none",
		3 => "reset_column-some",
		_ => "clear_column",
	});
	out.nontrivial = pending_logs || ncols >= 3;
	Ok(out)
}

fn admin_case() -> impl Strategy<Value = AdminCase> {
	(
		crash_scenario(5, 3, 10, true, 40_000),
		0u8..5,
		any::<u8>(),
		any_col(true),
		prop_oneof![1 => Just(None), 2 => any::<u16>().prop_map(Some)],
	)
		.prop_map(|(sc, admin, col, new_col, capture_at)| AdminCase { sc, admin, col, new_col, capture_at })
}

/// The same with 11-18 columns: the generated columns (which carry the data) are moved behind
/// 7-13 plain hash columns, so that column ids with two digits - and ids whose decimal and
/// hexadecimal spellings differ - are administrated and must be left alone.
fn admin_wide_case() -> impl Strategy<Value = AdminCase> {
	(admin_case(), 7u8..=13).prop_map(|(mut c, pad)| {
		let mut cols: Vec<ColCfg> = (0..pad).map(|_| ColCfg::hash()).collect();
		cols.extend(c.sc.cfg.cols.drain(..));
		c.sc.cfg.cols = cols;
		for op in c.sc.ops.iter_mut() {
			if let Op::Commit(items) = op {
				for (i, it) in items.iter_mut().enumerate() {
					// most items keep their (shifted) column; a few go to the padding columns
					if i % 5 == 4 {
						if let Change::Set(..) | Change::Del(..) = it.ch {
							it.col = it.col % pad;
							continue
						}
					}
					it.col += pad;
				}
			}
		}
		c
	})
}

fn run(ctx: &Ctx) {
	// (a) exhaustive single-column round trip
	for bits in 0u16..384 {
		if bits as u64 % ctx.shards != ctx.shard {
			continue
		}
		if !ctx.run_case("meta-enum", &MetaCase { cols: vec![bits], salt_seed: bits as u64 }, run_meta) {
			return
		}
	}
	ctx.report.borrow_mut().exhaustive = true;
	ctx.rule("meta-enum sub-run: exhaustive over all 384 single-column option values");
	let n = scaled(ctx, 3_000, 60_000);
	if !ctx.run_prop("meta", n, (prop_oneof![3 => proptest::collection::vec(0u16..384, 2..=4), 1 => proptest::collection::vec(0u16..384, 10..=20)], any::<u64>()).prop_map(|(cols, salt_seed)| MetaCase { cols, salt_seed }), run_meta) {
		return
	}
	let n = scaled(ctx, 1_500, 30_000);
	if !ctx.run_prop(
		"mismatch",
		n,
		(proptest::collection::vec(any_col(true), 1..=4), 0u8..6, any::<u8>(), any::<u8>(), any::<bool>(), prop_oneof![1 => Just(0u8), 1 => 1u8..4]).prop_map(|(stored, change, col, flags, with_data, unclean)| MismatchCase { stored, change, col, flags, with_data, unclean }),
		run_mismatch,
	) {
		return
	}
	let n = scaled(ctx, 1_000, 30_000);
	if !ctx.run_prop_shrink("admin", n, 300, admin_case(), run_admin) {
		return
	}
	let n = scaled(ctx, 400, 10_000);
	ctx.run_prop_shrink("admin-wide", n, 300, admin_wide_case(), run_admin);
}

fn replay(ctx: &Ctx, path: &Path) -> Result<(), Failure> {
	let dir = ctx.case_dir();
	let v: serde_json::Value = serde_json::from_str(&std::fs::read_to_string(path).map_err(|e| Failure::new("bad-replay", e.to_string()))?)
		.map_err(|e| Failure::new("bad-replay", e.to_string()))?;
	match v.get("sub").and_then(|s| s.as_str()).unwrap_or("") {
		"meta" | "meta-enum" => {
			let (_s, c): (String, MetaCase) = load_replay(path).map_err(|e| Failure::new("bad-replay", e))?;
			guarded(|| run_meta(&c, &dir)).map(|_| ())
		},
		"mismatch" => {
			let (_s, c): (String, MismatchCase) = load_replay(path).map_err(|e| Failure::new("bad-replay", e))?;
			guarded(|| run_mismatch(&c, &dir)).map(|_| ())
		},
		_ => {
			let (_s, c): (String, AdminCase) = load_replay(path).map_err(|e| Failure::new("bad-replay", e))?;
			guarded(|| run_admin(&c, &dir)).map(|_| ())
		},
	}
}
