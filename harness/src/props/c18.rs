//! C18 At most one live handle per database directory.

use super::*;
use crate::{image::*, interp::*, runner::*, spec::*};
use parity_db::Db;
use proptest::prelude::*;
use serde::{Deserialize, Serialize};
use std::{
	io::{BufRead, BufReader, Write},
	path::Path,
	process::{Child, Command, Stdio},
};

pub fn def() -> PropDef {
	PropDef {
		id: "C18",
		level: "exploration",
		rule: "generated scripts over 2-4 actors - handles inside the harness process and child processes (`pdbv lock-child`) - with operations open (each actor with its own opening call: open_or_create / open / open_read_only) / drop / SIGKILL of a child holder / write-by-holder / drop of a holder with 150 queued commits while two threads keep trying to open (a second handle obtained before the drop returned must see a directory that no longer changes), on one directory; plus races: all actors (threads and processes) released by a barrier open simultaneously a directory that needs recovery (crash image with pending logs). Oracle (model holder: Option<actor>): an open succeeds iff nobody holds the directory; a refused open returns the lock error and leaves the directory snapshot (names, lengths, content hashes, lock file ignored) unchanged; after drop or SIGKILL of the holder the next open succeeds and observes every write made by earlier holders; in a race exactly one actor succeeds. Non-trivial = an open attempted while another actor's handle is live (or still recovering); distinct = distinct case fingerprints",
		assumptions: &["holders run without background threads so that the directory is quiescent while a refused open is compared against the snapshot", "advisory flock semantics of the host kernel (tmpfs / local fs)"],
		run,
		replay,
		shards: default_shards,
		watchdog_s: default_watchdog,
		engine: 0,
	}
}

#[derive(Clone, Debug, Serialize, Deserialize)]
pub enum LockOp {
	/// actor tries to open
	Open(u8),
	/// actor drops its handle (if any)
	Drop(u8),
	/// SIGKILL the actor if it is a child process holding the handle
	Kill(u8),
	/// the holder (if it is in-process) commits a key
	Write(u16),
	/// the in-process holder queues a burst of commits and drops its handle while two other
	/// threads keep trying to open the directory
	DropRacing(u8),
	/// the in-process holder takes a tree reader (a client object that keeps the database's
	/// internals alive) and keeps it beyond the drop of its handle
	KeepReader(u8),
	/// the tree readers kept so far are dropped now (possibly long after their handle, while
	/// another actor holds the directory)
	DropReaders,
	/// a column administration call (0 add_column, 1 drop_last_column, 2 reset_column) on the
	/// directory while an actor holds it: the calls open the database themselves and must be
	/// refused like any other open, changing nothing
	AdminWhileHeld(u8),
}

#[derive(Clone, Debug, Serialize, Deserialize)]
pub struct LockCase {
	/// per actor: true = child process, false = in-process handle
	pub actors: Vec<bool>,
	pub ops: Vec<LockOp>,
	/// finish with a simultaneous open by all actors
	pub race: bool,
	pub with_pending_logs: bool,
	/// per actor: how it opens - 0 `open_or_create`, 1 `open`, 2 `open_read_only`
	#[serde(default)]
	pub modes: Vec<u8>,
}

fn open_mode(opts: &parity_db::Options, mode: u8) -> parity_db::Result<Db> {
	match mode {
		1 => Db::open(opts),
		2 => Db::open_read_only(opts),
		_ => Db::open_or_create(opts),
	}
}

pub fn child_main(dir: &str, mode: &str) -> i32 {
	let mode: u8 = mode.parse().unwrap_or(0);
	let cfg = DbCfg::new(vec![ColCfg::hash(), ColCfg::multi()]);
	let stdin = std::io::stdin();
	let mut line = String::new();
	// wait for "go"
	let _ = stdin.lock().read_line(&mut line);
	let r = open_mode(&cfg.options(Path::new(dir), false), mode);
	match &r {
		Ok(_) => println!("OK"),
		Err(parity_db::Error::Locked(_)) => println!("LOCKED"),
		Err(e) => println!("ERR {e}"),
	}
	let _ = std::io::stdout().flush();
	line.clear();
	// wait for "drop" (or EOF / kill)
	let _ = stdin.lock().read_line(&mut line);
	drop(r);
	println!("DROPPED");
	let _ = std::io::stdout().flush();
	0
}

struct ChildActor {
	child: Child,
	out: BufReader<std::process::ChildStdout>,
}

fn spawn_child(dir: &Path, mode: u8) -> Res<ChildActor> {
	let exe = std::env::current_exe().map_err(|e| Failure::new("harness-io", e.to_string()))?;
	let mut child = Command::new(exe).args(["lock-child", dir.to_str().unwrap(), &mode.to_string()]).stdin(Stdio::piped()).stdout(Stdio::piped()).stderr(Stdio::null()).spawn().map_err(|e| Failure::new("harness-io", e.to_string()))?;
	let out = BufReader::new(child.stdout.take().unwrap());
	Ok(ChildActor { child, out })
}

fn child_go(c: &mut ChildActor) {
	let _ = c.child.stdin.as_mut().unwrap().write_all(b"go\n");
	let _ = c.child.stdin.as_mut().unwrap().flush();
}

fn child_result(c: &mut ChildActor) -> String {
	let mut l = String::new();
	let _ = c.out.read_line(&mut l);
	l.trim().to_string()
}

fn child_drop(mut c: ChildActor) {
	let _ = c.child.stdin.as_mut().unwrap().write_all(b"drop\n");
	let _ = c.child.stdin.as_mut().unwrap().flush();
	let mut l = String::new();
	let _ = c.out.read_line(&mut l);
	let _ = c.child.wait();
}

enum Held {
	Local(Db),
	Child(ChildActor),
}

pub fn run_case(case: &LockCase, dir: &Path) -> CaseResult {
	let mut out = CaseOut::default();
	let cfg = DbCfg::new(vec![ColCfg::hash(), ColCfg::multi()]);
	let db_dir = dir.join("db");
	// initial content, optionally left with pending logs
	let mut written: Vec<u16> = Vec::new();
	{
		let db = Db::open_or_create(&cfg.options(&db_dir, false)).map_err(|e| Failure::new("create-failed", e.to_string()))?;
		for k in 0..3u16 {
			db.commit(vec![(0u8, cfg.cols[0].key(k), Some(vec![k as u8; 20]))]).map_err(|e| Failure::new("commit-failed", e.to_string()))?;
			written.push(k);
		}
		// a small tree, so that tree readers can be taken
		let tree = parity_db::NewNode { data: vec![1, 2, 3], children: vec![parity_db::NodeRef::New(parity_db::NewNode { data: vec![4], children: vec![] })] };
		db.commit_changes(vec![(1u8, parity_db::Operation::InsertTree(cfg.cols[1].key(0), tree))]).map_err(|e| Failure::new("commit-failed", e.to_string()))?;
		if case.with_pending_logs {
			// log and sync, do not apply; then take a crash image and use it as the directory
			for _ in 0..3 {
				let _ = db.process_commits();
			}
			let _ = db.flush_logs();
			let img = dir.join("img");
			copy_dir(&db_dir, &img).map_err(|e| Failure::new("harness-io", e.to_string()))?;
			set_faults(0);
			drop(db);
			disarm();
			let _ = std::fs::remove_dir_all(&db_dir);
			std::fs::rename(&img, &db_dir).map_err(|e| Failure::new("harness-io", e.to_string()))?;
			out.label("directory-needs-recovery");
		}
	}
	let n = case.actors.len();
	let mode_of = |a: usize| case.modes.get(a).cloned().unwrap_or(0);
	if case.modes.iter().any(|m| *m == 2) {
		out.label("read-only-actors");
	}
	let mut held: Vec<Option<Held>> = (0..n).map(|_| None).collect();
	let mut holder: Option<usize> = None;
	// client objects that outlive the handle they came from
	let mut kept_readers = Vec::new();
	let check_content = |db: &Db, written: &[u16]| -> Res<()> {
		for k in written {
			match db.get(0, &cfg.cols[0].key(*k)) {
				Ok(Some(_)) => {},
				Ok(None) => fail!("write-of-earlier-holder-lost", "key {k} written by an earlier holder is missing"),
				Err(e) => fail!("get-failed", "{e}"),
			}
		}
		Ok(())
	};
	for op in &case.ops {
		match op {
			LockOp::Open(a) => {
				let a = *a as usize % n;
				if held[a].is_some() {
					continue
				}
				let contested = holder.is_some();
				let before = if contested { Some(dir_snapshot(&db_dir)) } else { None };
				let (ok, locked, h) = if case.actors[a] {
					let mut c = spawn_child(&db_dir, mode_of(a))?;
					child_go(&mut c);
					let r = child_result(&mut c);
					match r.as_str() {
						"OK" => (true, false, Some(Held::Child(c))),
						"LOCKED" => {
							child_drop(c);
							(false, true, None)
						},
						other => {
							child_drop(c);
							fail!("open-failed-unexpectedly", "child open returned {other:?}")
						},
					}
				} else {
					match open_mode(&cfg.options(&db_dir, false), mode_of(a)) {
						Ok(db) => (true, false, Some(Held::Local(db))),
						Err(parity_db::Error::Locked(_)) => (false, true, None),
						Err(e) => fail!("open-failed-unexpectedly", "open returned {e}"),
					}
				};
				if contested {
					out.label("open-while-held");
					if mode_of(a) == 2 && holder.map(|h| mode_of(h)) == Some(2) {
						out.label("read-only-open-while-read-only-held");
					}
					if ok {
						fail!("second-handle-opened", "actor {a} opened the directory while actor {:?} holds it", holder)
					}
					if !locked {
						fail!("refusal-not-a-lock-error", "refused open did not return Error::Locked")
					}
					let after = dir_snapshot(&db_dir);
					if Some(&after) != before.as_ref() {
						fail!("refused-open-modified-files", "a refused open changed the directory")
					}
				} else {
					if !ok {
						fail!("open-refused-without-holder", "actor {a}: open failed with a lock error although nobody holds the directory")
					}
					holder = Some(a);
					if let Some(Held::Local(db)) = &h {
						check_content(db, &written)?;
					}
				}
				if ok {
					held[a] = h;
				}
			},
			LockOp::Drop(a) => {
				let a = *a as usize % n;
				if let Some(h) = held[a].take() {
					match h {
						Held::Local(db) => drop(db),
						Held::Child(c) => child_drop(c),
					}
					if holder == Some(a) {
						holder = None;
					}
					out.label("holder-dropped");
				}
			},
			LockOp::Kill(a) => {
				let a = *a as usize % n;
				if let Some(Held::Child(_)) = &held[a] {
					if let Some(Held::Child(mut c)) = held[a].take() {
						let _ = c.child.kill();
						let _ = c.child.wait();
					}
					if holder == Some(a) {
						holder = None;
					}
					out.label("holder-killed");
				}
			},
			LockOp::DropRacing(a) => {
				let a = *a as usize % n;
				if holder != Some(a) || mode_of(a) == 2 {
					continue
				}
				let db = match held[a].take() {
					Some(Held::Local(db)) => db,
					other => {
						held[a] = other;
						continue
					},
				};
				// work for the shutdown sequence: queued, unprocessed commits
				for i in 0..150u16 {
					let k = 100 + i;
					db.commit(vec![(0u8, cfg.cols[0].key(k), Some(vec![i as u8; 300]))]).map_err(|e| Failure::new("commit-failed", e.to_string()))?;
					written.push(k);
				}
				let dropped = std::sync::Arc::new(std::sync::atomic::AtomicBool::new(false));
				let mut racers = Vec::new();
				for _ in 0..2 {
					let dropped = dropped.clone();
					let opts = cfg.options(&db_dir, false);
					let dir2 = db_dir.clone();
					racers.push(std::thread::spawn(move || -> Result<bool, String> {
						use std::sync::atomic::Ordering;
						loop {
							let finished = dropped.load(Ordering::SeqCst);
							match Db::open(&opts) {
								Ok(second) => {
									// a second handle is live: from now on the first one must not touch the
									// directory any more (it must have finished before releasing the lock)
									let s1 = dir_snapshot(&dir2);
									let mut spins = 0;
									while !dropped.load(Ordering::SeqCst) && spins < 20_000 {
										std::thread::sleep(std::time::Duration::from_millis(1));
										spins += 1;
									}
									let s2 = dir_snapshot(&dir2);
									drop(second);
									if s1 != s2 {
										return Err("a second handle was opened while the first one was still shutting down: the directory changed underneath it".to_string())
									}
									return Ok(true)
								},
								Err(parity_db::Error::Locked(_)) => {
									if finished {
										return Ok(false)
									}
								},
								Err(e) => return Err(format!("racing open failed with {e}")),
							}
						}
					}));
				}
				std::thread::sleep(std::time::Duration::from_millis(2));
				drop(db);
				dropped.store(true, std::sync::atomic::Ordering::SeqCst);
				holder = None;
				for r in racers {
					match r.join().map_err(|_| Failure::new("panic@thread", "racer panicked"))? {
						Ok(_) => {},
						Err(e) if e.starts_with("racing open failed") => fail!("open-failed-unexpectedly", "{e}"),
						Err(e) => fail!("second-handle-during-shutdown", "{e}"),
					}
				}
				out.label("open-while-held");
				out.label("opens-racing-a-drop");
			},
			LockOp::KeepReader(a) => {
				let a = *a as usize % n;
				if let Some(Held::Local(db)) = &held[a] {
					match db.get_tree(1, &cfg.cols[1].key(0)) {
						Ok(Some(r)) => {
							kept_readers.push(r);
							out.label("tree-reader-outlives-handle");
						},
						Ok(None) => {},
						Err(e) => fail!("get-tree-failed", "{e}"),
					}
				}
			},
			LockOp::AdminWhileHeld(kind) => {
				if holder.is_none() {
					continue
				}
				let before = dir_snapshot(&db_dir);
				let mut opts = cfg.options(&db_dir, false);
				let (name, r) = match kind % 3 {
					0 => ("add_column", Db::add_column(&mut opts, parity_db::ColumnOptions::default())),
					1 => ("drop_last_column", Db::drop_last_column(&mut opts)),
					_ => ("reset_column", Db::reset_column(&mut opts, 0, None)),
				};
				match r {
					Err(parity_db::Error::Locked(_)) => {},
					Err(e) => fail!("refusal-not-a-lock-error", "Db::{name} on a directory held by actor {:?} failed with {e} instead of the lock error", holder),
					Ok(()) => fail!("administration-while-held", "Db::{name} succeeded on a directory held by actor {:?}", holder),
				}
				if dir_snapshot(&db_dir) != before {
					fail!("refused-open-modified-files", "a refused Db::{name} changed the directory")
				}
				out.label("administration-call-while-held");
				out.label("open-while-held");
			},
			LockOp::DropReaders => {
				if !kept_readers.is_empty() {
					kept_readers.clear();
					out.label("kept-tree-readers-dropped");
					if holder.is_some() {
						out.label("kept-tree-readers-dropped-while-another-handle-is-live");
					}
				}
			},
			LockOp::Write(k) => {
				if let Some(h) = holder.filter(|h| mode_of(*h) != 2) {
					if let Some(Held::Local(db)) = &held[h] {
						let k = 10 + *k % 40;
						db.commit(vec![(0u8, cfg.cols[0].key(k), Some(vec![7; 30]))]).map_err(|e| Failure::new("commit-failed", e.to_string()))?;
						written.push(k);
					}
				}
			},
		}
	}
	// release everything
	for h in held.iter_mut() {
		match h.take() {
			Some(Held::Local(db)) => drop(db),
			Some(Held::Child(c)) => child_drop(c),
			None => {},
		}
	}
	if case.race {
		// everyone opens at once
		let barrier = std::sync::Arc::new(std::sync::Barrier::new(case.actors.iter().filter(|c| !**c).count().max(1)));
		let mut children: Vec<ChildActor> = Vec::new();
		for (a, is_child) in case.actors.iter().enumerate() {
			if *is_child {
				children.push(spawn_child(&db_dir, mode_of(a))?);
			}
		}
		let mut threads = Vec::new();
		for (a, is_child) in case.actors.iter().enumerate() {
			if !*is_child {
				let b = barrier.clone();
				let opts = cfg.options(&db_dir, false);
				let mode = mode_of(a);
				threads.push(std::thread::spawn(move || {
					b.wait();
					match open_mode(&opts, mode) {
						Ok(db) => Ok(Some(db)),
						Err(parity_db::Error::Locked(_)) => Ok(None),
						Err(e) => Err(e.to_string()),
					}
				}));
			}
		}
		for c in children.iter_mut() {
			child_go(c);
		}
		let mut winners = 0;
		let mut local_dbs = Vec::new();
		for t in threads {
			match t.join().map_err(|_| Failure::new("panic@thread", "open thread panicked"))? {
				Ok(Some(db)) => {
					winners += 1;
					local_dbs.push(db);
				},
				Ok(None) => {},
				Err(e) => fail!("open-failed-unexpectedly", "racing open returned {e}"),
			}
		}
		for c in children.iter_mut() {
			match child_result(c).as_str() {
				"OK" => winners += 1,
				"LOCKED" => {},
				other => fail!("open-failed-unexpectedly", "racing child open returned {other:?}"),
			}
		}
		if winners != 1 {
			fail!("race-winners", "{winners} of {} simultaneous opens succeeded, expected exactly one", case.actors.len())
		}
		for db in &local_dbs {
			check_content(db, &written)?;
		}
		drop(local_dbs);
		for c in children {
			child_drop(c);
		}
		out.label("simultaneous-open");
		out.label("open-while-held");
	}
	// finally the directory opens again and shows everything
	let db = Db::open_or_create(&cfg.options(&db_dir, false)).map_err(|e| Failure::new("final-open-failed", e.to_string()))?;
	check_content(&db, &written)?;
	out.nontrivial = out.labels.contains("open-while-held");
	Ok(out)
}

fn lock_case() -> impl Strategy<Value = LockCase> {
	(
		proptest::collection::vec(prop_oneof![3 => Just(false), 1 => Just(true)], 2..=4),
		any::<bool>(),
		prop_oneof![3 => Just(false), 1 => Just(true)],
		// opening modes: mostly all `open_or_create`; one case in three mixes in `open` and `open_read_only`
		prop_oneof![2 => Just(vec![0u8; 4]), 1 => proptest::collection::vec(prop_oneof![2 => Just(0u8), 1 => Just(1u8), 3 => Just(2u8)], 4)],
	)
		.prop_flat_map(|(actors, race, with_pending_logs, modes)| {
		let op = prop_oneof![
			5 => (0u8..4).prop_map(LockOp::Open),
			3 => (0u8..4).prop_map(LockOp::Drop),
			1 => (0u8..4).prop_map(LockOp::Kill),
			2 => any::<u16>().prop_map(LockOp::Write),
			1 => (0u8..4).prop_map(LockOp::DropRacing),
			1 => (0u8..4).prop_map(LockOp::KeepReader),
			1 => Just(LockOp::DropReaders),
			1 => (0u8..3).prop_map(LockOp::AdminWhileHeld),
		];
		// one script in six contains the whole life of a stale tree reader: taken from a holder,
		// kept beyond its handle, dropped while the NEXT holder is alive, then a further open
		let stale = prop_oneof![5 => Just(None), 1 => (any::<u8>(), 0usize..14).prop_map(Some)];
		(proptest::collection::vec(op, 2..14), stale).prop_map(move |(mut ops, stale)| {
			let n = actors.len() as u8;
			let locals: Vec<u8> = (0..n).filter(|a| !actors[*a as usize]).collect();
			if let (Some((sel, at)), false) = (stale, locals.is_empty()) {
				let a = locals[sel as usize % locals.len()];
				let (b, c) = ((a + 1) % n, (a + 2) % n);
				let block = vec![LockOp::Drop(b), LockOp::Drop(c), LockOp::Open(a), LockOp::KeepReader(a), LockOp::Drop(a), LockOp::Open(b), LockOp::DropReaders, LockOp::Open(c)];
				let at = at.min(ops.len());
				ops.splice(at..at, block);
			}
			LockCase { actors: actors.clone(), ops, race, with_pending_logs, modes: modes[..actors.len()].to_vec() }
		})
	})
}

fn run(ctx: &Ctx) {
	let n = scaled(ctx, 6_000, 100_000);
	ctx.run_prop_shrink("locks", n, 200, lock_case(), run_case);
}

fn replay(ctx: &Ctx, path: &Path) -> Result<(), Failure> {
	let (_sub, c): (String, LockCase) = load_replay(path).map_err(|e| Failure::new("bad-replay", e))?;
	let dir = ctx.case_dir();
	guarded(|| run_case(&c, &dir)).map(|_| ())
}
