//! C07 Reference-counted columns keep a value exactly while its count is positive.

use super::*;
use crate::{gen::*, image::*, interp::*, layout, model::*, runner::*, spec::*};
use proptest::prelude::*;
use std::{collections::BTreeMap, path::Path};

pub fn def() -> PropDef {
	PropDef {
		id: "C07",
		level: "exploration",
		rule: "generated histories of Set / Reference / Dereference over <=20 keys (value = f(key)) on hash-rc and btree-rc columns (with repeats inside a transaction and counts crossing zero while commits are queued), single pipeline steps, drain, reopen. Oracle: count model in commit order; count>0 => get == f(key) always; when every accepted commit has been logged (queue empty) and after reopen: readable <=> count>0; after drain: value iteration over hash columns == {(f(k), count(k))}; at the end the raw layout reader compares the stored counts of hash AND btree columns with the model. thorough adds crash stop points (C02 machinery, counts part of the observation). Non-trivial = some key's count returns to zero and rises again while a commit is still queued, or a Reference/Dereference hits an absent key; distinct = distinct case fingerprints",
		assumptions: &[
			"while commits are queued a key whose count is 0 may still be readable (the property only demands 'iff' once all accepted commits are logged)",
			"counts stay far below the u32::MAX lock value",
		],
		run,
		replay,
		shards: default_shards,
		watchdog_s: default_watchdog,
		engine: 0,
	}
}

pub fn scenario(max_ops: usize) -> impl Strategy<Value = Scenario> {
	(prop_oneof![3 => Just(0u8), 3 => Just(1u8), 2 => Just(2u8)], 0u8..3, 0u8..4).prop_flat_map(move |(which, compression, bits)| {
		let mut cols = Vec::new();
		if which == 0 || which == 2 {
			let mut c = ColCfg::hash_rc();
			c.compression = compression;
			cols.push(c);
		}
		if which == 1 || which == 2 {
			let mut c = ColCfg::btree_rc();
			c.compression = compression;
			cols.push(c);
		}
		let cfg = DbCfg::new(cols).flags(bits);
		let n = cfg.cols.len() as u8;
		let items = proptest::collection::vec((0..n, rc_change(20)).prop_map(|(col, ch)| Item { col, ch }), 1..=8);
		// large transactions over few keys (the operations of one key must keep their order
		// however the change set is sorted or batched)
		let bulk = (0..n, proptest::collection::vec(rc_change(9), 21..=70)).prop_map(|(col, chs)| chs.into_iter().map(|ch| Item { col, ch }).collect::<Vec<_>>());
		let op = prop_oneof![
			10 => items.prop_map(Op::Commit),
			2 => bulk.prop_map(Op::Commit),
			10 => stage_op(),
			1 => Just(Op::Reopen),
			1 => Just(Op::Drain),
		];
		proptest::collection::vec(op, 8..=max_ops).prop_map(move |ops| Scenario { cfg: cfg.clone(), ops })
	})
}

fn counts_of(it: &Interp, col: usize) -> BTreeMap<u16, u64> {
	match &it.model.cols[col] {
		ColModel::Rc(m) => m.clone(),
		_ => BTreeMap::new(),
	}
}

fn check_iteration(it: &Interp) -> Res<()> {
	for (c, ccfg) in it.cfg.cols.iter().enumerate() {
		if ccfg.kind == Kind::Hash && ccfg.rc {
			let got = observe_rc_counts(it, c as u8)?;
			let want = counts_of(it, c);
			if got != want {
				fail!("value-iteration-counts-wrong", "col {c}: value iteration reports {:?}, model {:?}", got, want)
			}
		}
	}
	Ok(())
}

pub fn run_scenario(sc: &Scenario, dir: &Path) -> CaseResult {
	let mut it = Interp::new(&sc.cfg, dir, Interp::universe_of(sc));
	it.open()?;
	let mut out = CaseOut::default();
	// (col, key) -> went to zero while queued
	let mut zeroed: std::collections::BTreeSet<(usize, u16)> = Default::default();
	for op in &sc.ops {
		let before: Vec<BTreeMap<u16, u64>> = (0..sc.cfg.cols.len()).map(|c| counts_of(&it, c)).collect();
		if let Op::Commit(items) = op {
			for i in items {
				let present = before[i.col as usize].contains_key(match &i.ch {
					Change::Ref(k) | Change::Del(k) | Change::Set(k, _) => k,
					_ => &0,
				});
				if !present && matches!(i.ch, Change::Ref(_) | Change::Del(_)) {
					out.label("ref-or-deref-of-absent-key");
				}
			}
		}
		it.step(op)?;
		if let Op::Commit(_) = op {
			let queued = !it.stages.queued.is_empty();
			for c in 0..sc.cfg.cols.len() {
				let after = counts_of(&it, c);
				for (k, _) in before[c].iter() {
					if !after.contains_key(k) && queued {
						zeroed.insert((c, *k));
					}
				}
				for (k, _) in after.iter() {
					if !before[c].contains_key(k) && zeroed.contains(&(c, *k)) && it.stages.queued.len() >= 2 {
						out.label("zero-and-back-while-queued");
					}
				}
			}
		}
		if matches!(op, Op::Drain | Op::Reopen) {
			check_iteration(&it)?;
			zeroed.clear();
		}
	}
	it.step(&Op::Drain)?;
	it.check_reads(true)?;
	check_iteration(&it)?;
	it.step(&Op::Reopen)?;
	it.check_reads(true)?;
	check_iteration(&it)?;
	it.ensure_room_for_close()?;
	it.close();
	layout::check_dir(&it.cfg, dir, Some(&it)).map_err(|e| Failure::new(format!("layout:{}", e.sig), e.detail))?;
	for l in &it.labels {
		out.label(l);
	}
	out.nontrivial = out.labels.contains("zero-and-back-while-queued") || out.labels.contains("ref-or-deref-of-absent-key");
	out.count("point_reads", it.reads);
	Ok(out)
}

fn run(ctx: &Ctx) {
	let n = scaled(ctx, 6_000, 120_000);
	if !ctx.run_prop("rc", n, scenario(50), run_scenario) {
		return
	}
	// reference counts while the library's own worker threads move the data
	let n = scaled(ctx, 1_500, 30_000);
	if !ctx.run_prop("rc-bg", n, scenario(50), super::c01::run_scenario_workers) {
		return
	}
	if ctx.tier == "thorough" {
		let opts = super::c02::CrashOpts { cap: 200, rec_depth: 1, synced_bound: false, tail: true, layout: false, tolerate_known: true };
		let n = scaled(ctx, 0, 1_500);
		ctx.run_prop_shrink("rc-crash", n, 60,
			(scenario(14), any::<u64>()).prop_map(|(sc, sample_seed)| super::c02::CrashCase { sc, sample_seed, only: None }),
			|c, dir| super::c02::run_crash_case(c, dir, &opts),
		);
	}
}

fn replay(ctx: &Ctx, path: &Path) -> Result<(), Failure> {
	let dir = ctx.case_dir();
	let v: serde_json::Value = serde_json::from_str(&std::fs::read_to_string(path).map_err(|e| Failure::new("bad-replay", e.to_string()))?)
		.map_err(|e| Failure::new("bad-replay", e.to_string()))?;
	if v.get("sub").and_then(|s| s.as_str()) == Some("rc-crash") {
		let (_s, case): (String, super::c02::CrashCase) = load_replay(path).map_err(|e| Failure::new("bad-replay", e))?;
		let opts = super::c02::CrashOpts { cap: 200, rec_depth: 1, synced_bound: false, tail: true, layout: false, tolerate_known: true };
		return guarded(|| super::c02::run_crash_case(&case, &dir, &opts)).map(|_| ())
	}
	let (sub, sc): (String, Scenario) = load_replay(path).map_err(|e| Failure::new("bad-replay", e))?;
	if sub == "rc-bg" {
		for _ in 0..20 {
			guarded(|| super::c01::run_scenario_workers(&sc, &ctx.case_dir())).map(|_| ())?;
		}
		return Ok(())
	}
	guarded(|| run_scenario(&sc, &dir)).map(|_| ())
}
