//! C16 An I/O error stops the writer cleanly and never corrupts the database.

use super::{c02::*, *};
use crate::{image::*, interp::*, runner::*, spec::*};
use proptest::prelude::*;
use serde::{Deserialize, Serialize};
use std::path::Path;

pub fn def() -> PropDef {
	PropDef {
		id: "C16",
		level: "fault_enumeration",
		rule: "generated histories over all column kinds (block regimes of C02); for each history EVERY file-operation index n of every pipeline op (P/F/E/C/R/Drain/Reopen) is enumerated up to a per-history cap (then sampled): the op is run with the library's fault injector failing the n-th file operation and every later one. Oracle: the failing call returns an error (for Reopen: the open following the silent drop fails) - an op that completes Ok although one of its file operations failed is a violation; no panic, also not in the drop that follows with the fault still present; reads issued between the failure and the drop return the model of ALL committed transactions; after the fault is cleared Db::open of the same directory succeeds and observes a prefix p with synced <= p <= committed; the recovered database accepts commits, drains and reopens. Non-trivial = the fault hit after the op had already performed >=1 file operation (n >= 1); distinct = distinct (history, op, n) triples",
		assumptions: &[
			"fault = the repository's thread-local injector (every try_io! site), persisting until restart; reads between failure and drop are issued with the injector paused because memory-mapped reads are not file operations of the pipeline",
			"stepping part: the failing call is the pipeline step itself. Threaded part (shuttle engine, real worker loops): all tasks share one OS thread, so the thread-local injector fails every file operation of every worker from the n-th on; commits must be refused with a background error from then on, reads stay correct, shutdown terminates, restart recovers a per-client prefix of the accepted commits",
		],
		run,
		replay,
		shards: default_shards,
		watchdog_s: default_watchdog,
		engine: 2,
	}
}

#[derive(Clone, Debug, Serialize, Deserialize)]
pub struct FaultCase {
	pub sc: Scenario,
	pub sample_seed: u64,
	pub only: Option<(usize, usize)>,
}

pub fn check_fault_point(sc: &Scenario, s: usize, n: usize, dir: &Path, out: &mut CaseOut) -> Res<()> {
	let work = dir.join("work");
	let _ = std::fs::remove_dir_all(&work);
	std::fs::create_dir_all(&work).map_err(|e| Failure::new("harness-io", e.to_string()))?;
	let mut it = Interp::new(&sc.cfg, &work, Interp::universe_of(sc));
	it.keep_prefix = true;
	it.check_every_op = false;
	it.open()?;
	for op in sc.ops.iter().take(s) {
		it.step(op)?;
	}
	let synced = it.stages.synced;
	let op = &sc.ops[s];
	it.fault_armed = true;
	set_faults(n);
	let r = it.step(op);
	set_faults(usize::MAX / 2);
	let r = match r {
		Ok(r) => r,
		Err(f) => {
			disarm();
			return Err(f)
		},
	};
	match r {
		StepOut::Faulted(_) => {},
		_ => {
			disarm();
			fail!("io-error-not-reported", "op {s} ({:?}) completed successfully although its file operation #{n} failed", op_name(op))
		},
	}
	// reads keep returning committed data (only while a handle exists)
	if it.db.is_some() {
		it.fault_armed = false;
		it.relaxed_dead = true;
		if let Err(f) = it.check_reads(false) {
			disarm();
			return Err(Failure::new(format!("after-io-error:{}", f.sig), format!("after the failure of op {s} at file operation {n}: {}", f.detail)))
		}
		out.count("reads_after_failure", 1);
		// the failure is a background error from now on: commits are refused
		if !matches!(op, Op::Reopen) {
			if let Some(db) = it.db.as_ref() {
				match db.commit_changes(Vec::<(u8, parity_db::Operation<Vec<u8>, Vec<u8>>)>::new()) {
					Err(_) => out.count("commits_refused_after_failure", 1),
					Ok(()) => {
						disarm();
						fail!("commit-accepted-after-io-error", "after the failure of op {s} ({}) at file operation {n} a commit was accepted", op_name(op))
					},
				}
			}
		}
	}
	// drop with the fault still present
	set_faults(0);
	let committed = it.committed;
	let prefix = it.prefix.clone();
	let addr = it.addr.clone();
	let universe = it.universe.clone();
	it.close();
	drop(it);
	disarm();
	// restart without the fault
	let info = ImageInfo {
		faulted: true,
		committed,
		synced,
		cleaned: 0,
		cleaned_or_enacted: 0,
		last_enacted_record: 0,
		had_log: true,
		cut_inside: false,
		prefix,
		addr,
		universe,
		labels: Default::default(),
	};
	let sp = StopPoint { op: s, n, cut: None, recover_n: vec![] };
	let rec = recover_and_check(sc, &info, &sp, &work, dir, synced)?;
	let p = rec.prefix_index;
	let mut it = rec.interp;
	if rec.candidates.len() == 1 {
		let r: Res<()> = (|| {
			it.check_reads(true)?;
			for op in sc.ops.iter().skip(s + 1).filter(|o| matches!(o, Op::Commit(_))).take(2) {
				it.step(op)?;
			}
			it.step(&Op::Drain)?;
			it.check_reads(true)?;
			it.step(&Op::Reopen)?;
			it.check_reads(true)?;
			Ok(())
		})();
		r.map_err(|f| Failure::new(format!("after-recovery:{}", f.sig), format!("recovered at prefix {p} after an I/O error in op {s} at file operation {n}: {}", f.detail)))?;
	}
	out.count(&format!("recovered_minus_synced:{}", (p as i64 - synced as i64).clamp(-1, 3)), 1);
	Ok(())
}

fn op_name(op: &Op) -> &'static str {
	match op {
		Op::P => "process_commits",
		Op::F => "flush_logs",
		Op::E => "enact_logs",
		Op::C => "clean_logs",
		Op::R => "process_reindex",
		Op::Drain => "drain",
		Op::Reopen => "reopen",
		_ => "other",
	}
}

pub fn run_fault_case(case: &FaultCase, dir: &Path, cap: usize) -> CaseResult {
	let mut out = CaseOut::default();
	let sc = &case.sc;
	let wrap = |s: usize, n: usize, f: Failure| if f.case_override.is_none() { f.with_case(&FaultCase { sc: sc.clone(), sample_seed: 0, only: Some((s, n)) }) } else { f };
	if let Some((s, n)) = case.only {
		guarded(|| check_fault_point(sc, s, n, dir, &mut out)).map_err(|f| wrap(s, n, f))?;
		out.nontrivial = n >= 1;
		return Ok(out)
	}
	let counts = count_io(sc, &dir.join("count"))?;
	let _ = std::fs::remove_dir_all(dir.join("count"));
	let mut points: Vec<(usize, usize)> = Vec::new();
	for (s, c) in counts.iter().enumerate() {
		if matches!(sc.ops[s], Op::Commit(_)) {
			continue
		}
		for n in 0..*c {
			points.push((s, n));
		}
	}
	let total = points.len();
	let mut rng = case.sample_seed;
	if total > cap {
		for i in 0..cap {
			rng = splitmix(rng);
			let j = i + (rng as usize) % (total - i);
			points.swap(i, j);
		}
		points.truncate(cap);
		out.label("fault-points-sampled");
	} else {
		out.label("fault-points-exhaustive");
	}
	out.count("fault_points_total", total as u64);
	for (s, n) in points {
		guarded(|| check_fault_point(sc, s, n, dir, &mut out)).map_err(|f| wrap(s, n, f))?;
		out.sub_evals += 1;
		if n >= 1 {
			out.sub_nontrivial += 1;
		}
		out.label(match &sc.ops[s] {
			Op::P => "fault-in:process_commits",
			Op::F => "fault-in:flush_logs",
			Op::E => "fault-in:enact_logs",
			Op::C => "fault-in:clean_logs",
			Op::R => "fault-in:process_reindex",
			Op::Drain => "fault-in:drain",
			Op::Reopen => "fault-in:reopen",
			_ => "fault-in:other",
		});
	}
	out.nontrivial = out.sub_nontrivial > 0;
	Ok(out)
}

fn fault_case() -> impl Strategy<Value = FaultCase> {
	(
		prop_oneof![3 => crash_scenario(3, 4, 12, true, 40_000).boxed(), 1 => super::c09::scenario(8, 200).boxed()],
		any::<u64>(),
	)
		.prop_map(|(sc, sample_seed)| FaultCase { sc, sample_seed, only: None })
}

fn run(ctx: &Ctx) {
	let thorough = ctx.tier == "thorough";
	let cap = if thorough { 400 } else { 120 };
	let n = scaled(ctx, 56, 2_800);
	ctx.run_prop_shrink("faults", n, 60, fault_case(), |c, dir| run_fault_case(c, dir, cap));
}

fn replay(ctx: &Ctx, path: &Path) -> Result<(), Failure> {
	let (_sub, c): (String, FaultCase) = load_replay(path).map_err(|e| Failure::new("bad-replay", e))?;
	let dir = ctx.case_dir();
	guarded(|| run_fault_case(&c, &dir, 400)).map(|_| ())
}
