//! C16 An I/O error stops the writer cleanly and never corrupts the database.

use super::{c02::*, *};
use crate::{gen::{mixed_cfg, mixed_items}, image::*, interp::*, runner::*, spec::*};
use proptest::prelude::*;
use serde::{Deserialize, Serialize};
use std::path::Path;

pub fn def() -> PropDef {
	PropDef {
		id: "C16",
		level: "fault_enumeration",
		rule: "generated histories over all column kinds (block regimes of C02); for each history EVERY file-operation index n of every pipeline op (P/F/E/C/R/Drain/Reopen) is enumerated up to a per-history cap (then sampled): the op is run with the library's fault injector failing the n-th file operation and every later one. Oracle: the failing call returns an error (for Reopen: the open following the silent drop fails) - an op that completes Ok although one of its file operations failed is a violation; no panic, also not in the drop that follows with the fault still present; reads issued between the failure and the drop return the model of ALL committed transactions; after the fault is cleared Db::open of the same directory succeeds and observes a prefix p with synced <= p <= committed; the recovered database accepts commits, drains and reopens. Non-trivial = the fault hit after the op had already performed >=1 file operation (n >= 1); distinct = distinct (history, op, n) triples. Sub-run eio-threads (pdbv_io binary, real worker threads): interposed write / fdatasync / fsync / msync / ftruncate / unlink / mmap calls on the database's files succeed a generated number of times, then fail with EIO on every thread; oracle: no commit accepted after a refusal, a refusal at the latest 12 probe commits (250 ms apart) after the first failed call, reads = accepted commits, drop returns, no panic on any thread, restart = prefix of the accepted commits; non-trivial there = >=1 call failed",
		assumptions: &[
			"fault = the repository's thread-local injector (every try_io! site), persisting until restart; reads between failure and drop are issued with the injector paused because memory-mapped reads are not file operations of the pipeline",
			"stepping part: the failing call is the pipeline step itself. Threaded part (shuttle engine, real worker loops): all tasks share one OS thread, so the thread-local injector fails every file operation of every worker from the n-th on; commits must be refused with a background error from then on, reads stay correct, shutdown terminates, restart recovers a per-client prefix of the accepted commits",
		],
		run,
		replay,
		shards: default_shards,
		watchdog_s: default_watchdog,
		engine: 5,
	}
}

#[derive(Clone, Debug, Serialize, Deserialize)]
pub struct FaultCase {
	pub sc: Scenario,
	pub sample_seed: u64,
	pub only: Option<(usize, usize)>,
}

pub fn check_fault_point(sc: &Scenario, s: usize, n: usize, dir: &Path, out: &mut CaseOut) -> Res<()> {
	let work = dir.join("work");
	let _ = std::fs::remove_dir_all(&work);
	std::fs::create_dir_all(&work).map_err(|e| Failure::new("harness-io", e.to_string()))?;
	let mut it = Interp::new(&sc.cfg, &work, Interp::universe_of(sc));
	it.keep_prefix = true;
	it.check_every_op = false;
	it.open()?;
	for op in sc.ops.iter().take(s) {
		it.step(op)?;
	}
	let synced = it.stages.synced;
	let op = &sc.ops[s];
	it.fault_armed = true;
	set_faults(n);
	let r = it.step(op);
	set_faults(usize::MAX / 2);
	let r = match r {
		Ok(r) => r,
		Err(f) => {
			disarm();
			return Err(f)
		},
	};
	match r {
		StepOut::Faulted(_) => {},
		_ => {
			disarm();
			fail!("io-error-not-reported", "op {s} ({:?}) completed successfully although its file operation #{n} failed", op_name(op))
		},
	}
	// reads keep returning committed data (only while a handle exists)
	if it.db.is_some() {
		it.fault_armed = false;
		it.relaxed_dead = true;
		if let Err(f) = it.check_reads(false) {
			disarm();
			return Err(Failure::new(format!("after-io-error:{}", f.sig), format!("after the failure of op {s} at file operation {n}: {}", f.detail)))
		}
		out.count("reads_after_failure", 1);
		// the failure is a background error from now on: commits are refused
		if !matches!(op, Op::Reopen) {
			if let Some(db) = it.db.as_ref() {
				match db.commit_changes(Vec::<(u8, parity_db::Operation<Vec<u8>, Vec<u8>>)>::new()) {
					Err(_) => out.count("commits_refused_after_failure", 1),
					Ok(()) => {
						disarm();
						fail!("commit-accepted-after-io-error", "after the failure of op {s} ({}) at file operation {n} a commit was accepted", op_name(op))
					},
				}
			}
		}
	}
	// Every other fault point of a process_commits step is confined to the log worker: its file
	// operations keep failing, those of the other workers do not (a full disk: `write` fails,
	// syncs and mapped stores work). The flush worker and the commit worker each run once more
	// before they see the shutdown flag.
	if matches!(op, Op::P) && (n ^ s) & 1 == 1 && it.db.is_some() {
		disarm();
		if let Some(db) = it.db.as_ref() {
			let _ = db.flush_logs();
			let _ = db.enact_logs();
		}
		if let Err(f) = it.check_reads(false) {
			return Err(Failure::new(format!("after-io-error:{}", f.sig), format!("after the failure of op {s} at file operation {n} (confined to the log worker; flush and commit worker ran once more): {}", f.detail)))
		}
		out.count("faults_confined_to_the_log_worker", 1);
	}
	// drop with the fault still present
	set_faults(0);
	let committed = it.committed;
	let prefix = it.prefix.clone();
	let addr = it.addr.clone();
	let universe = it.universe.clone();
	it.close();
	drop(it);
	disarm();
	// restart without the fault
	let info = ImageInfo {
		faulted: true,
		committed,
		synced,
		cleaned: 0,
		cleaned_or_enacted: 0,
		last_enacted_record: 0,
		had_log: true,
		cut_inside: false,
		prefix,
		addr,
		universe,
		labels: Default::default(),
	};
	let sp = StopPoint { op: s, n, cut: None, recover_n: vec![] };
	let rec = recover_and_check(sc, &info, &sp, &work, dir, synced)?;
	let p = rec.prefix_index;
	let mut it = rec.interp;
	if rec.candidates.len() == 1 {
		let r: Res<()> = (|| {
			it.check_reads(true)?;
			for op in sc.ops.iter().skip(s + 1).filter(|o| matches!(o, Op::Commit(_))).take(2) {
				it.step(op)?;
			}
			it.step(&Op::Drain)?;
			it.check_reads(true)?;
			it.step(&Op::Reopen)?;
			it.check_reads(true)?;
			Ok(())
		})();
		r.map_err(|f| Failure::new(format!("after-recovery:{}", f.sig), format!("recovered at prefix {p} after an I/O error in op {s} at file operation {n}: {}", f.detail)))?;
	}
	out.count(&format!("recovered_minus_synced:{}", (p as i64 - synced as i64).clamp(-1, 3)), 1);
	Ok(())
}

fn op_name(op: &Op) -> &'static str {
	match op {
		Op::P => "process_commits",
		Op::F => "flush_logs",
		Op::E => "enact_logs",
		Op::C => "clean_logs",
		Op::R => "process_reindex",
		Op::Drain => "drain",
		Op::Reopen => "reopen",
		_ => "other",
	}
}

pub fn run_fault_case(case: &FaultCase, dir: &Path, cap: usize) -> CaseResult {
	let mut out = CaseOut::default();
	let sc = &case.sc;
	let wrap = |s: usize, n: usize, f: Failure| if f.case_override.is_none() { f.with_case(&FaultCase { sc: sc.clone(), sample_seed: 0, only: Some((s, n)) }) } else { f };
	if let Some((s, n)) = case.only {
		guarded(|| check_fault_point(sc, s, n, dir, &mut out)).map_err(|f| wrap(s, n, f))?;
		out.nontrivial = n >= 1;
		return Ok(out)
	}
	let counts = count_io(sc, &dir.join("count"))?;
	let _ = std::fs::remove_dir_all(dir.join("count"));
	let mut points: Vec<(usize, usize)> = Vec::new();
	for (s, c) in counts.iter().enumerate() {
		if matches!(sc.ops[s], Op::Commit(_)) {
			continue
		}
		for n in 0..*c {
			points.push((s, n));
		}
	}
	let total = points.len();
	let mut rng = case.sample_seed;
	if total > cap {
		for i in 0..cap {
			rng = splitmix(rng);
			let j = i + (rng as usize) % (total - i);
			points.swap(i, j);
		}
		points.truncate(cap);
		out.label("fault-points-sampled");
	} else {
		out.label("fault-points-exhaustive");
	}
	out.count("fault_points_total", total as u64);
	for (s, n) in points {
		guarded(|| check_fault_point(sc, s, n, dir, &mut out)).map_err(|f| wrap(s, n, f))?;
		out.sub_evals += 1;
		if n >= 1 {
			out.sub_nontrivial += 1;
		}
		out.label(match &sc.ops[s] {
			Op::P => "fault-in:process_commits",
			Op::F => "fault-in:flush_logs",
			Op::E => "fault-in:enact_logs",
			Op::C => "fault-in:clean_logs",
			Op::R => "fault-in:process_reindex",
			Op::Drain => "fault-in:drain",
			Op::Reopen => "fault-in:reopen",
			_ => "fault-in:other",
		});
	}
	out.nontrivial = out.sub_nontrivial > 0;
	Ok(out)
}

fn fault_case() -> impl Strategy<Value = FaultCase> {
	(
		prop_oneof![3 => crash_scenario(3, 4, 12, true, 40_000).boxed(), 1 => super::c09::scenario(8, 200).boxed()],
		any::<u64>(),
	)
		.prop_map(|(sc, sample_seed)| FaultCase { sc, sample_seed, only: None })
}

/// Real worker threads and a real errno: inside the `pdbv_io` binary the interposed write /
/// fdatasync / fsync / msync / ftruncate / unlink / mmap calls on the database's files succeed
/// `fail_after` more times and then fail with EIO, on whatever thread they are made - also at
/// call sites the library's own injector does not wrap.
#[derive(Clone, Debug, Serialize, Deserialize)]
pub struct EioCase {
	/// only Commit ops
	pub sc: Scenario,
	pub fail_after: u16,
	pub pauses_us: Vec<u16>,
	/// only `write` fails, with ENOSPC (full disk): syncs, truncation and mapped stores work
	#[serde(default)]
	pub writes_only: bool,
}

fn eio_case() -> impl Strategy<Value = EioCase> {
	// one workload in four grows the index under the worker threads (C09's key sets)
	prop_oneof![3 => eio_case_plain().boxed(), 1 => (eio_case_plain(), super::c09::scenario(14, 200)).prop_map(|(mut c, g)| {
		let mut sc = g;
		sc.ops.retain(|o| matches!(o, Op::Commit(_)));
		sc.cfg.always_flush = true;
		c.sc = sc;
		c
	}).boxed()]
}

fn eio_case_plain() -> impl Strategy<Value = EioCase> {
	(mixed_cfg(2, false), prop_oneof![2 => 0u16..40, 3 => 40u16..400, 1 => 400u16..2000], proptest::collection::vec(prop_oneof![2 => Just(0u16), 2 => 1u16..500, 1 => 500u16..3000], 1..5), 0u8..3).prop_flat_map(
		|(mut cfg, fail_after, pauses_us, af)| {
			cfg.always_flush = af > 0;
			proptest::collection::vec(mixed_items(&cfg, 12, 20_000, 5, 0).prop_map(Op::Commit), 8..40).prop_map(move |ops| EioCase { sc: Scenario { cfg: cfg.clone(), ops }, fail_after: if fail_after % 3 == 0 { fail_after / 8 } else { fail_after }, pauses_us: pauses_us.clone(), writes_only: fail_after % 3 == 0 })
		},
	)
}

pub fn run_eio_case(case: &EioCase, dir: &Path) -> CaseResult {
	use crate::iotrack;
	let mut out = CaseOut::default();
	if !super::c12::iotrack_available() {
		fail!("harness-io", "the EIO sub-run of C16 must run inside the pdbv_io binary (syscall interposers missing)")
	}
	let sc = &case.sc;
	let work = dir.join("work");
	let shadow = dir.join("shadow");
	let _ = std::fs::remove_dir_all(&work);
	std::fs::create_dir_all(&work).map_err(|e| Failure::new("harness-io", e.to_string()))?;
	let _ = take_panics();
	// the tracker only serves to resolve msync addresses to files here
	iotrack::start(&work, &shadow, false);
	let mut it = Interp::new(&sc.cfg, &work, Interp::universe_of(sc));
	it.background = true;
	it.keep_prefix = true;
	it.check_every_op = false;
	let r: Res<(usize, usize, bool)> = (|| {
		it.open()?;
		it.fault_armed = true;
		iotrack::eio_arm(&work, case.fail_after as i64);
		iotrack::EIO_WRITES_ONLY.store(case.writes_only, std::sync::atomic::Ordering::SeqCst);
		let mut refused_at: Option<usize> = None;
		let mut accepted_after_refusal = None;
		let mut i = 0usize;
		for op in sc.ops.iter().filter(|o| matches!(o, Op::Commit(_))) {
			match it.step(op)? {
				StepOut::Faulted(_) =>
					if refused_at.is_none() {
						refused_at = Some(i);
					},
				_ =>
					if refused_at.is_some() && accepted_after_refusal.is_none() {
						accepted_after_refusal = Some(i);
					},
			}
			let p = case.pauses_us[i % case.pauses_us.len()];
			if p > 0 {
				std::thread::sleep(std::time::Duration::from_micros(p as u64));
			}
			i += 1;
		}
		if let (Some(a), Some(b)) = (refused_at, accepted_after_refusal) {
			fail!("commit-accepted-after-background-error", "commit {a} was refused with a background error but the later commit {b} was accepted")
		}
		// let the workers run into the fault / finish (bounded wait, not an oracle)
		let t0 = std::time::Instant::now();
		while t0.elapsed() < std::time::Duration::from_secs(5) {
			let st = it.db().verif_pipeline_state();
			// without always_flush the workers stop after logging
			if st.5 || (st.0 == 0 && (!sc.cfg.always_flush || (st.2 <= 0 && st.3 == 0 && !st.4))) {
				break
			}
			std::thread::sleep(std::time::Duration::from_millis(2));
		}
		// the failure must be reported: once a file call of a worker has failed, commits are
		// refused - at the latest after a worker has had to touch the files again (every call
		// fails from the first failure on, so no accepted commit can get anywhere)
		if iotrack::EIO_FAILED_CALLS.load(std::sync::atomic::Ordering::SeqCst) > 0 && refused_at.is_none() {
			let mut refused = false;
			for probe in sc.ops.iter().filter(|o| matches!(o, Op::Commit(_))).cycle().take(12) {
				if let StepOut::Faulted(_) = it.step(probe)? {
					refused = true;
					break
				}
				std::thread::sleep(std::time::Duration::from_millis(250));
			}
			if !refused {
				fail!("io-error-never-reported", "file calls of the workers fail with EIO (from the {}th on) but 12 further commits, 250 ms apart, were all accepted", case.fail_after)
			}
			refused_at = Some(i);
		}
		let errored = it.db().verif_pipeline_state().5;
		// reads keep returning what was accepted
		it.fault_armed = false;
		it.relaxed_dead = true;
		it.check_reads(false).map_err(|f| Failure::new(format!("after-io-error:{}", f.sig), format!("with EIO from the {}th file call on: {}", case.fail_after, f.detail)))?;
		Ok((it.committed, refused_at.unwrap_or(usize::MAX), errored))
	})();
	let (accepted, refused_at, errored) = match r {
		Ok(v) => v,
		Err(f) => {
			iotrack::eio_disarm();
			it.close();
			let _ = iotrack::stop();
			return Err(f)
		},
	};
	// drop with the fault still present: must return, must not panic
	let prefix = it.prefix.clone();
	let addr = it.addr.clone();
	let universe = it.universe.clone();
	let (tx, rx) = std::sync::mpsc::channel();
	let handle = std::thread::spawn(move || {
		it.close();
		drop(it);
		let _ = tx.send(());
	});
	let returned = rx.recv_timeout(std::time::Duration::from_secs(120)).is_ok();
	let failed_calls = iotrack::eio_disarm();
	let _ = iotrack::stop();
	if !returned {
		// the blocked helper thread is left behind
		fail!("drop-did-not-return-after-io-error", "dropping the handle did not return within 120 s with EIO from the {}th file call on (background error set: {errored})", case.fail_after)
	}
	let _ = handle.join();
	let panics = take_panics();
	if let Some(p) = panics.first() {
		fail!(format!("panic@{}", p.split(':').take(2).collect::<Vec<_>>().join(":")), "panic on some thread with EIO from the {}th file call on: {p}", case.fail_after)
	}
	let _ = std::fs::remove_dir_all(&shadow);
	// restart without the fault
	let info = ImageInfo {
		faulted: true,
		committed: accepted,
		synced: 0,
		cleaned: 0,
		cleaned_or_enacted: 0,
		last_enacted_record: 0,
		had_log: true,
		cut_inside: false,
		prefix,
		addr,
		universe,
		labels: Default::default(),
	};
	let sp = StopPoint { op: 0, n: 0, cut: None, recover_n: vec![] };
	let rec = recover_and_check(sc, &info, &sp, &work, dir, 0).map_err(|f| Failure::new(format!("eio:{}", f.sig), format!("restart after EIO from the {}th file call on ({accepted} commits accepted): {}", case.fail_after, f.detail)))?;
	let p = rec.prefix_index;
	if rec.candidates.len() == 1 {
		let mut it = rec.interp;
		let r: Res<()> = (|| {
			it.check_reads(true)?;
			for op in sc.ops.iter().take(2) {
				it.step(op)?;
			}
			it.step(&Op::Drain)?;
			it.check_reads(true)?;
			it.step(&Op::Reopen)?;
			it.check_reads(true)?;
			Ok(())
		})();
		r.map_err(|f| Failure::new(format!("eio:after-recovery:{}", f.sig), format!("recovered at prefix {p} after EIO from the {}th file call on: {}", case.fail_after, f.detail)))?;
	}
	out.count("eio_failed_calls", failed_calls);
	out.count(&format!("accepted_minus_recovered:{}", (accepted as i64 - p as i64).clamp(0, 4)), 1);
	if errored {
		out.label("background-error-reached");
	}
	if refused_at != usize::MAX {
		out.label("commit-refused");
	}
	out.label(if case.writes_only { "enospc-on-write-only" } else { "real-worker-threads-eio" });
	out.nontrivial = failed_calls > 0;
	Ok(out)
}

fn run(ctx: &Ctx) {
	if super::c12::iotrack_available() {
		let n = scaled(ctx, 320, 20_000);
		if !ctx.run_prop_shrink("eio-threads", n, 10, eio_case(), |c, dir| guarded(|| run_eio_case(c, dir))) {
			return
		}
	}
	let thorough = ctx.tier == "thorough";
	let cap = if thorough { 400 } else { 120 };
	let n = scaled(ctx, 56, 2_800);
	ctx.run_prop_shrink("faults", n, 60, fault_case(), |c, dir| run_fault_case(c, dir, cap));
}

fn replay(ctx: &Ctx, path: &Path) -> Result<(), Failure> {
	let v: serde_json::Value = serde_json::from_str(&std::fs::read_to_string(path).map_err(|e| Failure::new("bad-replay", e.to_string()))?).map_err(|e| Failure::new("bad-replay", e.to_string()))?;
	if v.get("sub").and_then(|s| s.as_str()) == Some("eio-threads") {
		let (_sub, c): (String, EioCase) = load_replay(path).map_err(|e| Failure::new("bad-replay", e))?;
		for _ in 0..10 {
			let dir = ctx.case_dir();
			guarded(|| run_eio_case(&c, &dir)).map(|_| ())?;
		}
		return Ok(())
	}
	let (_sub, c): (String, FaultCase) = load_replay(path).map_err(|e| Failure::new("bad-replay", e))?;
	let dir = ctx.case_dir();
	guarded(|| run_fault_case(&c, &dir, 400)).map(|_| ())
}
