//! Growth of the reference-count table of a multitree column (part of C10 / C14 / C02):
//! the table has 2^16 chunks of 32 entries addressed by a keyless siphash of the node address,
//! so a chunk only overflows - and the table only grows - when 33 *shared* nodes happen to
//! hash into one chunk. The base database therefore holds ~1M tiny nodes; the harness computes
//! the chunk of every node address and picks a chunk with >= 34 nodes. Referencing those nodes
//! from new trees creates the entries one by one and forces the growth 16 -> 17 bits.

use crate::{image::*, interp::*, layout, model::*, runner::*, spec::*};
use proptest::prelude::*;
use serde::{Deserialize, Serialize};
use std::{
	collections::HashMap,
	path::{Path, PathBuf},
};

pub struct Base {
	pub dir: PathBuf,
	pub cfg: DbCfg,
	pub model: Model,
	pub addr: HashMap<(u8, NodeId), u64>,
	/// nodes whose addresses share one chunk of the 16-bit reference-count table
	pub colliding: Vec<NodeId>,
	pub nodes: usize,
}

pub fn refcount_chunk(address: u64, bits: u8) -> u64 {
	use std::hash::Hasher;
	let mut hasher = siphasher::sip::SipHasher::new();
	hasher.write_u64(address);
	hasher.finish() >> (64 - bits)
}

/// Builds the base database (once per shard process).
pub fn build_base(dir: &Path) -> Res<Base> {
	let _ = std::fs::remove_dir_all(dir);
	let cfg = DbCfg::new(vec![ColCfg::multi()]);
	let mut it = Interp::new(&cfg, dir, vec![Default::default()]);
	it.check_every_op = false;
	it.open()?;
	let leaf = |s: u16| ChildSpec::New(TreeSpec { data: VSpec { len: 1, fill: 2, seed: s }, children: vec![] });
	let mut trees = 0u16;
	let mut colliding: Vec<NodeId> = Vec::new();
	while trees < 24 {
		let mid = |s: u16| ChildSpec::New(TreeSpec { data: VSpec { len: 1, fill: 2, seed: s }, children: (0..255).map(|j| leaf(s.wrapping_mul(7) + j)).collect() });
		let tree = TreeSpec { data: VSpec { len: 2, fill: 1, seed: trees }, children: (0..255).map(|i| mid(i + trees * 300)).collect() };
		it.step(&Op::Commit(vec![Item { col: 0, ch: Change::InsertTree(1000 + trees, tree) }]))?;
		it.step(&Op::Drain)?;
		trees += 1;
		if trees >= 14 {
			// chunk of every node address in the 16-bit table
			let mut by_chunk: HashMap<u64, Vec<NodeId>> = HashMap::new();
			for ((_, n), a) in it.addr.iter() {
				by_chunk.entry(refcount_chunk(*a, 16)).or_default().push(*n);
			}
			if let Some(v) = by_chunk.values().max_by_key(|v| v.len()) {
				if v.len() >= 35 {
					let mut v = v.clone();
					v.sort();
					colliding = v;
					break
				}
			}
		}
	}
	if colliding.len() < 35 {
		fail!("harness-setup", "could not find 35 node addresses in one reference-count chunk among {} nodes", it.addr.len())
	}
	it.step(&Op::Reopen)?;
	it.close();
	let nodes = it.addr.len();
	Ok(Base { dir: dir.to_path_buf(), cfg, model: it.model.clone(), addr: it.addr.clone(), colliding, nodes })
}

#[derive(Clone, Debug, Serialize, Deserialize)]
pub enum RgOp {
	/// new tree whose children are `count` of the colliding nodes starting at `from`
	Insert(u8, u8),
	/// dereference one of the new trees (selector)
	Deref(u16),
	Step(u8),
	Drain,
	Reopen,
}

#[derive(Clone, Debug, Serialize, Deserialize)]
pub struct RgCase {
	pub ops: Vec<RgOp>,
	/// crash: (op selector, file-operation selector)
	pub crash: Option<(u16, u16)>,
}

pub fn rg_case(with_crash: bool) -> BoxedStrategy<RgCase> {
	let op = prop_oneof![
		// mostly disjoint thirds of the colliding nodes, so that 33 distinct ones are referenced
		// (and the chunk overflows) after a few insertions
		6 => (0u8..3, 10u8..13).prop_map(|(f, c)| RgOp::Insert(f * 12, c)),
		3 => (0u8..36, 3u8..14).prop_map(|(f, c)| RgOp::Insert(f, c)),
		3 => any::<u16>().prop_map(RgOp::Deref),
		10 => (0u8..5).prop_map(RgOp::Step),
		1 => Just(RgOp::Drain),
		1 => Just(RgOp::Reopen),
	];
	let free = (proptest::collection::vec(op, 8..40), any::<u16>(), any::<u16>()).prop_map(move |(ops, a, b)| RgCase { ops, crash: if with_crash { Some((a, b)) } else { None } });
	if !with_crash {
		return free.boxed()
	}
	// scripted regime: the growth is completed (old table dropped) but no log file has been
	// reclaimed yet, a further transaction is logged and synced, and the crash hits while it is
	// applied (or at the next reopen): recovery has to get through the records of the growth
	let scripted = (proptest::collection::vec(0u8..5, 0..4), 0u8..36, 3u8..14, any::<u16>(), any::<bool>()).prop_map(|(extra, from, count, n, at_reopen)| {
		let mut ops = vec![RgOp::Insert(0, 12), RgOp::Insert(12, 12), RgOp::Insert(24, 12)];
		ops.extend([RgOp::Step(0), RgOp::Step(0), RgOp::Step(0), RgOp::Step(1), RgOp::Step(2)]);
		// reindex batch(es) and the drop of the old table, applied
		for _ in 0..3 {
			ops.extend([RgOp::Step(4), RgOp::Step(1), RgOp::Step(2)]);
		}
		ops.extend(extra.into_iter().filter(|s| *s != 3).map(RgOp::Step));
		ops.extend([RgOp::Insert(from, count), RgOp::Step(0), RgOp::Step(1)]);
		ops.push(if at_reopen { RgOp::Reopen } else { RgOp::Step(2) });
		// the crash selector addresses the last op
		RgCase { ops, crash: Some((u16::MAX, n)) }
	});
	prop_oneof![1 => free, 2 => scripted].boxed()
}

fn to_op(base: &Base, it: &Interp, op: &RgOp, next_root: &mut u16) -> Option<Op> {
	Some(match op {
		RgOp::Insert(from, count) => {
			let n = base.colliding.len();
			let children: Vec<ChildSpec> = (0..*count as usize).map(|i| ChildSpec::ExistingNode(base.colliding[(*from as usize + i) % n] as u32)).chain(std::iter::once(ChildSpec::New(TreeSpec { data: VSpec { len: 3, fill: 1, seed: *next_root }, children: vec![] }))).collect();
			let root = *next_root;
			*next_root += 1;
			Op::Commit(vec![Item { col: 0, ch: Change::InsertTree(root, TreeSpec { data: VSpec { len: 4, fill: 1, seed: root }, children }) }])
		},
		RgOp::Deref(sel) => {
			// only the new trees (root ids < 1000) are dereferenced
			let roots: Vec<u16> = match &it.model.cols[0] {
				ColModel::Multi(m) => m.roots.keys().cloned().filter(|r| *r < 1000).collect(),
				_ => vec![],
			};
			if roots.is_empty() {
				return None
			}
			Op::Commit(vec![Item { col: 0, ch: Change::DerefTreeKey(roots[pick(*sel, roots.len())]) }])
		},
		RgOp::Step(s) => match s {
			0 => Op::P,
			1 => Op::F,
			2 => Op::E,
			3 => Op::C,
			_ => Op::R,
		},
		RgOp::Drain => Op::Drain,
		RgOp::Reopen => Op::Reopen,
	})
}

fn refcount_files(dir: &Path) -> Vec<u8> {
	let mut v: Vec<u8> = file_sizes(dir).keys().filter_map(|n| n.strip_prefix("refcount_00_").and_then(|b| b.parse().ok())).collect();
	v.sort();
	v
}

fn new_interp(base: &Base, dir: &Path) -> Res<Interp> {
	copy_dir(&base.dir, dir).map_err(|e| Failure::new("harness-io", e.to_string()))?;
	// only the new trees are traversed after every op; the base forest is compared in full at
	// the end (traversal of ~1M nodes) and by the raw layout reader
	let mut it = Interp::new(&base.cfg, dir, vec![(0u16..60).collect()]);
	it.model = base.model.clone();
	it.addr = base.addr.clone();
	it.open()?;
	Ok(it)
}

fn final_checks(it: &mut Interp, out: &mut CaseOut, after_crash: bool) -> Res<()> {
	it.step(&Op::Drain)?;
	it.check_reads(true)?;
	let files = refcount_files(&it.dir);
	if files.len() > 1 {
		fail!("two-refcount-files-after-drain", "{} reference-count files remain after the pipeline was drained: {:?}", files.len(), files)
	}
	if files.last().map_or(false, |b| *b > 16) {
		out.label("refcount-table-grew");
	}
	// after a crash the known finding "claimed slots of a lost transaction are leaked" applies
	let rep = layout::check_dir_opts(&it.cfg, &it.dir, Some(it), after_crash).map_err(|e| Failure::new(format!("layout:{}", e.sig), e.detail))?;
	out.count("shared_nodes_at_end", rep.shared_nodes);
	if rep.claim_leaks > 0 {
		out.count("excluded_known:multitree-claimed-slots-leaked-by-crash", rep.claim_leaks);
	}
	if let (ColModel::Multi(m), Some(n)) = (&it.model.cols[0], it.num_entries(0)) {
		if n != m.live_entries() as u64 + rep.claim_leaks {
			fail!("entry-count-mismatch", "{n} entries, model {}", m.live_entries())
		}
	}
	Ok(())
}

pub fn run_case(base: &Base, case: &RgCase, dir: &Path) -> CaseResult {
	let mut out = CaseOut::default();
	let work = dir.join("work");
	let mut it = new_interp(base, &work)?;
	let mut next_root = 0u16;
	// crash variant: observations over the new roots after each accepted commit + the resolved
	// transactions (the models themselves are too large to keep per prefix)
	let mut obs_list: Vec<Obs> = vec![expected_obs(&it, &it.model)];
	let mut txs: Vec<Vec<(u8, RChange)>> = Vec::new();
	let crash_at = case.crash.map(|(a, _)| pick(a, case.ops.len()));
	let mut crashed: Option<PathBuf> = None;
	// transactions whose log record had been synced when the crash op started
	let mut synced_at_crash = 0usize;
	for (i, rop) in case.ops.iter().enumerate() {
		let op = match to_op(base, &it, rop, &mut next_root) {
			Some(o) => o,
			None => continue,
		};
		let two_before = refcount_files(&work).len() >= 2;
		if Some(i) == crash_at && !matches!(op, Op::Commit(_)) {
			// count the file operations of this op on a scratch copy? cheaper: arm with the selector
			// modulo a generous bound; beyond the op's operations it is the boundary after the op
			let n = case.crash.unwrap().1 as usize % 400;
			synced_at_crash = it.stages.synced;
			it.fault_armed = true;
			set_faults(n);
			let r = it.step(&op);
			set_faults(0);
			if let Err(f) = r {
				disarm();
				return Err(f)
			}
			let img = dir.join("img");
			copy_dir(&work, &img).map_err(|e| Failure::new("harness-io", e.to_string()))?;
			crashed = Some(img);
			out.label("crashed");
			break
		}
		if let Op::Commit(items) = &op {
			let tx = it.resolve(items);
			if let StepOut::Done = it.commit_resolved(&tx)? {
				txs.push(tx);
				obs_list.push(expected_obs(&it, &it.model));
				it.check_reads(false)?;
			}
		} else {
			it.step(&op)?;
		}
		let files = refcount_files(&work);
		if files.len() >= 2 && two_before {
			out.label("op-served-while-two-refcount-files");
		}
		if matches!(op, Op::Drain) {
			let files = refcount_files(&work);
			if files.len() > 1 {
				fail!("two-refcount-files-after-drain", "{:?}", files)
			}
		}
	}
	match crashed {
		None => {
			final_checks(&mut it, &mut out, false)?;
			it.step(&Op::Reopen)?;
			it.check_reads(true)?;
			// the whole base forest, once
			it.universe[0].extend(1000u16..1024);
			it.check_reads(false)?;
		},
		Some(img) => {
			drop(it);
			disarm();
			// recovery: the observation over the new roots must equal the one after some prefix
			let mut rec = Interp::new(&base.cfg, &img, vec![(0u16..60).collect()]);
			rec.model = base.model.clone();
			rec.addr = base.addr.clone();
			match rec.open() {
				Ok(_) => {},
				Err(f) => return Err(Failure::new(format!("recovery-{}", f.sig), f.detail)),
			}
			let obs = observe(&rec)?;
			let mut p = None;
			for (i, o) in obs_list.iter().enumerate().rev() {
				if *o == obs {
					p = Some(i);
					break
				}
			}
			let p = match p {
				Some(p) => p,
				None => fail!("recovered-state-not-a-prefix", "after a crash during reference-count growth the new trees match no prefix of the {} accepted transactions: {}", txs.len(), obs_brief(&obs)),
			};
			if p < synced_at_crash {
				fail!("recovered-state-too-old", "after a crash during reference-count growth the new trees equal prefix {p} but {synced_at_crash} transactions had been synced before the crash ({} accepted)", txs.len())
			}
			// rebuild the model of that prefix (the models themselves are too large to keep per
			// prefix): base model + the first p resolved transactions. Node ids are allocated in the
			// same order; only base nodes are ever referenced by address afterwards.
			let mut m = base.model.clone();
			for tx in txs.iter().take(p) {
				for (c, ch) in tx {
					m.apply(&base.cfg, *c, ch);
				}
			}
			rec.model = m;
			rec.addr = base.addr.clone();
			rec.committed = p;
			// Index / ref-count growth only resumes once a record has been enacted in this session
			// (process_reindex waits for next_reindex <= last_enacted, and last_enacted is 0 when
			// the only replayed record was rejected): make sure there is one.
			rec.step(&Op::Commit(vec![Item { col: 0, ch: Change::InsertTree(59, TreeSpec { data: VSpec { len: 2, fill: 1, seed: 9 }, children: vec![] }) }]))?;
			final_checks(&mut rec, &mut out, true)?;
			// dereference every new tree: all counts go back, nothing of the new trees remains
			let roots: Vec<u16> = match &rec.model.cols[0] {
				ColModel::Multi(m) => m.roots.keys().cloned().filter(|r| *r < 1000).collect(),
				_ => vec![],
			};
			for r in roots {
				rec.step(&Op::Commit(vec![Item { col: 0, ch: Change::DerefTreeKey(r) }]))?;
			}
			final_checks(&mut rec, &mut out, true)?;
			rec.step(&Op::Reopen)?;
			rec.check_reads(true)?;
		},
	}
	out.nontrivial = out.labels.contains("refcount-table-grew") || out.labels.contains("op-served-while-two-refcount-files");
	Ok(out)
}

