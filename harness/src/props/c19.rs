//! C19 Index page search never misses a matching entry.

use super::*;
use crate::{interp::*, runner::*, spec::splitmix};
use proptest::prelude::*;
use serde::{Deserialize, Serialize};
use std::path::Path;

pub fn def() -> PropDef {
	PropDef {
		id: "C19",
		level: "exploration",
		rule: "(enumerated) index_bits 16..=49 x start position 0..=64 x 40 deterministic page templates x 6 key classes; (generated) index_bits x position x 64 slots drawn from {empty, random, exact match of the key, one-bit near miss of the partial key, match only in the bits the vectorised path compares (differs in the low partial-key bits dropped at 16/17 index bits), zero partial key with non-zero address, duplicate of the previous slot} x keys {random, derived from a slot, zero partial key, zero fast-path bits with non-zero dropped bits}. Both the production (SSE2) search and the scalar reference are called through the verif_find_entry hook on the generated page. Oracle: with F = slots >= p, non-empty, equal to the key on the compared bits and E (subset of F) the exact matches: a returned slot is in F, holds the returned entry, no exact match precedes it, and equals min F when the compared pattern is non-zero; 'absent' only if E is empty (and F is empty when the pattern is non-zero); scalar result == min E; never a slot < p or an empty slot. Non-trivial = page with >=2 candidate slots, or F != E, or p not a multiple of 4; distinct = distinct case fingerprints",
		assumptions: &["the hook calls the same two private functions the index uses (find_entry = SSE2 on x86_64, find_entry_base)"],
		run,
		replay,
		shards: default_shards,
		watchdog_s: default_watchdog,
		engine: 0,
	}
}

#[derive(Clone, Debug, Serialize, Deserialize)]
pub struct PageCase {
	pub bits: u8,
	pub pos: u8,
	/// 0 random, 1 zero partial key, 2 zero compared bits / non-zero dropped bits, 3 copy of slot `key_rnd % 64`
	pub key_kind: u8,
	pub key_rnd: u64,
	/// (kind, randomness) per slot
	pub slots: Vec<(u8, u64)>,
}

fn address_bits(bits: u8) -> u32 {
	bits as u32 + 6 + 8
}

fn build(case: &PageCase) -> (u64, [u8; 512], Vec<u64>) {
	let bits = case.bits;
	let ab = address_bits(bits);
	let shift = ab.max(32);
	let pk_bits = 64 - ab; // width of the partial key
	let dropped = shift - ab; // low partial-key bits the fast path ignores
	// key prefix: top `bits` bits = chunk (irrelevant for the page search), then partial key
	let chunk = splitmix(case.key_rnd ^ 0x55) >> (64 - bits as u32);
	let mut partial = splitmix(case.key_rnd) & ((1u64 << pk_bits) - 1);
	match case.key_kind {
		1 => partial = 0,
		2 => {
			if dropped > 0 {
				partial &= (1u64 << dropped) - 1;
				if partial == 0 {
					partial = 1;
				}
			} else {
				partial = 0;
			}
		},
		_ => {},
	}
	let mut entries = Vec::with_capacity(64);
	for (i, (kind, rnd)) in case.slots.iter().enumerate().take(64) {
		let addr_mask = (1u64 << ab) - 1;
		let addr = (splitmix(*rnd) & addr_mask).max(1);
		let e = match kind % 7 {
			0 => 0,
			1 => splitmix(*rnd ^ 0xabc),
			2 => (partial << ab) | addr,
			3 => {
				// agree on the compared bits, differ in the dropped ones (if any)
				let p = if dropped > 0 { partial ^ (1 + (rnd % ((1u64 << dropped) - 1).max(1))) } else { partial };
				(p << ab) | addr
			},
			4 => addr,
			6 => {
				// near miss: exactly one bit of the partial key differs
				let p = partial ^ (1u64 << (rnd % pk_bits as u64));
				(p << ab) | addr
			},
			_ => {
				if i > 0 {
					entries[i - 1]
				} else {
					0
				}
			},
		};
		entries.push(e);
	}
	while entries.len() < 64 {
		entries.push(0);
	}
	if case.key_kind == 3 {
		let e = entries[(case.key_rnd % 64) as usize];
		partial = e >> ab;
	}
	let key_prefix = if bits == 64 { 0 } else { (chunk << (64 - bits as u32)) | (partial << (64 - bits as u32 - pk_bits)) };
	let mut page = [0u8; 512];
	for (i, e) in entries.iter().enumerate() {
		page[i * 8..i * 8 + 8].copy_from_slice(&e.to_le_bytes());
	}
	(key_prefix, page, entries)
}

pub fn check_case(case: &PageCase, _dir: &Path) -> CaseResult {
	let bits = case.bits;
	if !(16..=49).contains(&bits) || case.pos > 64 {
		return Ok(CaseOut::default())
	}
	let (key_prefix, page, entries) = build(case);
	check_raw(bits, case.pos as usize, key_prefix, &page, &entries)
}

/// The oracle on an arbitrary page (also used by the libFuzzer target).
pub fn check_raw(bits: u8, p: usize, key_prefix: u64, page: &[u8; 512], entries: &[u64]) -> CaseResult {
	let mut out = CaseOut::default();
	let page = *page;
	let ab = address_bits(bits);
	let shift = ab.max(32);
	let exact_pk = (key_prefix << bits) >> ab;
	let fast_pk = ((key_prefix << bits) >> shift) as u32;
	let f: Vec<usize> = (p..64).filter(|i| entries[*i] != 0 && ((entries[*i] >> shift) as u32) == fast_pk).collect();
	let e: Vec<usize> = (p..64).filter(|i| entries[*i] != 0 && (entries[*i] >> ab) == exact_pk).collect();
	let (fe, fs) = parity_db::verif_find_entry(bits, key_prefix, p, &page, true);
	let (se, ss) = parity_db::verif_find_entry(bits, key_prefix, p, &page, false);
	let ctx = || format!("bits {bits} pos {p} key_prefix {key_prefix:#018x} F {:?} E {:?}", f, e);
	// scalar reference
	match e.first() {
		Some(m) =>
			if se != entries[*m] || ss != *m {
				fail!("scalar-search-wrong", "scalar search returned ({se:#x},{ss}) expected slot {m}; {}", ctx())
			},
		None =>
			if se != 0 {
				fail!("scalar-search-wrong", "scalar search returned ({se:#x},{ss}) but no exact match exists; {}", ctx())
			},
	}
	// fast path
	if fe != 0 {
		if fs < p {
			fail!("fast-search-slot-before-start", "fast search returned slot {fs} < start {p}; {}", ctx())
		}
		if fs >= 64 || entries[fs] != fe {
			fail!("fast-search-entry-mismatch", "fast search returned entry {fe:#x} which is not the content of slot {fs}; {}", ctx())
		}
		if !f.contains(&fs) {
			fail!("fast-search-non-matching-slot", "fast search returned slot {fs} which does not match the compared bits (or is empty); {}", ctx())
		}
		if e.first().map_or(false, |m| *m < fs) {
			fail!("fast-search-skipped-exact-match", "fast search returned slot {fs} although slot {} is an exact match; {}", e[0], ctx())
		}
		if fast_pk != 0 && f[0] != fs {
			fail!("fast-search-not-first", "fast search returned slot {fs} but the first matching slot is {}; {}", f[0], ctx())
		}
	} else {
		if !e.is_empty() {
			fail!("fast-search-missed-match", "fast search reports absent although slot {} matches exactly; {}", e[0], ctx())
		}
		if fast_pk != 0 && !f.is_empty() {
			fail!("fast-search-missed-match", "fast search reports absent although slot {} matches the compared bits; {}", f[0], ctx())
		}
	}
	out.nontrivial = f.len() >= 2 || f != e || p % 4 != 0;
	if f != e {
		out.label("F!=E");
	}
	if f.len() >= 2 {
		out.label(">=2-candidates");
	}
	if p % 4 != 0 {
		out.label("unaligned-start");
	}
	if fast_pk == 0 {
		out.label("zero-pattern-fallback");
	}
	if fe == 0 {
		out.label("absent");
	}
	Ok(out)
}

fn page_case() -> impl Strategy<Value = PageCase> {
	(
		16u8..=49,
		prop_oneof![8 => 0u8..64, 1 => Just(64u8), 2 => (0u8..16).prop_map(|x| x * 4)],
		prop_oneof![4 => Just(0u8), 2 => Just(1u8), 2 => Just(2u8), 4 => Just(3u8)],
		any::<u64>(),
		// a per-page mix: mostly empty / mostly full / mixed
		(0u8..3).prop_flat_map(|density| {
			let kind = match density {
				0 => prop_oneof![10 => Just(0u8), 2 => Just(1u8), 2 => Just(2u8), 2 => Just(3u8), 1 => Just(4u8), 1 => Just(5u8), 2 => Just(6u8)].boxed(),
				1 => prop_oneof![1 => Just(0u8), 10 => Just(1u8), 2 => Just(2u8), 2 => Just(3u8), 1 => Just(4u8), 2 => Just(5u8), 3 => Just(6u8)].boxed(),
				_ => prop_oneof![3 => Just(0u8), 3 => Just(1u8), 3 => Just(2u8), 3 => Just(3u8), 2 => Just(4u8), 2 => Just(5u8), 4 => Just(6u8)].boxed(),
			};
			proptest::collection::vec((kind, any::<u64>()), 64..=64)
		}),
	)
		.prop_map(|(bits, pos, key_kind, key_rnd, slots)| PageCase { bits, pos, key_kind, key_rnd, slots })
}

fn run(ctx: &Ctx) {
	// enumerated part: bits x position x templates x key kinds, split over shards
	let mut idx = 0u64;
	let mut ok = true;
	'outer: for bits in 16u8..=49 {
		for pos in 0u8..=64 {
			idx += 1;
			if idx % ctx.shards != ctx.shard {
				continue
			}
			for template in 0u64..40 {
				for key_kind in 0u8..4 {
					let slots: Vec<(u8, u64)> = (0..64u64)
						.map(|i| {
							let r = splitmix(template * 1000 + i);
							// template t: slot kinds follow a pattern depending on t
							let kind = match template % 8 {
								0 => 0,
								1 => (r % 6) as u8,
								2 => if i % 4 == (template / 8) % 4 { 2 } else { 1 },
								3 => if i == (template * 7) % 64 { 2 } else { 0 },
								4 => if i % 3 == 0 { 3 } else if i % 3 == 1 { 6 } else { 2 },
								5 => if i < 32 { 4 } else { 3 },
								6 => if i >= 60 { 2 } else { 1 },
								_ => if r % 3 == 0 { 5 } else { (r % 5) as u8 },
							};
							(kind, r)
						})
						.collect();
					let case = PageCase { bits, pos, key_kind, key_rnd: splitmix(template + bits as u64 * 64 + pos as u64), slots };
					// enumerated cases are counted in bulk to keep the run cheap
					match guarded(|| check_case(&case, Path::new("/"))) {
						Ok(o) => {
							let mut rep = ctx.report.borrow_mut();
							rep.evaluations += 1;
							rep.cases += 1;
							if o.nontrivial {
								rep.nontrivial_cases += 1;
								rep.fps.insert(fingerprint(&(bits, pos, template, key_kind)));
							}
							for l in o.labels {
								*rep.labels.entry(l).or_insert(0) += 1;
							}
						},
						Err(f) => {
							ctx.record_failure("enum", &case, &f);
							ok = false;
							break 'outer
						},
					}
				}
			}
		}
	}
	if !ok {
		return
	}
	ctx.report.borrow_mut().exhaustive = true;
	ctx.rule("enum sub-run: exhaustive over index_bits 16..=49 x start 0..=64 x 40 page templates x 4 key classes");
	let n = scaled(ctx, 1_500_000, 150_000_000);
	ctx.run_prop("pages", n, page_case(), check_case);
}

fn replay(_ctx: &Ctx, path: &Path) -> Result<(), Failure> {
	let (_sub, c): (String, PageCase) = load_replay(path).map_err(|e| Failure::new("bad-replay", e))?;
	guarded(|| check_case(&c, Path::new("/"))).map(|_| ())
}
