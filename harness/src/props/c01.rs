//! C01 Hash columns are a key-value map at every stage of the write pipeline.

use super::*;
use crate::{gen::*, interp::*, runner::*, spec::*};
use proptest::prelude::*;

pub fn def() -> PropDef {
	PropDef {
		id: "C01",
		level: "exploration",
		rule: "generated scenarios: 1-3 hash columns (hashed/uniform/preimage x none/lz4/snappy x threshold 0/default/max), 10-60 ops of multi-column transactions (repeated keys, removals), single pipeline steps P/F/E/C/R in any order, drain and clean reopen; after every op every key of the universe is read (get + get_size) and compared with a map model. Non-trivial = at some check instant >=2 commits sit at >=2 different pipeline stages, or a reopen happens with a non-empty queue; distinct = distinct case fingerprints",
		assumptions: &[
			"stepping API of the repository's own `instrumentation` feature drives the pipeline (no worker threads) except in the `bg` sub-run",
			"preimage columns are only given value = f(key), as the preimage contract requires",
			"uniform columns with the all-zero salt (identity hash, instrumentation only) get exactly 32-byte keys",
		],
		run,
		replay,
		shards: default_shards,
		watchdog_s: default_watchdog,
		engine: 0,
	}
}

pub fn hash_cfg() -> impl Strategy<Value = DbCfg> {
	(proptest::collection::vec(hash_col(), 1..=3), prop_oneof![5 => Just(false), 1 => Just(true)], prop_oneof![2 => Just(0x1200u16), 1 => Just(0xffffu16), 1 => Just(0u16)], 0u8..4).prop_map(
		|(mut cols, zero_salt, page, bits)| {
			if zero_salt {
				for (i, c) in cols.iter_mut().enumerate() {
					if c.uniform {
						c.keyset = KeySet::Crafted { page: if page == 0x1200 { page + i as u16 } else { page } };
					}
				}
			}
			DbCfg { cols, zero_salt, sync_wal: true, sync_data: true, always_flush: false, salt_from_meta: false, stats: false }.flags(bits)
		},
	)
}

pub fn items(ncols: usize, nkeys: u16, big: u32, max_items: usize) -> impl Strategy<Value = Vec<Item>> {
	proptest::collection::vec((0..ncols as u8, map_change(nkeys, big)).prop_map(|(col, ch)| Item { col, ch }), 1..=max_items)
}

pub fn scenario(max_ops: usize, big: u32) -> impl Strategy<Value = Scenario> {
	hash_cfg().prop_flat_map(move |cfg| {
		let n = cfg.cols.len();
		let op = prop_oneof![
			10 => items(n, 24, big, 12).prop_map(Op::Commit),
			10 => stage_op(),
			1 => Just(Op::Reopen),
			1 => Just(Op::Drain),
		];
		(proptest::collection::vec(op, 10..=max_ops), prop_oneof![11 => Just(0u8), 1 => 8u8..=15]).prop_map(move |(ops, pad)| {
			let mut sc = Scenario { cfg: cfg.clone(), ops };
			// one history in twelve on a wide database: the data columns get ids 8-17
			crate::gen::widen(&mut sc, pad);
			sc
		})
	})
}

pub fn bg_scenario() -> impl Strategy<Value = Scenario> {
	(hash_cfg(), 0u8..3).prop_flat_map(move |(mut cfg, af)| {
		// mostly with every log file applied at once, so that the workers really move the data
		// through all stages while the client keeps committing and reading
		cfg.always_flush = af > 0;
		let n = cfg.cols.len();
		let op = prop_oneof![
			12 => items(n, 24, 40_000, 12).prop_map(Op::Commit),
			1 => Just(Op::Reopen),
		];
		proptest::collection::vec(op, 10..=60).prop_map(move |ops| Scenario { cfg: cfg.clone(), ops })
	})
}

pub fn run_scenario(sc: &Scenario, dir: &std::path::Path, background: bool) -> CaseResult {
	let mut it = Interp::new(&sc.cfg, dir, Interp::universe_of(sc));
	it.background = background;
	it.open()?;
	for op in &sc.ops {
		it.step(op)?;
	}
	let nontrivial = it.labels.contains("multi-stage") || it.labels.contains("reopen-with-queue");
	// final: clean close and reopen shows everything
	it.step(&Op::Reopen)?;
	it.check_reads(true)?;
	let mut out = CaseOut::default();
	for l in &it.labels {
		out.label(l);
	}
	out.nontrivial = nontrivial;
	if background {
		out.nontrivial = sc.ops.iter().filter(|o| matches!(o, Op::Commit(_))).count() >= 2;
		out.label("background-workers");
	}
	for c in &sc.cfg.cols {
		if c.uniform {
			out.label("col-uniform");
		}
		if c.preimage {
			out.label("col-preimage");
		}
		if c.compression != 0 {
			out.label("col-compressed");
		}
	}
	if sc.cfg.cols.len() >= 9 {
		out.label("wide-database-column-ids-8-to-17");
	}
	if sc.cfg.salt_from_meta {
		out.label("salt-from-metadata");
	}
	if sc.cfg.stats {
		out.label("stats-on");
	}
	if sc.cfg.zero_salt {
		out.label("zero-salt");
	}
	out.count("point_reads", it.reads);
	out.count("transactions_through_Db_commit", it.via_commit_api.get());
	out.count("ops", sc.ops.len() as u64);
	Ok(out)
}

/// Any scenario with the library's own worker threads: only its commits and reopens are kept
/// (the workers drive the pipeline), `always_flush` per the selector.
pub fn run_scenario_workers(sc: &Scenario, dir: &std::path::Path) -> CaseResult {
	let mut sc = sc.clone();
	sc.ops.retain(|o| matches!(o, Op::Commit(_) | Op::Reopen));
	sc.cfg.always_flush = sc.ops.len() % 3 != 0;
	run_scenario(&sc, dir, true)
}

fn run(ctx: &Ctx) {
	let n = scaled(ctx, 8_000, 150_000);
	if !ctx.run_prop("step", n, scenario(60, 40_000), |sc, dir| run_scenario(sc, dir, false)) {
		return
	}
	if ctx.tier == "thorough" {
		let n = scaled(ctx, 0, 20_000);
		if !ctx.run_prop("long", n, scenario(200, 1 << 20), |sc, dir| run_scenario(sc, dir, false)) {
			return
		}
	}
	let n = scaled(ctx, 400, 10_000);
	ctx.run_prop("bg", n, bg_scenario(), |sc, dir| run_scenario(sc, dir, true));
}

fn replay(ctx: &Ctx, path: &std::path::Path) -> Result<(), Failure> {
	let (sub, sc): (String, Scenario) = load_replay(path).map_err(|e| Failure::new("bad-replay", e))?;
	let dir = ctx.case_dir();
	guarded(|| run_scenario(&sc, &dir, sub == "bg")).map(|_| ())
}
