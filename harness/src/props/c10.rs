//! C10 A committed tree reads back exactly; shared nodes live until unreferenced.

use super::*;
use crate::{gen::*, interp::*, layout, model::*, runner::*, spec::*};
use proptest::prelude::*;
use std::path::Path;

pub fn def() -> PropDef {
	PropDef {
		id: "C10",
		level: "exploration",
		rule: "generated histories on a multitree column of variant {default, append_only, ref-counted roots, direct node access}: InsertTree (fresh root key; shapes of depth <= 4, fan-out mostly 0-6, sometimes 40 and 255, and unrepresentable 256 / 300; node data 0-100 bytes, sometimes 5000 and 40000 = multipart), children New or Existing(address of a node of a live tree, same node possibly several times), ReferenceTree, DereferenceTree of a live root, single pipeline steps, drain, reopen. Oracle after every op: every live root resolves and a full traversal under the reader lock reproduces data and child order of the model forest (Existing children resolve to the named nodes - addresses are learned, only required to be consistent); dead roots do not resolve once all commits are logged; an insertion with fan-out > 255 must return Err and leave no trace; direct-access variants are also read through Db::get_root/get_node; after every drain the raw layout reader compares forest, node reference counts (== referencing parents) and slot accounting with the model and the entry count API equals live nodes + live roots (0 when no tree is live). Non-trivial = a dereference removed a tree sharing >=1 node with a tree that stays live, or a node is referenced twice; distinct = distinct case fingerprints",
		assumptions: &[
			"Existing(a) only names nodes of trees live in the model after all previously returned commits, and never in a transaction that also dereferences a tree of that column (client contract, as admin/multitree_bench)",
			"live root keys are distinct (an InsertTree never targets a live root key)",
		],
		run,
		replay,
		shards: default_shards,
		watchdog_s: default_watchdog,
		engine: 0,
	}
}

fn oversize_tree() -> impl Strategy<Value = TreeSpec> {
	(prop_oneof![Just(256usize), Just(300usize)], 0u16..100, any::<bool>()).prop_map(|(n, seed, nested)| {
		let leaf = |i: usize| ChildSpec::New(TreeSpec { data: VSpec { len: 3, fill: 1, seed: seed + i as u16 }, children: vec![] });
		let big = TreeSpec { data: VSpec { len: 7, fill: 1, seed }, children: (0..n).map(leaf).collect() };
		if nested {
			// the unrepresentable node sits below a normal root
			TreeSpec { data: VSpec { len: 4, fill: 1, seed }, children: vec![leaf(0), ChildSpec::New(big)] }
		} else {
			big
		}
	})
}

pub fn scenario(max_ops: usize) -> impl Strategy<Value = Scenario> {
	(0u8..4, 0u8..4).prop_flat_map(move |(variant, bits)| {
		let mut col = ColCfg::multi();
		match variant {
			1 => col.append_only = true,
			2 => {
				col.rc = true;
				col.preimage = true;
			},
			3 => col.direct = true,
			_ => {},
		}
		let rc = col.rc;
		let ao = col.append_only;
		let cfg = DbCfg::new(vec![col]).flags(bits);
		let ins = (0u16..40, tree_spec(4, true)).prop_map(|(k, t)| Change::InsertTree(k, t));
		let over = (0u16..40, oversize_tree()).prop_map(|(k, t)| Change::InsertTree(k, t));
		let one = |s: BoxedStrategy<Change>| s.prop_map(|ch| vec![Item { col: 0, ch }]).boxed();
		let change: BoxedStrategy<Vec<Item>> = if ao {
			prop_oneof![8 => one(ins.boxed()), 1 => one(over.boxed())].boxed()
		} else if rc {
			prop_oneof![
				6 => one(ins.boxed()),
				1 => one(over.boxed()),
				2 => one(any::<u16>().prop_map(Change::RefTree).boxed()),
				4 => one(any::<u16>().prop_map(Change::DerefTree).boxed()),
				1 => (any::<u16>(), any::<u16>()).prop_map(|(a, b)| vec![Item { col: 0, ch: Change::DerefTree(a) }, Item { col: 0, ch: Change::DerefTree(b) }]),
			]
			.boxed()
		} else {
			prop_oneof![
				6 => one(ins.boxed()),
				1 => one(over.boxed()),
				4 => one(any::<u16>().prop_map(Change::DerefTree).boxed()),
				1 => (any::<u16>(), any::<u16>()).prop_map(|(a, b)| vec![Item { col: 0, ch: Change::DerefTree(a) }, Item { col: 0, ch: Change::DerefTree(b) }]),
			]
			.boxed()
		};
		let op = prop_oneof![
			10 => change.prop_map(Op::Commit),
			8 => stage_op(),
			2 => Just(Op::Drain),
			1 => Just(Op::Reopen),
		];
		proptest::collection::vec(op, 6..=max_ops).prop_map(move |ops| Scenario { cfg: cfg.clone(), ops })
	})
}

fn max_fanout(t: &RTree) -> usize {
	t.children
		.iter()
		.map(|c| match c {
			RChild::New(t) => max_fanout(t),
			_ => 0,
		})
		.max()
		.unwrap_or(0)
		.max(t.children.len())
}

fn drain_checks(it: &Interp, out: &mut CaseOut) -> Res<()> {
	let rep = layout::check_dir(&it.cfg, &it.dir, Some(it)).map_err(|e| Failure::new(format!("layout:{}", e.sig), e.detail))?;
	if rep.shared_nodes > 0 {
		out.label("node-referenced-twice");
	}
	if rep.multipart_values > 0 {
		out.label("multipart-node");
	}
	if let (ColModel::Multi(m), Some(n)) = (&it.model.cols[0], it.num_entries(0)) {
		let want = m.live_entries() as u64;
		if n != want {
			fail!("entry-count-mismatch", "get_num_column_value_entries = {n}, model has {} live nodes + {} live roots", m.live_nodes(), m.roots.len())
		}
		if want == 0 {
			out.label("all-trees-gone-zero-entries");
		}
	}
	Ok(())
}

pub fn run_scenario(sc: &Scenario, dir: &Path) -> CaseResult {
	run_scenario_mode(sc, dir, false)
}

/// background = the library's own worker threads (always_flush in two thirds of the cases)
/// drive the pipeline; the stage ops of the history are skipped then.
pub fn run_scenario_mode(sc: &Scenario, dir: &Path, background: bool) -> CaseResult {
	let mut out = CaseOut::default();
	let mut cfg = sc.cfg.clone();
	cfg.always_flush = background && sc.ops.len() % 3 != 0;
	let mut it = Interp::new(&cfg, dir, Interp::universe_of(sc));
	it.background = background;
	it.open()?;
	let trace = std::env::var("PDBV_TRACE_OPS").is_ok();
	for (opi, op) in sc.ops.iter().enumerate() {
		if background && matches!(op, Op::P | Op::F | Op::E | Op::C | Op::R | Op::Drain) {
			continue
		}
		if trace {
			eprintln!("op {opi}: {}", serde_json::to_string(op).unwrap_or_default().chars().take(300).collect::<String>());
		}
		if let Op::Commit(items) = op {
			let tx = it.resolve(items);
			let oversize = tx.iter().any(|(_, ch)| matches!(ch, RChange::InsertTree(_, t) if max_fanout(t) > 255));
			// would this dereference remove a tree that shares nodes with a surviving one?
			if let ColModel::Multi(m) = &it.model.cols[0] {
				for (_, ch) in &tx {
					if let RChange::DerefTree(r) = ch {
						if m.roots.get(r).map_or(false, |x| x.0 == 1) {
							let mine: std::collections::BTreeSet<_> = m.reachable_of(*r).into_iter().collect();
							if m.roots.keys().filter(|o| *o != r).any(|o| m.reachable_of(*o).iter().any(|n| mine.contains(n))) {
								out.label("deref-of-tree-sharing-nodes-with-live-tree");
							}
						}
					}
				}
			}
			if oversize {
				it.allow_reject = true;
				let r = it.commit_resolved(&tx);
				it.allow_reject = false;
				match r? {
					StepOut::Rejected(_) => {
						out.label("oversize-node-rejected");
						// no trace: the model is unchanged and must still match
						it.check_reads(false)?;
					},
					_ => fail!("oversize-node-accepted", "InsertTree with a node of more than 255 children returned Ok: {}", tx_brief(&tx)),
				}
				continue
			}
			if let StepOut::Done = it.commit_resolved(&tx)? {
				it.check_reads(false)?;
			}
			continue
		}
		it.step(op)?;
		if matches!(op, Op::Drain) {
			drain_checks(&it, &mut out)?;
		}
	}
	if background {
		// continue without worker threads for the final checks
		it.background = false;
		it.cfg.always_flush = false;
		it.step(&Op::Reopen)?;
		out.label("background-workers");
	}
	it.step(&Op::Drain)?;
	it.check_reads(true)?;
	drain_checks(&it, &mut out)?;
	it.step(&Op::Reopen)?;
	it.check_reads(true)?;
	drain_checks(&it, &mut out)?;
	out.excluded_known_count(it.excluded_known.get());
	let c = &sc.cfg.cols[0];
	out.label(if c.append_only {
		"variant-append-only"
	} else if c.rc {
		"variant-rc-roots"
	} else if c.direct {
		"variant-direct"
	} else {
		"variant-default"
	});
	for l in &it.labels {
		out.label(l);
	}
	out.nontrivial = out.labels.contains("deref-of-tree-sharing-nodes-with-live-tree") || out.labels.contains("node-referenced-twice");
	Ok(out)
}

fn run(ctx: &Ctx) {
	// quick: shards 0-5 spend their time on the reference-count growth sub-runs (the base
	// database costs ~1 min to build), the other shards share the tree histories
	let growth_shard = ctx.tier != "thorough" && ctx.shard < 6 && ctx.shards > 6;
	let n = if ctx.tier == "thorough" || ctx.shards <= 6 { scaled(ctx, 4_000, 60_000) } else { (4_000 / (ctx.shards - 6)) as u32 + 1 };
	if !growth_shard && !ctx.run_prop("trees", n, scenario(40), run_scenario) {
		return
	}
	if ctx.tier == "thorough" {
		let n = scaled(ctx, 0, 10_000);
		if !ctx.run_prop("trees-long", n, scenario(150), run_scenario) {
			return
		}
	}
	if !growth_shard {
		// the same histories with the library's own worker threads
		let n = scaled(ctx, 300, 5_000);
		if !ctx.run_prop("trees-bg", n, scenario(40), |sc, dir| run_scenario_mode(sc, dir, true)) {
			return
		}
	}
	// growth of the reference-count table: needs a base database of ~1M nodes (built once per
	// shard), so only a small slice runs in the quick tier
	if ctx.tier == "thorough" || growth_shard || std::env::var("PDBV_ONLY_SUB").is_ok() {
		let base_dir = ctx.scratch.join("refgrow-base");
		let base = match guarded(|| super::refgrow::build_base(&base_dir)) {
			Ok(b) => b,
			Err(f) => {
				ctx.note(&format!("refcount growth sub-run skipped: base database could not be built: {} {}", f.sig, f.detail));
				return
			},
		};
		ctx.note(&format!("refcount growth base: {} nodes, {} node addresses in the chosen chunk", base.nodes, base.colliding.len()));
		let n = if ctx.tier == "thorough" { scaled(ctx, 0, 400) } else { 3 };
		if !ctx.run_prop_shrink("refcount-growth", n, 30, super::refgrow::rg_case(false), |c, dir| super::refgrow::run_case(&base, c, dir)) {
			return
		}
		let n = if ctx.tier == "thorough" { scaled(ctx, 0, 400) } else { 5 };
		ctx.run_prop_shrink("refcount-growth-crash", n, 30, super::refgrow::rg_case(true), |c, dir| super::refgrow::run_case(&base, c, dir));
		let _ = std::fs::remove_dir_all(&base_dir);
	}
}

fn replay(ctx: &Ctx, path: &Path) -> Result<(), Failure> {
	let v: serde_json::Value = serde_json::from_str(&std::fs::read_to_string(path).map_err(|e| Failure::new("bad-replay", e.to_string()))?)
		.map_err(|e| Failure::new("bad-replay", e.to_string()))?;
	if v.get("sub").and_then(|s| s.as_str()) == Some("trees-bg") {
		let (_s, sc): (String, Scenario) = load_replay(path).map_err(|e| Failure::new("bad-replay", e))?;
		for _ in 0..20 {
			guarded(|| run_scenario_mode(&sc, &ctx.case_dir(), true)).map(|_| ())?;
		}
		return Ok(())
	}
	if v.get("sub").and_then(|s| s.as_str()).map_or(false, |s| s.starts_with("refcount-growth")) {
		let (_s, case): (String, super::refgrow::RgCase) = load_replay(path).map_err(|e| Failure::new("bad-replay", e))?;
		let base_dir = ctx.scratch.join("refgrow-base");
		let base = if base_dir.join("metadata").exists() {
			// built by an earlier repetition of this replay
			guarded(|| super::refgrow::build_base(&base_dir))?
		} else {
			guarded(|| super::refgrow::build_base(&base_dir))?
		};
		let dir = ctx.case_dir();
		return guarded(|| super::refgrow::run_case(&base, &case, &dir)).map(|_| ())
	}
	let (_sub, sc): (String, Scenario) = load_replay(path).map_err(|e| Failure::new("bad-replay", e))?;
	let dir = ctx.case_dir();
	guarded(|| run_scenario(&sc, &dir)).map(|_| ())
}
