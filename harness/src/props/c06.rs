//! C06 Values of every size and compressibility are returned bit-exact; storage is released.

use super::*;
use crate::{gen::*, interp::*, layout::{self, SIZES}, model::*, runner::*, spec::*};
use proptest::prelude::*;
use serde::{Deserialize, Serialize};
use std::path::Path;

pub fn def() -> PropDef {
	PropDef {
		id: "C06",
		level: "exploration",
		rule: "(boundary, enumerated) for every one of the 255 size tiers and each column kind {hash, hash+rc header, btree, btree+rc header} the value lengths SIZES[t]-overhead-1, +0, +1 (overhead = 28 / 32 / 2 / 6) are written, read at every pipeline stage, overwritten by the lengths of the neighbouring tier, drained, reopened and re-parsed by the raw layout reader - the tier space is enumerated completely for compression none. (chains, generated) column kind x compression {none,lz4,snappy} x threshold {0,default,max}; overwrite chains over sizes {0,1,tier boundaries, single/multipart boundary 32760-overhead+-1, part multiples 4086/4094+-1, 65535..65537, 2^20+3} x contents {zeros, text, random, random+compressible tail}, removals and re-insertions, pipeline steps, reopen; oracle get bit-identical + get_size == len after every op, btree iterator returns the same bytes, and after every drain the layout reader's slot accounting (every slot below the fill mark in exactly one live chain or once on the free list; live chains == live model values). (reuse, generated) k rounds of overwrite-all / restore: the fill mark of every table after round k <= its maximum during rounds 1..2. Non-trivial = an overwrite crossed a tier or the single/multipart boundary, or a value was stored compressed (flag seen by the layout reader); distinct = distinct case fingerprints",
		assumptions: &[
			"rc-header columns need value = f(key): their boundary lengths are produced by a key->length function (pre_len_base)",
			"the layout reader runs on the live directory right after a drain (table writes go through a shared mmap and are visible to read())",
		],
		run,
		replay,
		shards: default_shards,
		watchdog_s: default_watchdog,
		engine: 0,
	}
}

#[derive(Clone, Debug, Serialize, Deserialize)]
pub struct BoundaryCase {
	/// 0 hash, 1 hash rc, 2 btree, 3 btree rc
	pub kind: u8,
	pub first_tier: u8,
	pub tiers: u8,
	pub compression: u8,
}

fn overhead(kind: u8) -> u32 {
	match kind {
		0 => 28,
		1 => 32,
		2 => 2,
		_ => 6,
	}
}

fn col_of(kind: u8, compression: u8) -> ColCfg {
	let mut c = match kind {
		0 => ColCfg::hash(),
		1 => ColCfg::hash_rc(),
		2 => ColCfg::btree(),
		_ => ColCfg::btree_rc(),
	};
	c.compression = compression;
	c
}

fn layout_live(it: &Interp, out: &mut CaseOut) -> Res<layout::LayoutReport> {
	let rep = layout::check_dir(&it.cfg, &it.dir, Some(it)).map_err(|e| Failure::new(format!("layout:{}", e.sig), e.detail))?;
	if rep.compressed_values > 0 {
		out.label("stored-compressed");
	}
	if rep.multipart_values > 0 {
		out.label("stored-multipart");
	}
	Ok(rep)
}

pub fn run_boundary(case: &BoundaryCase, dir: &Path) -> CaseResult {
	let mut out = CaseOut::default();
	let ov = overhead(case.kind);
	let rc = case.kind == 1 || case.kind == 3;
	let last = (case.first_tier as usize + case.tiers as usize).min(SIZES.len());
	for t in case.first_tier as usize..last {
		// lengths around the boundary of tier t
		let boundary = SIZES[t] as u32 - ov;
		let sub = dir.join(format!("t{t}"));
		std::fs::create_dir_all(&sub).map_err(|e| Failure::new("harness-io", e.to_string()))?;
		let mut col = col_of(case.kind, case.compression);
		if rc {
			// key id i -> length boundary - 2 + i  (ids 1..=4)
			col.pre_len_base = Some(boundary.saturating_sub(2));
		}
		let cfg = DbCfg::new(vec![col]);
		let ids: Vec<u16> = (1..=4).collect();
		let universe = vec![ids.iter().cloned().collect()];
		let mut it = Interp::new(&cfg, &sub, universe);
		it.open()?;
		let len_of = |id: u16, shift: i64| -> u32 { ((boundary as i64 - 2 + id as i64) + shift).max(0) as u32 };
		let mk = |shift: i64, seed: u16| -> Vec<Item> {
			ids.iter().map(|id| Item { col: 0, ch: Change::Set(*id, VSpec { len: len_of(*id, shift), fill: 2, seed: seed + *id }) }).collect()
		};
		// write, step through every stage reading after each
		it.step(&Op::Commit(mk(0, 10)))?;
		for op in [Op::P, Op::F, Op::E, Op::C] {
			it.step(&op)?;
		}
		if !rc {
			// overwrite with the neighbouring tier's lengths (moves every value one tier up or down)
			let shift = if t + 1 < SIZES.len() { SIZES[t + 1] as i64 - SIZES[t] as i64 } else { -(SIZES[t] as i64 - SIZES[t - 1] as i64) };
			it.step(&Op::Commit(mk(shift, 20)))?;
			it.step(&Op::P)?;
			it.step(&Op::Commit(mk(0, 30)))?;
			it.step(&Op::Drain)?;
			out.label("overwrite-crossed-tier");
		} else {
			// rc columns: remove and re-insert
			it.step(&Op::Commit(ids.iter().map(|id| Item { col: 0, ch: Change::Del(*id) }).collect()))?;
			it.step(&Op::P)?;
			it.step(&Op::Commit(mk(0, 0)))?;
			it.step(&Op::Drain)?;
		}
		it.check_reads(true)?;
		layout_live(&it, &mut out)?;
		it.step(&Op::Reopen)?;
		it.check_reads(true)?;
		out.sub_evals += 1;
		out.count("tiers_checked", 1);
		drop(it);
		let _ = std::fs::remove_dir_all(&sub);
	}
	out.nontrivial = true;
	out.label("boundary-enumeration");
	Ok(out)
}

// ------------------------------------------------------------------------------------ chains

fn big_len(kind_overhead: u32) -> impl Strategy<Value = u32> {
	let o = kind_overhead;
	prop_oneof![
		2 => Just(0u32),
		2 => Just(1u32),
		4 => (0usize..SIZES.len(), 0u32..3).prop_map(move |(t, d)| (SIZES[t] as u32 + d).saturating_sub(o + 1)),
		4 => (0u32..3).prop_map(move |d| 32760 + d - o - 1),
		3 => (1u32..9, 0u32..3, any::<bool>()).prop_map(|(m, d, a)| (if a { 4086 } else { 4094 }) * m + d - 1),
		2 => 65535u32..65538,
		// "up to several MiB": mostly 1 MiB, one in five 2-5 MiB (512-1300 parts)
		1 => prop_oneof![4 => Just((1u32 << 20) + 3), 1 => (2u32..6, 0u32..3).prop_map(|(m, d)| (m << 20) + d - 1)],
		3 => 2u32..3000,
	]
}

pub fn chain_scenario() -> impl Strategy<Value = Scenario> {
	(0u8..4, 0u8..3, prop_oneof![Just(None), Just(Some(0u32)), Just(Some(u32::MAX))], 0u8..4).prop_flat_map(|(kind, compression, threshold, bits)| {
		let mut col = col_of(kind, compression);
		col.threshold = threshold;
		let rc = col.rc;
		let cfg = DbCfg::new(vec![col]).flags(bits);
		let ov = overhead(kind);
		let change = if rc {
			rc_change(10).boxed()
		} else {
			prop_oneof![
				5 => (0u16..6, big_len(ov), 0u8..4, 0u16..500).prop_map(|(k, len, fill, seed)| Change::Set(k, VSpec { len, fill, seed })),
				1 => (0u16..6).prop_map(Change::Del),
			]
			.boxed()
		};
		let items = proptest::collection::vec(change.prop_map(|ch| Item { col: 0, ch }), 1..=3);
		let op = prop_oneof![
			10 => items.prop_map(Op::Commit),
			8 => stage_op(),
			2 => Just(Op::Drain),
			1 => Just(Op::Reopen),
		];
		proptest::collection::vec(op, 6..=30).prop_map(move |ops| Scenario { cfg: cfg.clone(), ops })
	})
}

fn tier_class(len: usize, ov: u32) -> usize {
	let need = len + ov as usize;
	SIZES.iter().position(|s| need <= *s as usize).unwrap_or(255)
}

pub fn run_chain(sc: &Scenario, dir: &Path) -> CaseResult {
	let mut out = CaseOut::default();
	let mut it = Interp::new(&sc.cfg, dir, Interp::universe_of(sc));
	it.open()?;
	let kind = match (sc.cfg.cols[0].kind, sc.cfg.cols[0].rc) {
		(Kind::Hash, false) => 0,
		(Kind::Hash, true) => 1,
		(Kind::Btree, false) => 2,
		_ => 3,
	};
	let ov = overhead(kind);
	for op in &sc.ops {
		if let Op::Commit(items) = op {
			for i in items {
				if let Change::Set(_, v) = &i.ch {
					if v.len >= 2 << 20 {
						out.label("value-2-to-5-MiB");
					}
				}
				if let (Change::Set(k, v), ColModel::Map(m)) = (&i.ch, &it.model.cols[0]) {
					if let Some(old) = m.get(k) {
						let (a, b) = (tier_class(old.len(), ov), tier_class(v.len as usize, ov));
						if a != b {
							out.label("overwrite-crossed-tier");
						}
						if (a == 255) != (b == 255) {
							out.label("overwrite-crossed-single-multipart");
						}
					}
				}
			}
		}
		it.step(op)?;
		if matches!(op, Op::Drain) {
			it.check_reads(true)?;
			layout_live(&it, &mut out)?;
		}
	}
	it.step(&Op::Drain)?;
	it.check_reads(true)?;
	layout_live(&it, &mut out)?;
	it.step(&Op::Reopen)?;
	it.check_reads(true)?;
	out.nontrivial = out.labels.contains("overwrite-crossed-tier") || out.labels.contains("stored-compressed") || out.labels.contains("overwrite-crossed-single-multipart");
	out.label(match kind {
		0 => "kind-hash",
		1 => "kind-hash-rc",
		2 => "kind-btree",
		_ => "kind-btree-rc",
	});
	if sc.cfg.cols[0].compression != 0 {
		out.label("compression-on");
	}
	Ok(out)
}

// ------------------------------------------------------------------------------------ reuse

#[derive(Clone, Debug, Serialize, Deserialize)]
pub struct ReuseCase {
	pub kind: u8,
	pub compression: u8,
	pub keys: u16,
	pub rounds: u8,
	/// per round: length class selector and seed
	pub lens: Vec<(u32, u16)>,
}

pub fn reuse_case() -> impl Strategy<Value = ReuseCase> {
	(prop_oneof![Just(0u8), Just(2u8)], 0u8..3, 3u16..10, 3u8..6, proptest::collection::vec((big_len(28), 0u16..100), 2..4)).prop_map(|(kind, compression, keys, rounds, lens)| ReuseCase { kind, compression, keys, rounds, lens })
}

pub fn run_reuse(case: &ReuseCase, dir: &Path) -> CaseResult {
	let mut out = CaseOut::default();
	let cfg = DbCfg::new(vec![col_of(case.kind, case.compression)]);
	let ids: Vec<u16> = (1..=case.keys).collect();
	let mut it = Interp::new(&cfg, dir, vec![ids.iter().cloned().collect()]);
	it.open()?;
	let mut baseline: Option<std::collections::BTreeMap<(u8, u8), (u64, u64)>> = None;
	for round in 0..case.rounds {
		// one pass over the length classes, ending with the first one (restore)
		for (li, (len, seed)) in case.lens.iter().chain(case.lens.iter().take(1)).enumerate() {
			let _ = li;
			let items: Vec<Item> = ids.iter().map(|id| Item { col: 0, ch: Change::Set(*id, VSpec { len: *len + (*id as u32 % 3), fill: 2, seed: *seed + *id }) }).collect();
			it.step(&Op::Commit(items))?;
			it.step(&Op::Drain)?;
		}
		it.check_reads(true)?;
		let rep = layout_live(&it, &mut out)?;
		if round == 1 {
			baseline = Some(rep.tables.clone());
		} else if round > 1 {
			let base = baseline.as_ref().unwrap();
			for (k, (filled, len)) in rep.tables.iter() {
				let (bf, bl) = base.get(k).cloned().unwrap_or((1, 0));
				if *filled > bf || *len > bl.max(256 * 1024) {
					fail!("storage-not-reused", "table col {} tier {:02x}: after round {} fill mark {} / file length {} exceeds round-2 baseline {} / {}", k.0, k.1, round + 1, filled, len, bf, bl)
				}
			}
		}
	}
	out.nontrivial = case.lens.len() >= 2;
	out.label("steady-state-rounds");
	Ok(out)
}

fn run(ctx: &Ctx) {
	let thorough = ctx.tier == "thorough";
	// enumerated boundaries: split the 255 tiers x 4 kinds over the shards
	let compressions: &[u8] = if thorough { &[0, 1, 2] } else { &[0] };
	let mut idx = 0u64;
	for &compression in compressions {
		for kind in 0..4u8 {
			let mut t = 0usize;
			while t < SIZES.len() {
				if idx % ctx.shards == ctx.shard {
					let case = BoundaryCase { kind, first_tier: t as u8, tiers: 8, compression };
					if !ctx.run_case("boundary", &case, run_boundary) {
						return
					}
				}
				idx += 1;
				t += 8;
			}
		}
	}
	ctx.report.borrow_mut().exhaustive = true;
	ctx.rule("boundary sub-run: exhaustive over 255 tiers x 4 column kinds x 3 lengths (compression none; thorough also lz4 and snappy)");
	let n = scaled(ctx, 12_000, 200_000);
	if !ctx.run_prop("chains", n, chain_scenario(), run_chain) {
		return
	}
	let n = scaled(ctx, 800, 12_000);
	ctx.run_prop("reuse", n, reuse_case(), run_reuse);
}

fn replay(ctx: &Ctx, path: &Path) -> Result<(), Failure> {
	let dir = ctx.case_dir();
	let v: serde_json::Value = serde_json::from_str(&std::fs::read_to_string(path).map_err(|e| Failure::new("bad-replay", e.to_string()))?)
		.map_err(|e| Failure::new("bad-replay", e.to_string()))?;
	match v.get("sub").and_then(|s| s.as_str()).unwrap_or("") {
		"boundary" => {
			let (_s, c): (String, BoundaryCase) = load_replay(path).map_err(|e| Failure::new("bad-replay", e))?;
			guarded(|| run_boundary(&c, &dir)).map(|_| ())
		},
		"reuse" => {
			let (_s, c): (String, ReuseCase) = load_replay(path).map_err(|e| Failure::new("bad-replay", e))?;
			guarded(|| run_reuse(&c, &dir)).map(|_| ())
		},
		_ => {
			let (_s, sc): (String, Scenario) = load_replay(path).map_err(|e| Failure::new("bad-replay", e))?;
			guarded(|| run_chain(&sc, &dir)).map(|_| ())
		},
	}
}
