//! C04 Btree columns are an ordered map with correct bidirectional iteration.

use super::*;
use crate::{gen::*, interp::*, layout, runner::*, spec::*};
use proptest::prelude::*;
use std::path::Path;

pub fn def() -> PropDef {
	PropDef {
		id: "C04",
		level: "exploration",
		rule: "generated scenarios on a btree column (+ optionally a hash column in the same transactions): keys from a structured universe (lengths 0,1,2,8,253..256,300,1000,70000; k, k|00, k|ff; shared prefixes), small and bulk (<=150 keys) commits and bulk deletions (tree depth >= 2, merges/rebalances), single pipeline steps, drain, reopen, and calls seek/seek_to_first/seek_to_last/next/prev on ONE iterator kept open across commits and steps. Oracle: cursor model {Start,End,Seeked(k),At(k)} evaluated against the model map at the time of each call; point reads after every op; full forward/backward iteration and the on-disk tree walk (sorted, uniform depth, every value resolves) after drain/reopen. Non-trivial = an iterator step was answered while the data was split over >=2 pipeline layers, or the history contains a direction change; distinct = distinct case fingerprints",
		assumptions: &[
			"seek_to_first is seek(\"\") (as implemented and documented by the property: after seeking to k, prev yields the largest key <= k)",
		],
		run,
		replay,
		shards: default_shards,
		watchdog_s: default_watchdog,
		engine: 0,
	}
}

fn iter_op(nkeys: u16) -> impl Strategy<Value = IterOp> {
	prop_oneof![
		2 => (0..nkeys + 3).prop_map(IterOp::Seek),
		1 => Just(IterOp::SeekFirst),
		1 => Just(IterOp::SeekLast),
		5 => Just(IterOp::Next),
		5 => Just(IterOp::Prev),
	]
}

pub fn scenario(max_ops: usize) -> impl Strategy<Value = Scenario> {
	(
		(0u8..3),
		any::<bool>(),
		prop_oneof![3 => Just(12u16), 3 => Just(45u16), 1 => Just(400u16)],
		0u8..4,
	)
		.prop_flat_map(move |(compression, with_hash, nkeys, bits)| {
			let mut b = ColCfg::btree();
			b.compression = compression;
			let mut cols = vec![b];
			if with_hash {
				cols.push(ColCfg::hash());
			}
			let cfg = DbCfg::new(cols).flags(bits);
			let ncols = cfg.cols.len() as u8;
			let small = proptest::collection::vec((0..ncols, map_change(nkeys, 40_000)).prop_map(|(col, ch)| Item { col, ch }), 1..=6);
			// bulk insert / delete of a dense run of key ids in the btree column
			let bulk = (0..nkeys, 8u16..150, any::<bool>(), small_vspec(), 0u16..1000).prop_map(move |(start, len, del, v, salt)| {
				(0..len)
					.map(|i| {
						let k = (start + i) % nkeys.max(1);
						Item {
							col: 0,
							ch: if del && (i + salt) % 5 != 0 {
								Change::Del(k)
							} else {
								Change::Set(k, VSpec { seed: v.seed.wrapping_add(i), ..v.clone() })
							},
						}
					})
					.collect::<Vec<_>>()
			});
			let op = prop_oneof![
				6 => small.prop_map(Op::Commit),
				2 => bulk.prop_map(Op::Commit),
				7 => stage_op(),
				10 => iter_op(nkeys).prop_map(|o| Op::Iter(0, o)),
				1 => Just(Op::Reopen),
				1 => Just(Op::Drain),
			];
			proptest::collection::vec(op, 10..=max_ops).prop_map(move |ops| Scenario { cfg: cfg.clone(), ops })
		})
}

pub fn run_scenario(sc: &Scenario, dir: &Path) -> CaseResult {
	run_scenario_bg(sc, dir, false)
}

/// background = the library's own worker threads (with always_flush) move the data through the
/// pipeline while the iterator is used; the stage ops of the scenario are skipped then.
pub fn run_scenario_bg(sc: &Scenario, dir: &Path, background: bool) -> CaseResult {
	let mut cfg = sc.cfg.clone();
	cfg.always_flush = background;
	let mut it = Interp::new(&cfg, dir, Interp::universe_of(sc));
	it.background = background;
	it.open()?;
	let mut out = CaseOut::default();
	let mut last_dir: Option<bool> = None;
	for op in &sc.ops {
		if background && matches!(op, Op::P | Op::F | Op::E | Op::C | Op::R | Op::Drain) {
			continue
		}
		it.step(op)?;
		match op {
			Op::Iter(_, IterOp::Next) => {
				if last_dir == Some(false) {
					out.label("direction-change");
				}
				last_dir = Some(true);
			},
			Op::Iter(_, IterOp::Prev) => {
				if last_dir == Some(true) {
					out.label("direction-change");
				}
				last_dir = Some(false);
			},
			Op::Iter(..) => last_dir = None,
			Op::Drain => {
				it.check_reads(true)?;
			},
			Op::Reopen => last_dir = None,
			_ => {},
		}
	}
	it.drop_iters();
	if background {
		// continue without worker threads for the final stepping checks
		it.background = false;
		it.cfg.always_flush = false;
		it.step(&Op::Reopen)?;
		out.label("background-workers");
	}
	it.step(&Op::Drain)?;
	it.check_reads(true)?;
	it.step(&Op::Reopen)?;
	it.check_reads(true)?;
	// on-disk structure
	it.ensure_room_for_close()?;
	it.close();
	let rep = layout::check_dir(&it.cfg, dir, Some(&it)).map_err(|e| Failure::new(format!("layout:{}", e.sig), e.detail))?;
	if rep.btree_max_depth >= 2 {
		out.label("on-disk-depth>=2");
	}
	if rep.btree_max_depth >= 3 {
		out.label("on-disk-depth>=3");
	}
	for l in &it.labels {
		out.label(l);
	}
	out.nontrivial = it.labels.contains("iter-step-multi-layer") || out.labels.contains("direction-change");
	if background {
		out.nontrivial = out.labels.contains("direction-change");
	}
	out.count("point_reads", it.reads);
	Ok(out)
}

fn run(ctx: &Ctx) {
	let n = scaled(ctx, 3_000, 80_000);
	if !ctx.run_prop("iter", n, scenario(70), run_scenario) {
		return
	}
	let n = scaled(ctx, 2_000, 40_000);
	if !ctx.run_prop("iter-bg", n, scenario(70), |sc, dir| run_scenario_bg(sc, dir, true)) {
		return
	}
	if ctx.tier == "thorough" {
		let n = scaled(ctx, 0, 8_000);
		ctx.run_prop("iter-long", n, scenario(300), run_scenario);
	}
}

fn replay(ctx: &Ctx, path: &Path) -> Result<(), Failure> {
	let (sub, sc): (String, Scenario) = load_replay(path).map_err(|e| Failure::new("bad-replay", e))?;
	if sub == "iter-bg" {
		for _ in 0..20 {
			let dir = ctx.case_dir();
			guarded(|| run_scenario_bg(&sc, &dir, true)).map(|_| ())?;
		}
		return Ok(())
	}
	let dir = ctx.case_dir();
	guarded(|| run_scenario(&sc, &dir)).map(|_| ())
}
