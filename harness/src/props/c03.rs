//! C03 Clean shutdown persists everything; synced log records survive crashes.

use proptest::strategy::Strategy as _;
use super::{c02::*, *};
use crate::{interp::*, runner::*, spec::*};
use std::path::Path;

pub fn def() -> PropDef {
	PropDef {
		id: "C03",
		level: "exploration",
		rule: "(a) generated histories over all column kinds (block regimes of C02) with the handle dropped at arbitrary pipeline states - in stepping mode and with the real background workers (drop right after the last commit returns) - then reopened: every key / tree must equal the model of ALL accepted commits; non-trivial = at a drop the queue was non-empty or a record was logged but not enacted. (b) C02 stop points (fault index inside every pipeline op, log-tail cuts, crashes inside recovery) with the lower bound 'recovered prefix >= number of transactions whose log record had been synced when the last flush_logs step returned'; non-trivial = synced > enacted-and-cleaned at the stop point. distinct = distinct case fingerprints / (scenario, stop point) pairs",
		assumptions: &[
			"sync_wal = true: a successful flush_logs step (fdatasync returned) makes the records written so far durable",
			"(b) uses the process-crash model of C02; page-level power loss is C12",
		],
		run,
		replay,
		shards: default_shards,
		watchdog_s: default_watchdog,
		engine: 0,
	}
}

pub fn run_drop_scenario(sc: &Scenario, dir: &Path, background: bool) -> CaseResult {
	let mut it = Interp::new(&sc.cfg, dir, Interp::universe_of(sc));
	it.background = background;
	it.check_every_op = !background;
	it.open()?;
	let mut drops_in_flight = 0;
	for op in &sc.ops {
		if matches!(op, Op::Reopen) && !background && it.stages.in_flight() > 0 {
			drops_in_flight += 1;
		}
		if background && !matches!(op, Op::Commit(_) | Op::Reopen) {
			continue
		}
		it.step(op)?;
		if matches!(op, Op::Reopen) {
			it.check_reads(true)?;
		}
	}
	if !background && it.stages.in_flight() > 0 {
		drops_in_flight += 1;
	}
	it.step(&Op::Reopen)?;
	it.check_reads(true)?;
	let mut out = CaseOut::default();
	for l in &it.labels {
		out.label(l);
	}
	out.nontrivial = drops_in_flight > 0 || (background && sc.ops.iter().any(|o| matches!(o, Op::Commit(_))));
	out.count("drops_in_flight", drops_in_flight);
	if background {
		out.label("background-workers");
	}
	Ok(out)
}

fn run(ctx: &Ctx) {
	let thorough = ctx.tier == "thorough";
	let n = scaled(ctx, 3_000, 60_000);
	if !ctx.run_prop("drop-step", n, crash_scenario(3, 4, 14, true, 40_000), |sc, dir| run_drop_scenario(sc, dir, false)) {
		return
	}
	let n = scaled(ctx, 400, 8_000);
	if !ctx.run_prop("drop-bg", n, (crash_scenario(3, 4, 14, true, 40_000), 0u8..3).prop_map(|(mut sc, af)| {
		sc.cfg.always_flush = af > 0;
		sc
	}), |sc, dir| run_drop_scenario(sc, dir, true)) {
		return
	}
	let opts = CrashOpts { cap: if thorough { 300 } else { 100 }, rec_depth: 1, synced_bound: true, tail: false, layout: false, tolerate_known: true };
	let n = scaled(ctx, 42, 2_000);
	ctx.run_prop_shrink("synced", n, 60, crash_case(3, 4, 12, true), |c, dir| run_crash_case(c, dir, &opts));
}

fn replay(ctx: &Ctx, path: &Path) -> Result<(), Failure> {
	let dir = ctx.case_dir();
	let v: serde_json::Value = serde_json::from_str(&std::fs::read_to_string(path).map_err(|e| Failure::new("bad-replay", e.to_string()))?)
		.map_err(|e| Failure::new("bad-replay", e.to_string()))?;
	let sub = v.get("sub").and_then(|s| s.as_str()).unwrap_or("").to_string();
	if sub == "synced" {
		let (_s, case): (String, CrashCase) = load_replay(path).map_err(|e| Failure::new("bad-replay", e))?;
		let opts = CrashOpts { cap: 300, rec_depth: 1, synced_bound: true, tail: false, layout: false, tolerate_known: true };
		guarded(|| run_crash_case(&case, &dir, &opts)).map(|_| ())
	} else {
		let (_s, sc): (String, Scenario) = load_replay(path).map_err(|e| Failure::new("bad-replay", e))?;
		guarded(|| run_drop_scenario(&sc, &dir, sub == "drop-bg")).map(|_| ())
	}
}
