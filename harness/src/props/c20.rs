//! C20 Migration copies every key, value and reference count.

use super::*;
use crate::{gen::*, image::*, interp::*, model::*, runner::*, spec::*};
use proptest::prelude::*;
use serde::{Deserialize, Serialize};
use std::path::Path;

pub fn def() -> PropDef {
	PropDef {
		id: "C20",
		level: "exploration",
		rule: "generated source databases of 1-4 columns: hash columns (plain with arbitrary values incl. multipart sizes; preimage; reference counted with counts 1-5; optionally uniform keys with the zero salt crafted so that the index grows to 17 bits) plus btree / multitree columns that are never selected; destination options per migrated column differ in compression and/or preimage and/or ref_counted (valid, same key hashing); force_migrate subsets; overwrite true/false. Oracle after migrate(): for every source key dest.get == source value; rc destinations: (value, count) multiset from value iteration == source counts (1 for uncounted sources); non-rc destinations: number of iterated values == number of source keys (no extra key); unselected columns observe identically (incl. trees); with overwrite=false the source observes identically afterwards. Non-trivial = >=1 key with count > 1 or a multipart value, and the option pair really differs; distinct = distinct case fingerprints",
		assumptions: &["columns migrated to a preimage / rc destination hold value = f(key) in the source (the destination's contract)", "migration between hash and btree columns is documented as unsupported and not generated"],
		run,
		replay,
		shards: default_shards,
		watchdog_s: default_watchdog,
		engine: 0,
	}
}

#[derive(Clone, Debug, Serialize, Deserialize)]
pub struct MigCase {
	pub sc: Scenario,
	/// per column: destination variant selector
	pub dest: Vec<u8>,
	pub dest_compression: Vec<u8>,
	pub force: Vec<bool>,
	pub overwrite: bool,
	/// further transactions that are logged and synced but not applied when the source is
	/// captured (a source left by an unclean stop: `migrate` has to replay its log first)
	#[serde(default)]
	pub pending: Vec<Vec<Item>>,
}

fn src_col() -> impl Strategy<Value = ColCfg> {
	prop_oneof![
		3 => (0u8..3).prop_map(|c| { let mut x = ColCfg::hash(); x.compression = c; x }),
		3 => (0u8..3).prop_map(|c| { let mut x = ColCfg::hash(); x.preimage = true; x.compression = c; x }),
		4 => (0u8..3).prop_map(|c| { let mut x = ColCfg::hash_rc(); x.compression = c; x }),
		1 => Just(ColCfg::btree()),
		1 => Just(ColCfg::multi()),
	]
}

pub fn mig_case() -> impl Strategy<Value = MigCase> {
	(proptest::collection::vec(src_col(), 1..=4), any::<bool>(), prop_oneof![2 => Just(0x4242u16), 2 => Just(0xffffu16), 1 => Just(0u16), 1 => any::<u16>()], 0u8..4).prop_flat_map(|(mut cols, crafted, page, bits)| {
		if crafted {
			// one uniform column with the identity hash and keys that overflow a 16-bit page
			for c in cols.iter_mut() {
				if c.kind == Kind::Hash && !c.rc {
					c.uniform = true;
					// also the first and the last page of the index (boundaries of the index walk)
					c.keyset = KeySet::Crafted { page };
					break
				}
			}
		}
		let zero_salt = cols.iter().any(|c| matches!(c.keyset, KeySet::Crafted { .. }));
		let cfg = DbCfg { cols, zero_salt, sync_wal: true, sync_data: true, always_flush: false, salt_from_meta: false, stats: false }.flags(bits);
		let n = cfg.cols.len();
		// commits with the pipeline drained now and then, so that removals also hit entries that
		// already live in their final index page (holes inside a page)
		let commits = proptest::collection::vec(prop_oneof![6 => mixed_items(&cfg, 14, 70_000, 8, 3).prop_map(Op::Commit), 1 => Just(Op::Drain)], 2..14);
		let cfg2 = cfg.clone();
		let pending = prop_oneof![2 => Just(Vec::new()), 1 => proptest::collection::vec(mixed_items(&cfg, 14, 20_000, 6, 3), 1..4)];
		(commits, proptest::collection::vec(any::<u8>(), n..=n), proptest::collection::vec(0u8..3, n..=n), proptest::collection::vec(any::<bool>(), n..=n), any::<bool>(), any::<bool>(), pending).prop_map(
			move |(mut ops, dest, dest_compression, force, overwrite, drain_after_bulk, pending)| {
				// crafted column: bulk insert so that the index must grow once
				for (i, c) in cfg2.cols.iter().enumerate() {
					if matches!(c.keyset, KeySet::Crafted { .. }) {
						let ids: Vec<u16> = (0..40u16).chain(256..292u16).collect();
						// both orders matter: later writes that hit the keys while the grown index
						// is still being filled (stale entries), or after it is final (holes)
						if drain_after_bulk {
							ops.insert(0, Op::Drain);
						}
						ops.insert(
							0,
							Op::Commit(ids.iter().map(|id| Item { col: i as u8, ch: Change::Set(*id, VSpec { len: 20 + (*id as u32 % 7), fill: 2, seed: *id }) }).collect()),
						);
					}
				}
				// (a source closed with an index growth still pending is the known finding
				// migrate-misses-older-index-generation: every generated source is drained)
				ops.push(Op::Drain);
				MigCase { sc: Scenario { cfg: cfg2.clone(), ops }, dest, dest_compression, force, overwrite, pending }
			},
		)
	})
}

/// Destination configuration of one column.
fn dest_col(src: &ColCfg, sel: u8, compression: u8) -> ColCfg {
	let mut d = src.clone();
	if src.kind != Kind::Hash {
		return d
	}
	d.compression = compression;
	if src.rc {
		match sel % 3 {
			0 => {},
			1 => d.rc = false, // preimage, no counting
			_ => {
				d.rc = false;
				d.preimage = false;
			},
		}
	} else if src.preimage {
		match sel % 3 {
			0 => {},
			1 => d.rc = true,
			_ => d.preimage = false,
		}
	}
	d
}

pub fn run_case(case: &MigCase, dir: &Path) -> CaseResult {
	let mut out = CaseOut::default();
	let sc = &case.sc;
	let src_dir = dir.join("src");
	let dst_dir = dir.join("dst");
	let mut it = Interp::new(&sc.cfg, &src_dir, Interp::universe_of(sc));
	it.open()?;
	for op in &sc.ops {
		it.step(op)?;
	}
	it.check_reads(true)?;
	if !case.pending.is_empty() {
		for tx in &case.pending {
			it.step(&Op::Commit(tx.clone()))?;
		}
		for _ in 0..case.pending.len() + 1 {
			it.step(&Op::P)?;
		}
		it.step(&Op::F)?;
		it.check_reads(true)?;
		let growing = it.db().verif_pipeline_state().6 ||
			crate::image::file_sizes(&src_dir).keys().filter(|n| n.starts_with("index_")).map(|n| n[..8].to_string()).collect::<std::collections::BTreeSet<_>>().len() <
				crate::image::file_sizes(&src_dir).keys().filter(|n| n.starts_with("index_")).count();
		if growing {
			// an index growth pending in the source is the known finding: drain instead
			it.step(&Op::Drain)?;
			out.label("pending-source-would-grow-drained-instead");
		} else {
			// capture the directory as the unclean stop leaves it
			let img = dir.join("srcimg");
			crate::image::copy_dir(&src_dir, &img).map_err(|e| Failure::new("harness-io", e.to_string()))?;
			crate::image::set_faults(0);
			it.close();
			crate::image::disarm();
			let _ = std::fs::remove_dir_all(&src_dir);
			std::fs::rename(&img, &src_dir).map_err(|e| Failure::new("harness-io", e.to_string()))?;
			out.label("source-with-pending-log");
		}
	}
	if it.is_open() {
		it.ensure_room_for_close()?;
		it.close();
	}
	let src_model = it.model.clone();
	let universe = it.universe.clone();
	let addr = it.addr.clone();
	drop(it);
	// destination options
	let dcols: Vec<ColCfg> = sc.cfg.cols.iter().enumerate().map(|(i, c)| dest_col(c, case.dest[i], case.dest_compression[i])).collect();
	let dcfg = DbCfg { cols: dcols.clone(), ..sc.cfg.clone() };
	let force: Vec<u8> = (0..sc.cfg.cols.len()).filter(|i| case.force[*i] && sc.cfg.cols[*i].kind == Kind::Hash).map(|i| i as u8).collect();
	let differs = sc.cfg.cols.iter().zip(dcols.iter()).any(|(a, b)| a != b);
	let to = dcfg.options(&dst_dir, false);
	if let Err(e) = parity_db::migrate(&src_dir, to, case.overwrite, &force) {
		fail!(format!("migrate-failed:{}", err_sig(&e)), "migrate returned {e}")
	}
	let dest_path = if case.overwrite { src_dir.clone() } else { dst_dir.clone() };
	// expected destination model
	let mut dmodel = Model::new(&dcfg);
	for (i, (s, d)) in sc.cfg.cols.iter().zip(dcols.iter()).enumerate() {
		dmodel.cols[i] = match (&src_model.cols[i], s.rc, d.rc) {
			(ColModel::Rc(m), true, true) => ColModel::Rc(m.clone()),
			(ColModel::Rc(m), true, false) => ColModel::Map(m.keys().map(|k| (*k, s.pre_value(*k))).collect()),
			(ColModel::Map(m), false, true) => ColModel::Rc(m.keys().map(|k| (*k, 1u64)).collect()),
			(other, _, _) => other.clone(),
		};
	}
	let mut dit = Interp::new(&dcfg, &dest_path, universe.clone());
	dit.model = dmodel;
	dit.addr = addr.clone();
	match dit.open() {
		Ok(_) => {},
		Err(f) => return Err(Failure::new(format!("dest-open-{}", f.sig), f.detail)),
	}
	if let Err(f) = dit.check_reads(true) {
		return Err(Failure::new("migrated-value-mismatch", format!("destination differs from the source content: {} -- {}", f.sig, f.detail)))
	}
	let mut interesting = false;
	for (i, d) in dcols.iter().enumerate() {
		if d.kind != Kind::Hash {
			continue
		}
		match &dit.model.cols[i] {
			ColModel::Rc(m) => {
				let got = observe_rc_counts(&dit, i as u8)?;
				if &got != m {
					fail!("migrated-count-mismatch", "col {i}: destination counts {:?}, expected {:?}", got, m)
				}
				if m.values().any(|c| *c > 1) {
					interesting = true;
				}
			},
			ColModel::Map(m) => {
				let mut n = 0usize;
				let mut multipart = false;
				let r = dit.db().iter_column_while(i as u8, |st| {
					n += 1;
					if st.value.len() > 32_000 {
						multipart = true;
					}
					true
				});
				if let Err(e) = r {
					fail!("dest-iteration-failed", "iter_column_while: {e}")
				}
				if n != m.len() {
					fail!("migrated-key-count-mismatch", "col {i}: destination holds {n} values, source had {} keys", m.len())
				}
				if multipart {
					interesting = true;
				}
				if let ColModel::Rc(sm) = &src_model.cols[i] {
					if sm.values().any(|c| *c > 1) {
						interesting = true;
					}
				}
			},
			_ => {},
		}
	}
	// let pending index growth of the destination finish before looking at the files
	dit.step(&Op::Drain)?;
	dit.ensure_room_for_close()?;
	dit.close();
	// the destination files, re-parsed: unselected columns (incl. tree reference counts) intact
	crate::layout::check_dir(&dit.cfg, &dit.dir, Some(&dit)).map_err(|e| Failure::new(format!("dest-layout:{}", e.sig), e.detail))?;
	drop(dit);
	if !case.overwrite {
		// the source is unchanged
		let mut sit = Interp::new(&sc.cfg, &src_dir, universe);
		sit.model = src_model;
		sit.addr = addr;
		sit.open()?;
		if let Err(f) = sit.check_reads(true) {
			return Err(Failure::new("source-changed-by-migration", format!("{} -- {}", f.sig, f.detail)))
		}
		for (i, c) in sc.cfg.cols.iter().enumerate() {
			if c.kind == Kind::Hash && c.rc {
				if let ColModel::Rc(m) = &sit.model.cols[i] {
					let got = observe_rc_counts(&sit, i as u8)?;
					if &got != m {
						fail!("source-changed-by-migration", "col {i}: source counts {:?} after migration, expected {:?}", got, m)
					}
				}
			}
		}
	}
	out.nontrivial = differs && interesting;
	out.label(if case.overwrite { "overwrite-in-place" } else { "copy-to-destination" });
	if differs {
		out.label("options-differ");
	}
	if !force.is_empty() {
		out.label("forced-columns");
	}
	if sc.cfg.zero_salt {
		out.label("index-grown-17-bits");
	}
	if sc.cfg.cols.iter().any(|c| c.kind != Kind::Hash) {
		out.label("unselected-btree-or-multitree-column");
	}
	Ok(out)
}

/// Known finding: the source was closed while an index growth was pending (two index
/// generations on disk; every key readable). migrate() walks only the newest generation - and
/// races with the source's own workers, which resume the growth - so keys are missing in the
/// destination.
pub fn known_pending_growth_case() -> MigCase {
	let mut c = ColCfg::hash();
	c.uniform = true;
	c.keyset = KeySet::Crafted { page: 0x4242 };
	let cfg = DbCfg { cols: vec![c], zero_salt: true, sync_wal: true, sync_data: true, always_flush: false, salt_from_meta: false, stats: false };
	let ids: Vec<u16> = (0..40u16).chain(256..292u16).collect();
	let ops = vec![
		Op::Commit(ids.iter().map(|id| Item { col: 0, ch: Change::Set(*id, VSpec { len: 20 + (*id as u32 % 7), fill: 2, seed: *id }) }).collect()),
		Op::P,
		Op::F,
		Op::E,
		Op::C,
	];
	MigCase { sc: Scenario { cfg, ops }, dest: vec![1], dest_compression: vec![1], force: vec![true], overwrite: false, pending: Vec::new() }
}

fn known_regression(ctx: &Ctx) {
	if ctx.shard != 0 {
		return
	}
	let case = known_pending_growth_case();
	let dir = ctx.case_dir();
	let r = guarded(|| run_case(&case, &dir));
	let _ = std::fs::remove_dir_all(&dir);
	let mut rep = ctx.report.borrow_mut();
	match r {
		Err(f) if f.sig == "migrated-value-mismatch" => rep.known_findings.push(
			"migrate() of a source that was closed while an index growth was pending (two index generations on disk, every key readable): only the newest generation is walked, keys still in the older one are missing in the destination [migrate-misses-older-index-generation]".to_string(),
		),
		Err(f) => rep.notes.push(format!("known-finding regression failed differently: {} {}", f.sig, f.detail)),
		Ok(_) => rep.notes.push("known finding migrate-misses-older-index-generation did not reproduce on its regression case (fixed?)".to_string()),
	}
}

fn run(ctx: &Ctx) {
	known_regression(ctx);
	let n = scaled(ctx, 1_200, 30_000);
	ctx.run_prop_shrink("migrate", n, 400, mig_case(), run_case);
}

fn replay(ctx: &Ctx, path: &Path) -> Result<(), Failure> {
	let (_sub, c): (String, MigCase) = load_replay(path).map_err(|e| Failure::new("bad-replay", e))?;
	let dir = ctx.case_dir();
	guarded(|| run_case(&c, &dir)).map(|_| ())
}
