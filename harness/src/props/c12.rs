//! C12 Power loss cannot tear state: log synced before apply, data before log reuse.
//! Runs inside the `pdbv_io` binary (syscall interposers feed `iotrack`).

use super::{c02::*, *};
use crate::{image::*, interp::*, iotrack, runner::*, spec::*};
use proptest::prelude::*;
use serde::{Deserialize, Serialize};
use std::path::Path;

pub fn def() -> PropDef {
	PropDef {
		id: "C12",
		level: "fault_enumeration",
		rule: "sync_wal = sync_data = true, stepping mode, binary with interposed fdatasync/fsync/msync/ftruncate/unlink/mmap: a durability tracker keeps for every file its content as of its last successful sync (msync: its range). Generated histories over hash / rc / btree / multitree columns whose transactions touch several size tiers and index pages; crash instants = stop points (file-operation index inside every pipeline op, sampled per history) and op boundaries; per instant several POWER-LOSS IMAGES are generated: every memory-mapped table / index / ref-count file = durable copy with a generated subset (none / all / random) of its dirty 4 KiB pages replaced by the current page; every log file = durable bytes + a generated-length prefix of the bytes appended since its last sync. Oracles: (I2, at every event) when a log file is truncated to 0 or unlinked, every table / index (beyond its 16 KiB statistics area) / ref-count file equals its durable copy; (image) Db::open succeeds and observes a prefix p with synced <= p <= committed, and the recovered database keeps working. Non-trivial = an image in which >=1 dirty page was dropped AND >=1 kept, or the log tail was cut inside its unsynced part; distinct = distinct (history, instant, page subset) triples",
		assumptions: &[
			"file creation, unlink, rename and ftruncate sizes are durable at once (the library never syncs directories; the property speaks of pages and log bytes)",
			"a 4 KiB page is either its durable or its current version (no torn pages); the metadata file is durable once written",
			"I2 is evaluated in single-threaded stepping mode, where 'no table write between flush and log reclamation' is exact",
		],
		run,
		replay,
		shards: default_shards,
		watchdog_s: default_watchdog,
		engine: 3,
	}
}

#[derive(Clone, Debug, Serialize, Deserialize)]
pub struct PowerCase {
	pub sc: Scenario,
	pub sample_seed: u64,
	/// (stop point, image seed)
	pub only: Option<(StopPoint, u64)>,
}

/// mode: 0 none of the dirty pages, 1 all, 2.. random subset
fn build_power_image(work: &Path, shadow: &Path, img: &Path, seed: u64, mode: u8) -> std::io::Result<(u64, u64, bool)> {
	use std::os::unix::fs::FileExt;
	let _ = std::fs::remove_dir_all(img);
	std::fs::create_dir_all(img)?;
	let mut rng = seed;
	let mut next = || {
		rng = splitmix(rng);
		rng
	};
	let (mut kept, mut dropped, mut cut_inside) = (0u64, 0u64, false);
	for (name, size) in file_sizes(work) {
		if name == "lock" {
			continue
		}
		let cur = work.join(&name);
		let sh = shadow.join(&name);
		if is_log(&name) {
			let current = std::fs::read(&cur)?;
			let durable_len = std::fs::metadata(&sh).map(|m| m.len() as usize).unwrap_or(0).min(current.len());
			let unsynced = current.len() - durable_len;
			let keep = match mode {
				0 => durable_len,
				1 => current.len(),
				_ => durable_len + (next() as usize) % (unsynced + 1),
			};
			if keep > durable_len && keep < current.len() {
				cut_inside = true;
			}
			std::fs::write(img.join(&name), &current[..keep])?;
		} else if name.starts_with("table_") || name.starts_with("index_") || name.starts_with("refcount_") {
			// start from the durable copy (absent = zeros), same length as the current file
			let out = img.join(&name);
			if sh.exists() {
				copy_file_sparse(&sh, &out)?;
			}
			let f = std::fs::OpenOptions::new().write(true).create(true).open(&out)?;
			f.set_len(size)?;
			let pages = iotrack::dirty_pages(&cur, &sh, 0);
			if !pages.is_empty() {
				let c = std::fs::File::open(&cur)?;
				let mut buf = [0u8; 4096];
				for p in pages {
					let take = match mode {
						0 => false,
						1 => true,
						_ => next() % 2 == 0,
					};
					if take {
						let n = c.read_at(&mut buf, p)?;
						f.write_all_at(&buf[..n], p)?;
						kept += 1;
					} else {
						dropped += 1;
					}
				}
			}
		} else {
			std::fs::copy(&cur, img.join(&name))?;
		}
	}
	Ok((kept, dropped, cut_inside))
}

pub fn check_power_point(sc: &Scenario, sp: &StopPoint, image_seeds: &[u64], dir: &Path, out: &mut CaseOut) -> Res<u64> {
	let work = dir.join("work");
	let shadow = dir.join("shadow");
	let _ = std::fs::remove_dir_all(&work);
	std::fs::create_dir_all(&work).map_err(|e| Failure::new("harness-io", e.to_string()))?;
	iotrack::start(&work, &shadow, true);
	let r = (|| -> Res<(ImageInfo, Vec<(std::path::PathBuf, u64, bool)>)> {
		let mut it = Interp::new(&sc.cfg, &work, Interp::universe_of(sc));
		it.keep_prefix = true;
		it.check_every_op = false;
		it.open()?;
		for op in sc.ops.iter().take(sp.op) {
			it.step(op)?;
		}
		if sp.op < sc.ops.len() {
			it.fault_armed = true;
			set_faults(sp.n);
			let r = it.step(&sc.ops[sp.op]);
			set_faults(0);
			if let Err(f) = r {
				disarm();
				return Err(f)
			}
		}
		// the instant of the power cut: build the images from current + durable state
		let mut images = Vec::new();
		iotrack::paused(|| -> Res<()> {
			for (i, seed) in image_seeds.iter().enumerate() {
				let img = dir.join(format!("pimg{i}"));
				let mode = (seed % 5) as u8; // 0 none, 1 all, 2-4 random
				let (kept, dropped, cut) = build_power_image(&work, &shadow, &img, *seed, mode).map_err(|e| Failure::new("harness-io", format!("power image: {e}")))?;
				images.push((img, *seed, (kept > 0 && dropped > 0) || cut));
			}
			Ok(())
		})?;
		let info = ImageInfo {
			faulted: true,
			committed: it.committed,
			synced: it.stages.synced,
			cleaned: it.stages.cleaned,
			cleaned_or_enacted: it.stages.cleaned + it.stages.enacted.len(),
			last_enacted_record: 0,
			had_log: true,
			cut_inside: false,
			prefix: it.prefix.clone(),
			addr: it.addr.clone(),
			universe: it.universe.clone(),
			labels: Default::default(),
		};
		set_faults(0);
		drop(it);
		disarm();
		Ok((info, images))
	})();
	disarm();
	let tracker = iotrack::stop();
	let (info, images) = r?;
	if let Some(t) = &tracker {
		out.count("tracked_sync_events", t.events);
		out.count("msync_events", t.msyncs);
		out.count("fsync_events", t.fsyncs);
		if let Some(v) = t.violations.first() {
			fail!("log-reclaimed-before-data-flushed", "{v}")
		}
	}
	let _ = std::fs::remove_dir_all(&work);
	let _ = std::fs::remove_dir_all(&shadow);
	let mut nontrivial = 0;
	for (img, seed, nt) in images {
		let rec = recover_and_check(sc, &info, sp, &img, dir, info.synced).map_err(|f| {
			Failure::new(format!("power-loss:{}", f.sig), format!("power-loss image (seed {seed}) at op {} file operation {}: {}", sp.op, sp.n, f.detail))
				.with_case(&PowerCase { sc: sc.clone(), sample_seed: 0, only: Some((sp.clone(), seed)) })
		})?;
		let p = rec.prefix_index;
		if rec.candidates.len() == 1 {
			let mut it = rec.interp;
			let r: Res<()> = (|| {
				it.check_reads(true)?;
				for op in sc.ops.iter().skip(sp.op + 1).filter(|o| matches!(o, Op::Commit(_))).take(2) {
					it.step(op)?;
				}
				it.step(&Op::Drain)?;
				it.check_reads(true)?;
				it.step(&Op::Reopen)?;
				it.check_reads(true)?;
				Ok(())
			})();
			r.map_err(|f| {
				Failure::new(format!("power-loss:after-recovery:{}", f.sig), format!("power-loss image (seed {seed}) at op {} file operation {} recovered at prefix {p}: {}", sp.op, sp.n, f.detail))
					.with_case(&PowerCase { sc: sc.clone(), sample_seed: 0, only: Some((sp.clone(), seed)) })
			})?;
		}
		out.count(&format!("recovered_minus_synced:{}", (p as i64 - info.synced as i64).clamp(-1, 3)), 1);
		out.sub_evals += 1;
		if nt {
			nontrivial += 1;
		}
		let _ = std::fs::remove_dir_all(&img);
		for d in 0..3 {
			let _ = std::fs::remove_dir_all(dir.join(format!("rec{d}")));
		}
	}
	Ok(nontrivial)
}

pub fn run_power_case(case: &PowerCase, dir: &Path, cap: usize, images_per_point: usize) -> CaseResult {
	let mut out = CaseOut::default();
	if !iotrack_available() {
		fail!("harness-io", "C12 must run inside the pdbv_io binary (syscall interposers missing)")
	}
	let sc = &case.sc;
	if let Some((sp, seed)) = &case.only {
		let nt = guarded(|| check_power_point(sc, sp, &[*seed], dir, &mut out))?;
		out.nontrivial = nt > 0;
		return Ok(out)
	}
	let counts = count_io(sc, &dir.join("count"))?;
	let _ = std::fs::remove_dir_all(dir.join("count"));
	let mut points: Vec<StopPoint> = Vec::new();
	for (s, c) in counts.iter().enumerate() {
		if matches!(sc.ops[s], Op::Commit(_)) {
			continue
		}
		for n in 0..=*c {
			points.push(StopPoint { op: s, n, cut: None, recover_n: vec![] });
		}
	}
	let total = points.len();
	let mut rng = case.sample_seed;
	if total > cap {
		for i in 0..cap {
			rng = splitmix(rng);
			let j = i + (rng as usize) % (total - i);
			points.swap(i, j);
		}
		points.truncate(cap);
		out.label("instants-sampled");
	} else {
		out.label("instants-exhaustive");
	}
	for sp in points {
		let seeds: Vec<u64> = (0..images_per_point)
			.map(|_| {
				rng = splitmix(rng);
				rng
			})
			.collect();
		let nt = guarded(|| check_power_point(sc, &sp, &seeds, dir, &mut out)).map_err(|f| if f.case_override.is_none() { f.with_case(&PowerCase { sc: sc.clone(), sample_seed: 0, only: Some((sp.clone(), seeds[0])) }) } else { f })?;
		out.sub_nontrivial += nt;
	}
	out.nontrivial = out.sub_nontrivial > 0;
	Ok(out)
}

/// True when the interposers are linked in: an msync issued here must reach the tracker.
pub fn iotrack_available() -> bool {
	let d = scratch_root().join(format!("pdbv.probe.{}", std::process::id()));
	let _ = std::fs::remove_dir_all(&d);
	let _ = std::fs::create_dir_all(d.join("w"));
	iotrack::start(&d.join("w"), &d.join("s"), false);
	let ok = (|| {
		let f = std::fs::File::create(d.join("w").join("probe")).ok()?;
		f.sync_data().ok()?;
		Some(())
	})()
	.is_some();
	let t = iotrack::stop();
	let _ = std::fs::remove_dir_all(&d);
	ok && t.map_or(false, |t| t.fsyncs > 0)
}

fn power_case() -> impl Strategy<Value = PowerCase> {
	(crash_scenario(3, 4, 12, true, 40_000), any::<u64>()).prop_map(|(mut sc, sample_seed)| {
		// the property is about power loss with the sync options on
		sc.cfg.sync_data = true;
		PowerCase { sc, sample_seed, only: None }
	})
}

fn run(ctx: &Ctx) {
	let thorough = ctx.tier == "thorough";
	let n = scaled(ctx, 56, 2_800);
	ctx.run_prop_shrink("power", n, 40, power_case(), |c, dir| run_power_case(c, dir, if thorough { 120 } else { 30 }, 3));
}

fn replay(ctx: &Ctx, path: &Path) -> Result<(), Failure> {
	let (_sub, c): (String, PowerCase) = load_replay(path).map_err(|e| Failure::new("bad-replay", e))?;
	let dir = ctx.case_dir();
	guarded(|| run_power_case(&c, &dir, 120, 3)).map(|_| ())
}
