//! C12 Power loss cannot tear state: log synced before apply, data before log reuse.
//! Runs inside the `pdbv_io` binary (syscall interposers feed `iotrack`).

use super::{c02::*, *};
use crate::{gen::{mixed_cfg, mixed_items}, image::*, interp::*, iotrack, runner::*, spec::*};
use proptest::prelude::*;
use serde::{Deserialize, Serialize};
use std::path::Path;

pub fn def() -> PropDef {
	PropDef {
		id: "C12",
		level: "fault_enumeration",
		rule: "sync_wal = sync_data = true, stepping mode, binary with interposed fdatasync/fsync/msync/ftruncate/unlink/mmap: a durability tracker keeps for every file its content as of its last successful sync (msync: its range). Generated histories over hash / rc / btree / multitree columns whose transactions touch several size tiers and index pages; crash instants = stop points (file-operation index inside every pipeline op, sampled per history) and op boundaries; per instant several POWER-LOSS IMAGES are generated: every memory-mapped table / index / ref-count file = durable copy with a generated subset (none / all / random) of its dirty 4 KiB pages replaced by the current page; every log file = durable bytes + a generated-length prefix of the bytes appended since its last sync. Oracles: (I2, at every event) when a log file is truncated to 0 or unlinked, every table / index (beyond its 16 KiB statistics area) / ref-count file equals its durable copy; (image) Db::open succeeds and observes a prefix p with synced <= p <= committed, and the recovered database keeps working. Non-trivial = an image in which >=1 dirty page was dropped AND >=1 kept, or the log tail was cut inside its unsynced part; distinct = distinct (history, instant, page subset) triples. Sub-run power-threads: the same tracker with the REAL worker threads (always_flush, generated client pauses, msync slowed down by a generated delay = slow disk): at every log sync and every log truncate / unlink a power-loss image is built inside the interposed call, under the tracker lock, from the durable copies plus a generated subset of the dirty table pages; the durable copy of an msync range is taken at call time. Oracle without any knowledge of the schedule: every image recovers to a prefix of the commits started so far, and a transaction recovered from an EARLIER image (its log record was durable then) is recovered from every later image (durability is monotone); before every sync of a log file (after a generated delay) a further image holds a generated prefix of the UNSYNCED bytes of every log file as well - it must recover to a prefix not older than the bound but does not raise it. Non-trivial there = an image taken at a log reclamation while the client was still committing",
		assumptions: &[
			"file creation, unlink, rename and ftruncate sizes are durable at once (the library never syncs directories; the property speaks of pages and log bytes)",
			"a 4 KiB page is either its durable or its current version (no torn pages); the metadata file is durable once written",
			"I2 is evaluated in single-threaded stepping mode, where 'no table write between flush and log reclamation' is exact",
		],
		run,
		replay,
		shards: default_shards,
		watchdog_s: default_watchdog,
		engine: 3,
	}
}

#[derive(Clone, Debug, Serialize, Deserialize)]
pub struct PowerCase {
	pub sc: Scenario,
	pub sample_seed: u64,
	/// (stop point, image seed)
	pub only: Option<(StopPoint, u64)>,
}

pub struct PowerImage {
	pub kept: u64,
	pub dropped: u64,
	pub cut_inside: bool,
	pub unsynced_logs: u64,
	pub anchors_kept: u64,
	/// per log file: (name, current length, durable length, kept length)
	pub log_cuts: Vec<(String, usize, usize, usize)>,
}

/// mode: 0 none of the dirty pages, 1 all, 2.. random subset
pub fn build_power_image(work: &Path, shadow: &Path, img: &Path, seed: u64, mode: u8, log_durable_only: bool) -> std::io::Result<(u64, u64, bool)> {
	build_power_image_ex(work, shadow, img, seed, mode, log_durable_only, false, &Default::default()).map(|r| (r.kept, r.dropped, r.cut_inside))
}

/// First bytes of a log file that recovery needs to order the files (record tag + record id).
pub const LOG_ANCHOR: usize = 9;

/// `keep_anchor`: when two or more log files hold unsynced bytes, a file whose anchor is not
/// durable keeps at least its anchor (known finding `power-loss-loses-older-unsynced-log`:
/// without it the files that follow replay alone); such raised cuts are counted.
pub fn build_power_image_ex(work: &Path, shadow: &Path, img: &Path, seed: u64, mode: u8, log_durable_only: bool, keep_anchor: bool, being_truncated: &std::collections::BTreeSet<String>) -> std::io::Result<PowerImage> {
	use std::os::unix::fs::FileExt;
	let mut unsynced_logs = 0u64;
	let mut anchors_kept = 0u64;
	let mut log_cuts = Vec::new();
	for (name, size) in file_sizes(work) {
		if is_log(&name) {
			let d = std::fs::metadata(shadow.join(&name)).map(|m| m.len()).unwrap_or(0);
			if size > d && !being_truncated.contains(&name) {
				unsynced_logs += 1;
			}
		}
	}
	let _ = std::fs::remove_dir_all(img);
	std::fs::create_dir_all(img)?;
	let mut rng = seed;
	let mut next = || {
		rng = splitmix(rng);
		rng
	};
	let (mut kept, mut dropped, mut cut_inside) = (0u64, 0u64, false);
	for (name, size) in file_sizes(work) {
		if name == "lock" {
			continue
		}
		let cur = work.join(&name);
		let sh = shadow.join(&name);
		if is_log(&name) {
			let current = std::fs::read(&cur)?;
			let durable_len = std::fs::metadata(&sh).map(|m| m.len() as usize).unwrap_or(0).min(current.len());
			let unsynced = current.len() - durable_len;
			let keep = match mode {
				_ if log_durable_only || being_truncated.contains(&name) => durable_len,
				0 => durable_len,
				1 => current.len(),
				_ => durable_len + (next() as usize) % (unsynced + 1),
			};
			let keep = if keep_anchor && unsynced_logs >= 2 && keep < LOG_ANCHOR.min(current.len()) {
				anchors_kept += 1;
				LOG_ANCHOR.min(current.len())
			} else {
				keep
			};
			if keep > durable_len && keep < current.len() {
				cut_inside = true;
			}
			log_cuts.push((name.clone(), current.len(), durable_len, keep));
			std::fs::write(img.join(&name), &current[..keep])?;
		} else if name.starts_with("table_") || name.starts_with("index_") || name.starts_with("refcount_") {
			// start from the durable copy (absent = zeros), same length as the current file
			let out = img.join(&name);
			if sh.exists() {
				copy_file_sparse(&sh, &out)?;
			}
			let f = std::fs::OpenOptions::new().write(true).create(true).open(&out)?;
			f.set_len(size)?;
			let pages = iotrack::dirty_pages(&cur, &sh, 0);
			if !pages.is_empty() {
				let c = std::fs::File::open(&cur)?;
				let mut buf = [0u8; 4096];
				for p in pages {
					let take = match mode {
						0 => false,
						1 => true,
						_ => next() % 2 == 0,
					};
					if take {
						let n = c.read_at(&mut buf, p)?;
						f.write_all_at(&buf[..n], p)?;
						kept += 1;
					} else {
						dropped += 1;
					}
				}
			}
		} else {
			std::fs::copy(&cur, img.join(&name))?;
		}
	}
	Ok(PowerImage { kept, dropped, cut_inside, unsynced_logs, anchors_kept, log_cuts })
}

pub fn check_power_point(sc: &Scenario, sp: &StopPoint, image_seeds: &[u64], dir: &Path, out: &mut CaseOut) -> Res<u64> {
	let work = dir.join("work");
	let shadow = dir.join("shadow");
	let _ = std::fs::remove_dir_all(&work);
	std::fs::create_dir_all(&work).map_err(|e| Failure::new("harness-io", e.to_string()))?;
	iotrack::start(&work, &shadow, true);
	let r = (|| -> Res<(ImageInfo, Vec<(std::path::PathBuf, u64, bool)>)> {
		let mut it = Interp::new(&sc.cfg, &work, Interp::universe_of(sc));
		it.keep_prefix = true;
		it.check_every_op = false;
		it.open()?;
		for op in sc.ops.iter().take(sp.op) {
			it.step(op)?;
		}
		if sp.op < sc.ops.len() {
			it.fault_armed = true;
			set_faults(sp.n);
			let r = it.step(&sc.ops[sp.op]);
			set_faults(0);
			if let Err(f) = r {
				disarm();
				return Err(f)
			}
		}
		// the instant of the power cut: build the images from current + durable state
		let mut images = Vec::new();
		iotrack::paused(|| -> Res<()> {
			for (i, seed) in image_seeds.iter().enumerate() {
				let img = dir.join(format!("pimg{i}"));
				let mode = (seed % 5) as u8; // 0 none, 1 all, 2-4 random
				let (kept, dropped, cut) = build_power_image(&work, &shadow, &img, *seed, mode, false).map_err(|e| Failure::new("harness-io", format!("power image: {e}")))?;
				images.push((img, *seed, (kept > 0 && dropped > 0) || cut));
			}
			Ok(())
		})?;
		let info = ImageInfo {
			faulted: true,
			committed: it.committed,
			synced: it.stages.synced,
			cleaned: it.stages.cleaned,
			cleaned_or_enacted: it.stages.cleaned + it.stages.enacted.len(),
			last_enacted_record: 0,
			had_log: true,
			cut_inside: false,
			prefix: it.prefix.clone(),
			addr: it.addr.clone(),
			universe: it.universe.clone(),
			labels: Default::default(),
		};
		set_faults(0);
		drop(it);
		disarm();
		Ok((info, images))
	})();
	disarm();
	let tracker = iotrack::stop();
	let (info, images) = r?;
	if let Some(t) = &tracker {
		out.count("tracked_sync_events", t.events);
		out.count("msync_events", t.msyncs);
		out.count("fsync_events", t.fsyncs);
		if let Some(v) = t.violations.first() {
			fail!("log-reclaimed-before-data-flushed", "{v}")
		}
	}
	let _ = std::fs::remove_dir_all(&work);
	let _ = std::fs::remove_dir_all(&shadow);
	let mut nontrivial = 0;
	for (img, seed, nt) in images {
		let rec = recover_and_check(sc, &info, sp, &img, dir, info.synced).map_err(|f| {
			Failure::new(format!("power-loss:{}", f.sig), format!("power-loss image (seed {seed}) at op {} file operation {}: {}", sp.op, sp.n, f.detail))
				.with_case(&PowerCase { sc: sc.clone(), sample_seed: 0, only: Some((sp.clone(), seed)) })
		})?;
		let p = rec.prefix_index;
		if rec.candidates.len() == 1 {
			let mut it = rec.interp;
			let r: Res<()> = (|| {
				it.check_reads(true)?;
				for op in sc.ops.iter().skip(sp.op + 1).filter(|o| matches!(o, Op::Commit(_))).take(2) {
					it.step(op)?;
				}
				it.step(&Op::Drain)?;
				it.check_reads(true)?;
				it.step(&Op::Reopen)?;
				it.check_reads(true)?;
				Ok(())
			})();
			r.map_err(|f| {
				Failure::new(format!("power-loss:after-recovery:{}", f.sig), format!("power-loss image (seed {seed}) at op {} file operation {} recovered at prefix {p}: {}", sp.op, sp.n, f.detail))
					.with_case(&PowerCase { sc: sc.clone(), sample_seed: 0, only: Some((sp.clone(), seed)) })
			})?;
		}
		out.count(&format!("recovered_minus_synced:{}", (p as i64 - info.synced as i64).clamp(-1, 3)), 1);
		out.sub_evals += 1;
		if nt {
			nontrivial += 1;
		}
		let _ = std::fs::remove_dir_all(&img);
		for d in 0..3 {
			let _ = std::fs::remove_dir_all(dir.join(format!("rec{d}")));
		}
	}
	Ok(nontrivial)
}

pub fn run_power_case(case: &PowerCase, dir: &Path, cap: usize, images_per_point: usize) -> CaseResult {
	let mut out = CaseOut::default();
	if !iotrack_available() {
		fail!("harness-io", "C12 must run inside the pdbv_io binary (syscall interposers missing)")
	}
	let sc = &case.sc;
	if let Some((sp, seed)) = &case.only {
		let nt = guarded(|| check_power_point(sc, sp, &[*seed], dir, &mut out))?;
		out.nontrivial = nt > 0;
		return Ok(out)
	}
	let counts = count_io(sc, &dir.join("count"))?;
	let _ = std::fs::remove_dir_all(dir.join("count"));
	let mut points: Vec<StopPoint> = Vec::new();
	for (s, c) in counts.iter().enumerate() {
		if matches!(sc.ops[s], Op::Commit(_)) {
			continue
		}
		for n in 0..=*c {
			points.push(StopPoint { op: s, n, cut: None, recover_n: vec![] });
		}
	}
	let total = points.len();
	let mut rng = case.sample_seed;
	if total > cap {
		for i in 0..cap {
			rng = splitmix(rng);
			let j = i + (rng as usize) % (total - i);
			points.swap(i, j);
		}
		points.truncate(cap);
		out.label("instants-sampled");
	} else {
		out.label("instants-exhaustive");
	}
	for sp in points {
		let seeds: Vec<u64> = (0..images_per_point)
			.map(|_| {
				rng = splitmix(rng);
				rng
			})
			.collect();
		let nt = guarded(|| check_power_point(sc, &sp, &seeds, dir, &mut out)).map_err(|f| if f.case_override.is_none() { f.with_case(&PowerCase { sc: sc.clone(), sample_seed: 0, only: Some((sp.clone(), seeds[0])) }) } else { f })?;
		out.sub_nontrivial += nt;
	}
	out.nontrivial = out.sub_nontrivial > 0;
	Ok(out)
}

/// True when the interposers are linked in: an msync issued here must reach the tracker.
pub fn iotrack_available() -> bool {
	let d = scratch_root().join(format!("pdbv.probe.{}", std::process::id()));
	let _ = std::fs::remove_dir_all(&d);
	let _ = std::fs::create_dir_all(d.join("w"));
	iotrack::start(&d.join("w"), &d.join("s"), false);
	let ok = (|| {
		let f = std::fs::File::create(d.join("w").join("probe")).ok()?;
		f.sync_data().ok()?;
		Some(())
	})()
	.is_some();
	let t = iotrack::stop();
	let _ = std::fs::remove_dir_all(&d);
	ok && t.map_or(false, |t| t.fsyncs > 0)
}

fn power_case() -> impl Strategy<Value = PowerCase> {
	// one history in five grows the index (key sets crowded into one index page, reindex steps),
	// so that older index generations receive writes too
	(prop_oneof![4 => crash_scenario(3, 4, 12, true, 40_000).boxed(), 1 => super::c09::scenario(9, 150).boxed()], any::<u64>()).prop_map(|(mut sc, sample_seed)| {
		// the property is about power loss with the sync options on
		sc.cfg.sync_data = true;
		// one history in four ends with a worker failure (background-error state) followed by
		// the drop of the handle and a reopen
		// (everything committed is logged, synced and applied first - but not reclaimed - so
		// that nothing is lost by the shutdown in the error state and the model stays exact)
		if sample_seed % 4 == 0 {
			let commits = sc.ops.iter().filter(|o| matches!(o, Op::Commit(_))).count();
			sc.ops.extend(std::iter::repeat(Op::P).take(commits + 1));
			sc.ops.extend([Op::F, Op::E, Op::F, Op::E, Op::ReopenAfterError]);
		}
		PowerCase { sc, sample_seed, only: None }
	})
}

/// A process is killed (its unsynced log bytes stay in the page cache), a second process opens
/// the directory and replays the logs, and the power fails while or after it does so. The
/// tracker carries the durable copies over from the first process to the second.
#[derive(Clone, Debug, Serialize, Deserialize)]
pub struct AfterKillCase {
	pub sc: Scenario,
	/// the first process is killed after this op (selector)
	pub kill_at: u16,
	pub sample_seed: u64,
}

pub fn run_after_kill_case(case: &AfterKillCase, dir: &Path) -> CaseResult {
	let mut out = CaseOut::default();
	if !iotrack_available() {
		fail!("harness-io", "C12 must run inside the pdbv_io binary (syscall interposers missing)")
	}
	let sc = &case.sc;
	let work = dir.join("work");
	let shadow = dir.join("shadow");
	let work2 = dir.join("work2");
	let shadow2 = dir.join("shadow2");
	for d in [&work, &shadow, &work2, &shadow2] {
		let _ = std::fs::remove_dir_all(d);
	}
	std::fs::create_dir_all(&work).map_err(|e| Failure::new("harness-io", e.to_string()))?;
	let k = 1 + pick(case.kill_at, sc.ops.len());
	iotrack::start(&work, &shadow, false);
	let r = (|| -> Res<ImageInfo> {
		let mut it = Interp::new(&sc.cfg, &work, Interp::universe_of(sc));
		it.keep_prefix = true;
		it.check_every_op = false;
		it.open()?;
		for op in sc.ops.iter().take(k) {
			it.step(op)?;
		}
		let info = ImageInfo {
			faulted: true,
			committed: it.committed,
			synced: it.stages.synced,
			cleaned: it.stages.cleaned,
			cleaned_or_enacted: it.stages.cleaned + it.stages.enacted.len(),
			last_enacted_record: 0,
			had_log: true,
			cut_inside: false,
			prefix: it.prefix.clone(),
			addr: it.addr.clone(),
			universe: it.universe.clone(),
			labels: Default::default(),
		};
		// the kill: what the next process sees is the directory as it is (page cache), what is
		// durable is the tracker's copy
		iotrack::paused(|| -> Res<()> {
			copy_dir(&work, &work2).map_err(|e| Failure::new("harness-io", format!("copy: {e}")))?;
			copy_dir(&shadow, &shadow2).map_err(|e| Failure::new("harness-io", format!("copy: {e}")))?;
			Ok(())
		})?;
		let _ = iotrack::stop();
		set_faults(0);
		drop(it);
		disarm();
		Ok(info)
	})();
	let _ = iotrack::stop();
	disarm();
	let info = r?;
	if info.committed > info.synced {
		out.label("killed-with-unsynced-log-records");
	}
	// file operations of the recovering open
	let probe = dir.join("probe");
	let _ = std::fs::remove_dir_all(&probe);
	copy_dir(&work2, &probe).map_err(|e| Failure::new("harness-io", format!("copy: {e}")))?;
	const BIG: usize = usize::MAX / 2;
	let total = guarded(|| -> Res<usize> {
		let mut it = Interp::new(&sc.cfg, &probe, info.universe.clone());
		it.check_every_op = false;
		set_faults(BIG);
		let r = it.open();
		let used = BIG - remaining_faults();
		disarm();
		r?;
		drop(it);
		Ok(used)
	})?;
	let _ = std::fs::remove_dir_all(&probe);
	let mut rng = case.sample_seed;
	let mut points: Vec<usize> = (0..=total).collect();
	let cap = 10;
	if points.len() > cap {
		for i in 0..cap {
			rng = splitmix(rng);
			let j = i + (rng as usize) % (points.len() - i);
			points.swap(i, j);
		}
		points.truncate(cap - 1);
		points.push(total); // the instant after the open returned
	}
	let sp0 = StopPoint { op: 0, n: 0, cut: None, recover_n: vec![] };
	for n in points {
		let w = dir.join("w");
		let s = dir.join("s");
		for d in [&w, &s] {
			let _ = std::fs::remove_dir_all(d);
		}
		copy_dir(&work2, &w).map_err(|e| Failure::new("harness-io", format!("copy: {e}")))?;
		copy_dir(&shadow2, &s).map_err(|e| Failure::new("harness-io", format!("copy: {e}")))?;
		iotrack::start_keep(&w, &s, false);
		let mut images = Vec::new();
		let r = guarded(|| -> Res<()> {
			let mut it = Interp::new(&sc.cfg, &w, info.universe.clone());
			it.check_every_op = false;
			it.fault_armed = true;
			set_faults(n);
			let r = it.open();
			set_faults(0);
			if let Err(f) = r {
				disarm();
				return Err(f)
			}
			iotrack::paused(|| -> Res<()> {
				for i in 0..3u64 {
					rng = splitmix(rng);
					let img = dir.join(format!("kimg{i}"));
					let mode = (rng % 4) as u8; // 0 none, 1 all, 2-3 random
					let (kept, dropped, _) = build_power_image(&w, &s, &img, rng, mode, true).map_err(|e| Failure::new("harness-io", format!("power image: {e}")))?;
					images.push((img, rng, kept, dropped));
				}
				Ok(())
			})?;
			drop(it);
			disarm();
			Ok(())
		});
		let _ = iotrack::stop();
		disarm();
		r?;
		for (img, seed, kept, dropped) in images {
			recover_and_check(sc, &info, &sp0, &img, dir, info.synced).map_err(|f| {
				Failure::new(
					format!("power-loss-after-kill:{}", f.sig),
					format!("process killed after op {k} ({} committed, {} synced); a second process opened the directory and the power failed at file operation {n} of {total} of that open (image seed {seed}, {kept} dirty pages kept / {dropped} dropped): {}", info.committed, info.synced, f.detail),
				)
			})?;
			out.sub_evals += 1;
			if kept > 0 && dropped > 0 {
				out.sub_nontrivial += 1;
			}
			let _ = std::fs::remove_dir_all(&img);
			for d in 0..3 {
				let _ = std::fs::remove_dir_all(dir.join(format!("rec{d}")));
			}
		}
	}
	out.nontrivial = out.labels.contains("killed-with-unsynced-log-records");
	Ok(out)
}

/// Power loss while the REAL worker threads run (always_flush, so that records are applied and
/// log files reclaimed while the client is still committing). Images are taken inside the
/// interposed calls (see `iotrack::SnapCfg`); the oracle needs no knowledge of the schedule:
/// every image must recover to a prefix of the commits started so far, and a transaction that
/// an EARLIER image already recovered (so its log record was durable then) must be recovered by
/// every later image too.
#[derive(Clone, Debug, Serialize, Deserialize)]
pub struct ThreadCase {
	/// only Commit ops
	pub sc: Scenario,
	pub msync_delay_us: u16,
	/// pause after commit i = pauses[i % len] microseconds
	pub pauses_us: Vec<u16>,
	pub stride: u8,
	pub seed: u64,
	/// delay before the sync of a log file (see `iotrack::LOGSYNC_DELAY_US`)
	#[serde(default)]
	pub logsync_delay_us: u16,
}

fn thread_case() -> impl Strategy<Value = ThreadCase> {
	// one workload in four grows the index under the worker threads (C09's key sets)
	prop_oneof![3 => thread_case_plain().boxed(), 1 => (thread_case_plain(), super::c09::scenario(14, 200)).prop_map(|(mut c, g)| {
		let mut sc = g;
		sc.ops.retain(|o| matches!(o, Op::Commit(_)));
		sc.cfg.always_flush = true;
		c.sc = sc;
		c
	}).boxed()]
}

fn thread_case_plain() -> impl Strategy<Value = ThreadCase> {
	(mixed_cfg(2, false), prop_oneof![1 => Just(0u16), 3 => 50u16..3000], proptest::collection::vec(prop_oneof![1 => Just(0u16), 3 => 100u16..1500, 2 => 1500u16..6000], 1..6), 1u8..3, any::<u64>(), prop_oneof![1 => Just(0u16), 2 => 200u16..4000]).prop_flat_map(
		|(mut cfg, msync_delay_us, pauses_us, stride, seed, logsync_delay_us)| {
			cfg.always_flush = true;
			cfg.sync_data = true;
			cfg.sync_wal = true;
			proptest::collection::vec(mixed_items(&cfg, 12, 20_000, 5, 0).prop_map(Op::Commit), 12..50).prop_map(move |ops| ThreadCase {
				sc: Scenario { cfg: cfg.clone(), ops },
				msync_delay_us,
				pauses_us: pauses_us.clone(),
				stride,
				seed,
				logsync_delay_us,
			})
		},
	)
}

pub fn run_thread_case(case: &ThreadCase, dir: &Path) -> CaseResult {
	use std::sync::atomic::Ordering;
	let mut out = CaseOut::default();
	if !iotrack_available() {
		fail!("harness-io", "C12 must run inside the pdbv_io binary (syscall interposers missing)")
	}
	let sc = &case.sc;
	let work = dir.join("work");
	let shadow = dir.join("shadow");
	let snaps_dir = dir.join("snaps");
	for d in [&work, &shadow, &snaps_dir] {
		let _ = std::fs::remove_dir_all(d);
	}
	std::fs::create_dir_all(&work).map_err(|e| Failure::new("harness-io", e.to_string()))?;
	iotrack::start_threaded(&work, &shadow, iotrack::SnapCfg { dir: snaps_dir.clone(), max: 70, stride: case.stride as u64, seed: case.seed }, case.msync_delay_us as u64);
	iotrack::LOGSYNC_DELAY_US.store(case.logsync_delay_us as u64, Ordering::SeqCst);
	let r = (|| -> Res<ImageInfo> {
		let mut it = Interp::new(&sc.cfg, &work, Interp::universe_of(sc));
		it.background = true;
		it.keep_prefix = true;
		it.check_every_op = false;
		it.open()?;
		let mut i = 0usize;
		for op in sc.ops.iter().filter(|o| matches!(o, Op::Commit(_))) {
			iotrack::ISSUED.store(i as u64 + 1, Ordering::SeqCst);
			it.step(op)?;
			let p = case.pauses_us[i % case.pauses_us.len()];
			if p > 0 {
				std::thread::sleep(std::time::Duration::from_micros(p as u64));
			}
			i += 1;
		}
		// let the workers finish (bounded wait; not an oracle)
		let t0 = std::time::Instant::now();
		while t0.elapsed() < std::time::Duration::from_secs(10) {
			let st = it.db().verif_pipeline_state();
			if st.0 == 0 && st.2 <= 0 && st.3 == 0 && !st.4 {
				break
			}
			std::thread::sleep(std::time::Duration::from_millis(2));
		}
		let info = ImageInfo {
			faulted: true,
			committed: it.committed,
			synced: 0,
			cleaned: 0,
			cleaned_or_enacted: 0,
			last_enacted_record: 0,
			had_log: true,
			cut_inside: false,
			prefix: it.prefix.clone(),
			addr: it.addr.clone(),
			universe: it.universe.clone(),
			labels: Default::default(),
		};
		it.close();
		Ok(info)
	})();
	let tracker = iotrack::stop();
	let info = r?;
	let snaps = tracker.map(|t| t.snaps).unwrap_or_default();
	let _ = std::fs::remove_dir_all(&work);
	let _ = std::fs::remove_dir_all(&shadow);
	let sp = StopPoint { op: 0, n: 0, cut: None, recover_n: vec![] };
	let mut lower = 0usize;
	let mut lower_from = String::new();
	let mut reclaim_while_committing = 0u64;
	for s in &snaps {
		let mut info_i = info.clone();
		info_i.committed = (s.issued as usize).min(info.committed);
		let pre = std::env::var("PDBV_KEEP_FAILED").ok().map(|keep| Path::new(&keep).join(format!("pre-{}-{}", std::process::id(), s.seq)));
		if let Some(pre) = &pre {
			let _ = copy_dir(&s.dir, pre);
		}
		let rec = recover_and_check(sc, &info_i, &sp, &s.dir, dir, lower).map_err(|f| {
			if let Ok(keep) = std::env::var("PDBV_KEEP_FAILED") {
				let d = Path::new(&keep).join(format!("failed-{}-{}", std::process::id(), s.seq));
				let _ = copy_dir(&s.dir, &d);
				let _ = std::fs::write(d.join("CASE.json"), serde_json::to_string(&(sc, &s.what, &s.log_cuts, s.issued, lower)).unwrap_or_default());
			}
			Failure::new(
				format!("power-loss-threaded:{}", f.sig),
				format!(
					"power-loss image #{} taken at '{}'{} ({} commits started, {} dirty pages kept / {} dropped): {}{}",
					s.seq,
					s.what,
					if s.volatile { format!(" [log files (name, length, durable, kept): {:?}]", s.log_cuts) } else { String::new() },
					s.issued,
					s.kept_pages,
					s.dropped_pages,
					f.detail,
					if f.sig == "recovered-state-too-old" { format!(" [transaction {lower} had been recovered from the earlier image taken at '{lower_from}', so its log record was durable]") } else { String::new() }
				),
			)
		})?;
		// the lowest prefix the observation is compatible with (ambiguity must not raise the bound)
		if let Some(pre) = &pre {
			let _ = std::fs::remove_dir_all(pre);
		}
		let p = *rec.candidates.last().unwrap_or(&rec.prefix_index);
		if s.volatile {
			out.count("threaded_images_with_unsynced_log_bytes", 1);
			if s.unsynced_logs >= 2 {
				out.count("threaded_images_with_two_unsynced_log_files", 1);
				out.label("two-log-files-unsynced-at-once");
			}
			out.excluded_known_count(s.anchors_kept);
		}
		// what an image with unsynced log bytes recovers was not necessarily durable
		if p > lower && !s.volatile {
			lower = p;
			lower_from = s.what.clone();
		}
		drop(rec);
		out.sub_evals += 1;
		if !s.what.starts_with("sync") && (s.issued as usize) < info.committed {
			reclaim_while_committing += 1;
		}
		if s.dropped_pages > 0 {
			out.count("images_with_dropped_pages", 1);
		}
		let _ = std::fs::remove_dir_all(&s.dir);
		for d in 0..3 {
			let _ = std::fs::remove_dir_all(dir.join(format!("rec{d}")));
		}
	}
	let _ = std::fs::remove_dir_all(&snaps_dir);
	out.count("threaded_images", snaps.len() as u64);
	out.count("threaded_images_at_log_reclaim_while_committing", reclaim_while_committing);
	out.sub_nontrivial = reclaim_while_committing;
	out.nontrivial = reclaim_while_committing > 0;
	if out.nontrivial {
		out.label("log-reclaimed-while-client-commits");
	}
	out.label("real-worker-threads");
	Ok(out)
}

fn run(ctx: &Ctx) {
	let thorough = ctx.tier == "thorough";
	let n = scaled(ctx, 32, 2_800);
	if !ctx.run_prop_shrink("power", n, 40, power_case(), |c, dir| run_power_case(c, dir, if thorough { 120 } else { 16 }, 3)) {
		return
	}
	let n = scaled(ctx, 96, 6_000);
	if !ctx.run_prop_shrink(
		"power-after-kill",
		n,
		20,
		(crash_scenario(3, 4, 12, true, 40_000), any::<u16>(), any::<u64>()).prop_map(|(mut sc, kill_at, sample_seed)| {
			sc.cfg.sync_data = true;
			AfterKillCase { sc, kill_at, sample_seed }
		}),
		run_after_kill_case,
	) {
		return
	}
	let n = scaled(ctx, 96, 6_000);
	ctx.run_prop_shrink("power-threads", n, 12, thread_case(), |c, dir| guarded(|| run_thread_case(c, dir)));
}

fn replay(ctx: &Ctx, path: &Path) -> Result<(), Failure> {
	let v: serde_json::Value = serde_json::from_str(&std::fs::read_to_string(path).map_err(|e| Failure::new("bad-replay", e.to_string()))?).map_err(|e| Failure::new("bad-replay", e.to_string()))?;
	if v.get("sub").and_then(|s| s.as_str()) == Some("power-after-kill") {
		let (_sub, c): (String, AfterKillCase) = load_replay(path).map_err(|e| Failure::new("bad-replay", e))?;
		let dir = ctx.case_dir();
		return guarded(|| run_after_kill_case(&c, &dir)).map(|_| ())
	}
	if v.get("sub").and_then(|s| s.as_str()) == Some("power-threads") {
		let (_sub, c): (String, ThreadCase) = load_replay(path).map_err(|e| Failure::new("bad-replay", e))?;
		let dir = ctx.case_dir();
		return guarded(|| run_thread_case(&c, &dir)).map(|_| ())
	}
	let (_sub, c): (String, PowerCase) = load_replay(path).map_err(|e| Failure::new("bad-replay", e))?;
	let dir = ctx.case_dir();
	guarded(|| run_power_case(&c, &dir, 120, 3)).map(|_| ())
}
