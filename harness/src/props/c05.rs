//! C05, real-OS-thread part (the schedule-controlled part lives in the shuttle crate): the same
//! workload shape and the same oracle, with std threads, the library's own background workers
//! and `always_flush`, so that memory-mapped table bytes are really read while another thread
//! rewrites them - which shuttle, scheduling only at lock operations, cannot interleave.

use super::*;
use crate::{interp::fail, runner::*, spec::splitmix};
use parity_db::{ColumnOptions, Db, Options};
use proptest::prelude::*;
use serde::{Deserialize, Serialize};
use std::{
	path::Path,
	sync::{
		atomic::{AtomicBool, AtomicU32, AtomicU64, Ordering},
		Arc, Mutex,
	},
};

#[derive(Clone, Debug, Serialize, Deserialize)]
pub struct Workload {
	/// per writer: transactions, each a list of (key index 0..KEYS, length class)
	pub writers: Vec<Vec<Vec<(u8, u8)>>>,
	/// number of reader threads; each reads keys chosen by its own generator stream until the
	/// writers are done (at least `min_reads` reads)
	pub readers: u8,
	pub min_reads: u16,
	pub read_seed: u64,
	pub btree: bool,
	pub grow: bool,
	pub compression: u8,
	/// pause of the writers between transactions (microseconds, cycled)
	pub pauses_us: Vec<u16>,
}

pub const KEYS: u8 = 8;
const LENS: [usize; 8] = [0, 5, 30, 60, 200, 1000, 4100, 33000];

fn key_bytes(w: u8, k: u8, grow: bool) -> Vec<u8> {
	if grow {
		// all keys share the top 16 bits; bits 47..45 spread them over sub-pages
		let id = w as u64 * 64 + k as u64;
		let prefix: u64 = (0x5a5au64 << 48) | ((id % 8) << 45) | (splitmix(id) & ((1 << 35) - 1)) << 10 | 0x155;
		let mut key = vec![0u8; 32];
		key[..8].copy_from_slice(&prefix.to_be_bytes());
		key[8] = w;
		key[9] = k;
		for i in 10..32 {
			key[i] = splitmix(id * 100 + i as u64) as u8;
		}
		key
	} else {
		vec![b'k', w, k, 0x33]
	}
}

fn value_bytes(w: u8, k: u8, t: u32, class: u8) -> Vec<u8> {
	let len = LENS[class as usize % LENS.len()];
	let mut v = Vec::with_capacity(len + 7);
	v.push(w);
	v.push(k);
	v.extend_from_slice(&t.to_le_bytes());
	v.push(class);
	let fill = (t.wrapping_mul(31) as u8).wrapping_add(k);
	v.extend(std::iter::repeat(fill).take(len));
	v
}

/// last transaction <= upto of writer w that wrote key k (0 = never)
fn last_write(wl: &Workload, w: u8, k: u8, upto: u32) -> u32 {
	let mut last = 0;
	for (i, tx) in wl.writers[w as usize].iter().enumerate() {
		let t = i as u32 + 1;
		if t > upto {
			break
		}
		if tx.iter().any(|(kk, _)| *kk == k) {
			last = t;
		}
	}
	last
}

fn class_of(wl: &Workload, w: u8, k: u8, t: u32) -> u8 {
	// the last entry for k inside transaction t wins
	wl.writers[w as usize][t as usize - 1].iter().rev().find(|(kk, _)| *kk == k).map(|(_, c)| *c).unwrap_or(0)
}

/// grow mode: unique filler keys under the same 16-bit index page, two per transaction, so that
/// the page overflows (index growth) while the readers are at work
fn filler_key(id: u64) -> Vec<u8> {
	let prefix: u64 = (0x5a5au64 << 48) | ((id % 8) << 45) | (splitmix(id ^ 0xf111) & ((1 << 35) - 1)) << 10 | 0x2aa;
	let mut key = vec![0u8; 32];
	key[..8].copy_from_slice(&prefix.to_be_bytes());
	for i in 8..32 {
		key[i] = splitmix(id * 77 + i as u64) as u8;
	}
	key
}

pub fn workload() -> impl Strategy<Value = Workload> {
	let tx = proptest::collection::vec((0..KEYS, 0u8..8), 1..=4);
	let writer = proptest::collection::vec(tx, 8..60);
	(
		proptest::collection::vec(writer, 1..=2),
		1u8..=3,
		20u16..200,
		any::<u64>(),
		prop_oneof![2 => Just(false), 1 => Just(true)],
		prop_oneof![3 => Just(false), 1 => Just(true)],
		0u8..3,
		proptest::collection::vec(prop_oneof![3 => Just(0u16), 2 => 1u16..200, 1 => 200u16..2000], 1..5),
	)
		.prop_map(|(writers, readers, min_reads, read_seed, btree, grow, compression, pauses_us)| Workload { writers, readers, min_reads, read_seed, btree, grow: grow && !btree, compression, pauses_us })
}

fn options(dir: &Path, wl: &Workload) -> Options {
	let mut o = Options::with_columns(dir, 1);
	o.columns[0] = ColumnOptions {
		btree_index: wl.btree,
		uniform: wl.grow,
		compression: match wl.compression {
			1 => parity_db::CompressionType::Lz4,
			2 => parity_db::CompressionType::Snappy,
			_ => parity_db::CompressionType::NoCompression,
		},
		..Default::default()
	};
	o.salt = Some(if wl.grow { [0u8; 32] } else { [7u8; 32] });
	o.stats = false;
	o.with_background_thread = true;
	o.always_flush = true;
	o
}

pub fn run_workload(wl: &Workload, dir: &Path) -> CaseResult {
	let mut out = CaseOut::default();
	let _ = std::fs::remove_dir_all(dir);
	std::fs::create_dir_all(dir).map_err(|e| Failure::new("harness-io", e.to_string()))?;
	let db = Arc::new(Db::open_or_create(&options(dir, wl)).map_err(|e| Failure::new("open-failed", e.to_string()))?);
	let nw = wl.writers.len();
	let started: Arc<Vec<AtomicU32>> = Arc::new((0..nw).map(|_| AtomicU32::new(0)).collect());
	let completed: Arc<Vec<AtomicU32>> = Arc::new((0..nw).map(|_| AtomicU32::new(0)).collect());
	let writers_done = Arc::new(AtomicU32::new(0));
	let busy_reads = Arc::new(AtomicU64::new(0));
	let total_reads = Arc::new(AtomicU64::new(0));
	let stop = Arc::new(AtomicBool::new(false));
	let failure: Arc<Mutex<Option<Failure>>> = Arc::new(Mutex::new(None));
	let wl = Arc::new(wl.clone());
	let report = |failure: &Arc<Mutex<Option<Failure>>>, stop: &Arc<AtomicBool>, sig: &str, detail: String| {
		let mut f = failure.lock().unwrap();
		if f.is_none() {
			*f = Some(Failure::new(sig, detail));
		}
		stop.store(true, Ordering::SeqCst);
	};
	std::thread::scope(|sc| {
		for w in 0..nw {
			let (db, wl, started, completed, writers_done, failure, stop) = (db.clone(), wl.clone(), started.clone(), completed.clone(), writers_done.clone(), failure.clone(), stop.clone());
			sc.spawn(move || {
				for (i, tx) in wl.writers[w].iter().enumerate() {
					if stop.load(Ordering::SeqCst) {
						break
					}
					let t = i as u32 + 1;
					started[w].store(t, Ordering::SeqCst);
					let mut items: Vec<(u8, Vec<u8>, Option<Vec<u8>>)> = tx.iter().map(|(k, c)| (0u8, key_bytes(w as u8, *k, wl.grow), Some(value_bytes(w as u8, *k, t, *c)))).collect();
					if wl.grow {
						for j in 0..2u64 {
							items.push((0u8, filler_key(10_000 * (w as u64 + 1) + t as u64 * 2 + j), Some(vec![j as u8; 9])));
						}
					}
					if let Err(e) = db.commit(items) {
						report(&failure, &stop, "commit-failed", format!("writer {w} tx {t}: {e}"));
						break
					}
					completed[w].store(t, Ordering::SeqCst);
					let p = wl.pauses_us[i % wl.pauses_us.len()];
					if p > 0 {
						std::thread::sleep(std::time::Duration::from_micros(p as u64));
					}
				}
				writers_done.fetch_add(1, Ordering::SeqCst);
			});
		}
		for r in 0..wl.readers as usize {
			let (db, wl, started, completed, writers_done, failure, stop, busy_reads, total_reads) =
				(db.clone(), wl.clone(), started.clone(), completed.clone(), writers_done.clone(), failure.clone(), stop.clone(), busy_reads.clone(), total_reads.clone());
			sc.spawn(move || {
				let mut seen = vec![0u32; wl.writers.len()];
				let mut rng = splitmix(wl.read_seed ^ (r as u64) << 32);
				let mut n = 0u64;
				loop {
					if stop.load(Ordering::SeqCst) {
						break
					}
					if n >= wl.min_reads as u64 && writers_done.load(Ordering::SeqCst) as usize == wl.writers.len() {
						break
					}
					if n > 200_000 {
						break
					}
					rng = splitmix(rng);
					let w = (rng % wl.writers.len() as u64) as u8;
					let k = ((rng >> 8) % KEYS as u64) as u8;
					let lo = completed[w as usize].load(Ordering::SeqCst);
					let st = db.verif_pipeline_state();
					let got = match db.get(0, &key_bytes(w, k, wl.grow)) {
						Ok(g) => g,
						Err(e) => {
							report(&failure, &stop, "get-failed", format!("reader {r}: get({w},{k}) failed: {e}"));
							break
						},
					};
					let hi = started[w as usize].load(Ordering::SeqCst);
					n += 1;
					if st.0 > 0 || st.2 > 0 || st.4 {
						busy_reads.fetch_add(1, Ordering::Relaxed);
					}
					let t = match &got {
						None => 0,
						Some(v) => {
							if v.len() < 7 || v[0] != w || v[1] != k {
								report(&failure, &stop, "foreign-value", format!("reader {r}: key ({w},{k}) returned a value that is not one of its versions (len {})", v.len()));
								break
							}
							let t = u32::from_le_bytes(v[2..6].try_into().unwrap());
							if t == 0 || t as usize > wl.writers[w as usize].len() || !wl.writers[w as usize][t as usize - 1].iter().any(|(kk, _)| *kk == k) {
								report(&failure, &stop, "impossible-version", format!("reader {r}: key ({w},{k}) returned version {t} which never wrote it"));
								break
							}
							if *v != value_bytes(w, k, t, class_of(&wl, w, k, t)) {
								report(&failure, &stop, "torn-value", format!("reader {r}: key ({w},{k}) version {t}: bytes differ from what that transaction wrote (len {})", v.len()));
								break
							}
							t
						},
					};
					let oldest_allowed = last_write(&wl, w, k, lo);
					let newest_allowed = last_write(&wl, w, k, hi);
					if t < oldest_allowed {
						report(&failure, &stop, "stale-read", format!("reader {r}: key ({w},{k}) returned version {t} but transaction {oldest_allowed} had completed before the read began (completed {lo})"));
						break
					}
					if t > newest_allowed {
						report(&failure, &stop, "read-from-the-future", format!("reader {r}: key ({w},{k}) returned version {t} but only {hi} transactions had started"));
						break
					}
					let must = last_write(&wl, w, k, seen[w as usize]);
					if t < must {
						report(&failure, &stop, "went-back-in-time", format!("reader {r}: had observed transaction {} of writer {w}, then key ({w},{k}) returned version {t} < {must} (partial / non-monotonic visibility)", seen[w as usize]));
						break
					}
					if t > seen[w as usize] {
						seen[w as usize] = t;
					}
				}
				total_reads.fetch_add(n, Ordering::SeqCst);
			});
		}
	});
	if let Some(f) = failure.lock().unwrap().take() {
		drop(db);
		return Err(f)
	}
	let db = Arc::try_unwrap(db).map_err(|_| Failure::new("harness", "db still shared"))?;
	drop(db);
	// everything committed is there after a clean close
	let mut o = options(dir, &wl);
	o.with_background_thread = false;
	let db = Db::open(&o).map_err(|e| Failure::new("reopen-failed", e.to_string()))?;
	for w in 0..nw as u8 {
		for k in 0..KEYS {
			let t = last_write(&wl, w, k, wl.writers[w as usize].len() as u32);
			let want = if t == 0 { None } else { Some(value_bytes(w, k, t, class_of(&wl, w, k, t))) };
			let got = db.get(0, &key_bytes(w, k, wl.grow)).map_err(|e| Failure::new("get-failed", e.to_string()))?;
			if got != want {
				fail!("final-state-mismatch", "after clean close and reopen key ({w},{k}) has {:?} bytes, expected version {t}", got.map(|v| v.len()))
			}
		}
	}
	drop(db);
	let busy = busy_reads.load(Ordering::SeqCst);
	out.count("reads", total_reads.load(Ordering::SeqCst));
	out.count("reads_while_pipeline_busy", busy);
	out.nontrivial = busy > 0;
	out.label("os-threads");
	if wl.grow {
		out.label("index-growth");
	}
	if wl.btree {
		out.label("btree");
	}
	Ok(out)
}

fn run(ctx: &Ctx) {
	// this binary runs the OS-thread part on its shards; the shuttle binary runs the
	// schedule-controlled part on the others (bin/check C05 starts both)
	let n = scaled(ctx, 1_600, 80_000);
	ctx.run_prop_shrink("os-threads", n, 8, workload(), |wl, dir| guarded(|| run_workload(wl, dir)));
}

fn replay(ctx: &Ctx, path: &Path) -> Result<(), Failure> {
	let (_sub, wl): (String, Workload) = load_replay(path).map_err(|e| Failure::new("bad-replay", e))?;
	// the schedule is the operating system's: repeat
	for _ in 0..40 {
		let dir = ctx.case_dir();
		guarded(|| run_workload(&wl, &dir)).map(|_| ())?;
	}
	Ok(())
}

pub fn def(shuttle: PropDef) -> PropDef {
	PropDef { run, replay, engine: 2, ..shuttle }
}
