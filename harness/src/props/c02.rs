//! C02 A crash at any instant recovers to a prefix of the committed transactions.
//! Also hosts the shared stop-point enumeration used by C03(b), C07, C09 and C16.

use super::*;
use crate::{gen::*, image::*, interp::*, runner::*, spec::*};
use proptest::prelude::*;
use serde::{Deserialize, Serialize};
use std::path::Path;

pub fn def() -> PropDef {
	PropDef {
		id: "C02",
		level: "fault_enumeration",
		rule: "generated scenarios over hash / hash-rc / btree / btree-rc / multitree columns (multi-column transactions, single+multipart values, single pipeline steps); for each scenario EVERY stop point (op s, file-operation index n inside op s) of every pipeline op (P/F/E/C/R/Drain/Reopen) is enumerated up to a per-scenario cap (then sampled with the case seed), each with the directory copied at that instant, optionally the unsynced log tail cut at a generated length, optionally further crashes inside recovery (every file-operation index of Db::open sampled, depth <= 2/3). Oracle: Db::open succeeds, observed state (all keys of the universe, all trees) equals the model after some prefix p <= committed; then a tail of further commits is applied and checked, drained, reopened. Sub-run `kill`: a child process runs generated commits with the REAL worker threads, acknowledging each on a pipe, and is SIGKILLed after a generated number of acknowledgements plus a generated delay (any instant, also between two memory-mapped table writes); the reopened directory must equal a prefix p <= acknowledged+1 and keep working (incl. the raw layout check). Non-trivial = the stop point is strictly inside an op (the op returned the injected error) and the image holds a non-empty log (kill runs: always); distinct = distinct (scenario, stop point) pairs",
		assumptions: &[
			"process-crash model: file content at the crash instant is what a later open sees (no page loss - that is C12); the unsynced tail of a log file may additionally be cut at any byte",
			"stop points are the library's own try_io! sites (feature instrumentation); table writes through mmap between two such sites are covered by the boundary images before and after",
			"histories without a concurrently locked tree reader (as the property states)",
		],
		run,
		replay,
		shards: default_shards,
		watchdog_s: default_watchdog,
		engine: 0,
	}
}

#[derive(Clone, Debug, Serialize, Deserialize)]
pub struct CrashCase {
	pub sc: Scenario,
	pub sample_seed: u64,
	pub only: Option<StopPoint>,
}

/// Scenario generator built from blocks. Four regimes make the interesting pipeline
/// states common: 0 = free mix of single steps, 1 = "rotating" (every commit is logged and its
/// log file flushed at once, enact/clean sprinkled in between, so several log files are
/// pending and recycled out of order), 2 = "deep queue" (bursts of commits, then bursts of
/// processing).
pub fn crash_scenario(max_cols: usize, min_ops: usize, max_ops: usize, multi: bool, big: u32) -> impl Strategy<Value = Scenario> {
	(mixed_cfg(max_cols, multi), prop_oneof![5 => 0u8..4, 1 => Just(4u8)]).prop_flat_map(move |(mut cfg, regime)| {
		if regime == 4 {
			// "kept logs": with sync_data = false the library keeps the 16 newest applied log
			// files on disk and replays them again after a crash
			cfg.sync_data = false;
		}
		// besides small mixed transactions: bulk inserts / deletions of a dense key run in a btree
		// column (if there is one), so that splits, merges and root changes are what a crash hits
		let btree_col = cfg.cols.iter().position(|c| c.kind == Kind::Btree && !c.rc).map(|c| c as u8);
		let small = mixed_items(&cfg, 12, big, 6, 3).prop_map(Op::Commit);
		let commit: BoxedStrategy<Op> = match btree_col {
			Some(col) => prop_oneof![
				8 => small,
				1 => (0u16..60, 10u16..70, any::<bool>(), 0u16..500).prop_map(move |(start, n, del, seed)| {
					Op::Commit(
						(0..n)
							.map(|i| {
								let k = (start + i) % 90;
								Item { col, ch: if del && i % 4 != 0 { Change::Del(k) } else { Change::Set(k, VSpec { len: 5 + (i as u32 % 40), fill: 1, seed: seed.wrapping_add(i) }) } }
							})
							.collect(),
					)
				}),
			]
			.boxed(),
			None => small.boxed(),
		};
		let block: BoxedStrategy<Vec<Op>> = match regime {
			0 => prop_oneof![
				10 => commit.prop_map(|c| vec![c]),
				12 => stage_op().prop_map(|o| vec![o]),
				1 => Just(vec![Op::Reopen]),
				1 => Just(vec![Op::Drain]),
			]
			.boxed(),
			1 => prop_oneof![
				10 => commit.clone().prop_map(|c| vec![c, Op::P, Op::F]),
				2 => commit.prop_map(|c| vec![c, Op::P]),
				4 => Just(vec![Op::E]),
				3 => Just(vec![Op::C]),
				1 => Just(vec![Op::F]),
				1 => Just(vec![Op::R]),
			]
			.boxed(),
			// 3 = "no cleanup": one log file per commit, enacted but never reclaimed, so that many
			// consumed log files await cleanup when the handle is dropped / the crash happens
			3 => prop_oneof![
				10 => commit.clone().prop_map(|c| vec![c, Op::P, Op::F]),
				2 => commit.prop_map(|c| vec![c, Op::P]),
				7 => Just(vec![Op::E]),
				1 => Just(vec![Op::F]),
			]
			.boxed(),
			// 4 = "kept logs" (sync_data = false): runs of commits with one log file each, so that
			// more than 16 applied files cycle through the cleanup queue
			4 => prop_oneof![
				10 => proptest::collection::vec(commit.clone(), 3..9).prop_map(|cs| cs.into_iter().flat_map(|c| [c, Op::P, Op::F, Op::E]).collect::<Vec<_>>()),
				3 => commit.prop_map(|c| vec![c, Op::P]),
				3 => Just(vec![Op::C]),
				1 => Just(vec![Op::F]),
				1 => Just(vec![Op::E]),
				1 => Just(vec![Op::Reopen]),
			]
			.boxed(),
			_ => prop_oneof![
				6 => proptest::collection::vec(commit, 1..4),
				4 => proptest::collection::vec(Just(Op::P), 1..4),
				2 => Just(vec![Op::F]),
				2 => Just(vec![Op::F, Op::E]),
				2 => Just(vec![Op::E]),
				2 => Just(vec![Op::C]),
				1 => Just(vec![Op::R]),
				1 => Just(vec![Op::Reopen]),
			]
			.boxed(),
		};
		proptest::collection::vec(block, min_ops..=max_ops).prop_map(move |blocks| {
			let mut ops: Vec<Op> = blocks.into_iter().flatten().collect();
			ops.truncate(if regime == 4 { 140 } else { max_ops * 2 });
			Scenario { cfg: cfg.clone(), ops }
		})
	})
}

pub fn crash_case(max_cols: usize, min_ops: usize, max_ops: usize, multi: bool) -> impl Strategy<Value = CrashCase> {
	(crash_scenario(max_cols, min_ops, max_ops, multi, 40_000), any::<u64>()).prop_map(|(sc, sample_seed)| CrashCase { sc, sample_seed, only: None })
}

/// Runs a scenario without faults; used as a sanity pass and to count the file operations
/// of each op. Returns per-op counts.
pub fn count_io(sc: &Scenario, dir: &Path) -> Res<Vec<usize>> {
	let mut it = Interp::new(&sc.cfg, dir, Interp::universe_of(sc));
	// reads go through try_io! sites too (mapped chunk access): keep them out of the count
	it.check_every_op = false;
	it.open()?;
	let mut counts = Vec::new();
	const BIG: usize = usize::MAX / 2;
	for op in &sc.ops {
		set_faults(BIG);
		let r = it.step(op);
		let used = BIG - remaining_faults();
		disarm();
		r?;
		counts.push(used);
		it.check_reads(false)?;
	}
	it.step(&Op::Reopen)?;
	it.check_reads(true)?;
	Ok(counts)
}

pub fn count_open_io(sc: &Scenario, img: &Path, tmp: &Path, universe: &[std::collections::BTreeSet<u16>]) -> Res<usize> {
	copy_dir(img, tmp).map_err(|e| Failure::new("harness-io", e.to_string()))?;
	let mut it = Interp::new(&sc.cfg, tmp, universe.to_vec());
	const BIG: usize = usize::MAX / 2;
	set_faults(BIG);
	let r = it.open();
	let used = BIG - remaining_faults();
	set_faults(0);
	drop(it);
	disarm();
	r.map_err(|f| Failure::new(format!("recovery-{}", f.sig), format!("opening the crash image failed: {}", f.detail)))?;
	Ok(used)
}

pub struct CrashOpts {
	pub cap: usize,
	pub rec_depth: usize,
	/// lower bound selector: false = 0 (C02), true = synced transactions (C03b)
	pub synced_bound: bool,
	pub tail: bool,
	/// re-parse the recovered (and drained) directory with the raw layout reader (C14)
	pub layout: bool,
	/// tolerate (and count) the known-finding shapes; false = strict (regression cases)
	pub tolerate_known: bool,
}

/// The remaining commits of the scenario after the stop point serve as the tail.
fn tail_ops(sc: &Scenario, sp: &StopPoint) -> Vec<Op> {
	let mut v: Vec<Op> = sc.ops.iter().skip(sp.op + 1).filter(|o| matches!(o, Op::Commit(_))).take(3).cloned().collect();
	if v.is_empty() {
		v = sc.ops.iter().filter(|o| matches!(o, Op::Commit(_))).take(2).cloned().collect();
	}
	v
}

pub fn check_stop_point(sc: &Scenario, sp: &StopPoint, dir: &Path, opts: &CrashOpts, out: &mut CaseOut) -> Res<bool> {
	let work = dir.join("work");
	let img = dir.join("img");
	let info = make_image(sc, sp, &work, &img)?;
	let _ = std::fs::remove_dir_all(&work);
	let lower = if opts.synced_bound { info.synced } else { 0 };
	let rec = recover_and_check(sc, &info, sp, &img, dir, lower).map_err(|f| f.with_case(&CrashCase { sc: sc.clone(), sample_seed: 0, only: Some(sp.clone()) }))?;
	let mut it = rec.interp;
	let p = rec.prefix_index;
	out.count(&format!("recovered_minus_synced:{}", (p as i64 - info.synced as i64).clamp(-1, 3)), 1);
	if p < info.committed {
		out.label("lost-unsynced-suffix");
	}
	if rec.recovery_crashes > 0 {
		out.label("crash-during-recovery");
		out.count("recovery_crashes", rec.recovery_crashes as u64);
	}
	if info.cut_inside {
		out.label("log-tail-cut");
	}
	if info.synced > 0 && opts.synced_bound {
		out.label("synced-bound-active");
	}
	let wrap = |f: Failure| f.with_case(&CrashCase { sc: sc.clone(), sample_seed: 0, only: Some(sp.clone()) });
	// the recovered database keeps working
	let claim_leaks = std::cell::Cell::new(0u64);
	if opts.tail {
		let tail = |it: &mut Interp, p: usize| -> Res<()> {
			let r: Res<()> = (|| {
				it.check_reads(true)?;
				for op in tail_ops(sc, sp) {
					it.step(&op)?;
				}
				it.step(&Op::Drain)?;
				it.check_reads(true)?;
				it.step(&Op::Reopen)?;
				it.check_reads(true)?;
				if opts.layout {
					it.ensure_room_for_close()?;
					it.close();
					let rep = crate::layout::check_dir_opts(&it.cfg, &it.dir, Some(&*it), opts.tolerate_known).map_err(|e| Failure::new(format!("layout:{}", e.sig), e.detail))?;
					claim_leaks.set(claim_leaks.get() + rep.claim_leaks);
				}
				Ok(())
			})();
			r.map_err(|f| wrap(Failure::new(format!("after-recovery:{}", f.sig), format!("recovered at prefix {p}: {}", f.detail))))
		};
		if rec.candidates.len() <= 1 {
			tail(&mut it, p)?;
		} else {
			// several prefixes are indistinguishable by observation (e.g. reference counts of a
			// btree column): the continuation must be consistent with at least one of them
			out.label("ambiguous-prefix");
			it.ensure_room_for_close()?;
			it.close();
			let mut first_err = None;
			let mut ok = false;
			for (i, cand) in rec.candidates.iter().enumerate() {
				let trial = dir.join(format!("trial{i}"));
				copy_dir(&rec.dir, &trial).map_err(|e| Failure::new("harness-io", e.to_string()))?;
				let mut t = Interp::new(&sc.cfg, &trial, info.universe.clone());
				t.open()?;
				adopt_prefix(&mut t, &info, *cand);
				let r = tail(&mut t, *cand);
				drop(t);
				let _ = std::fs::remove_dir_all(&trial);
				match r {
					Ok(()) => {
						ok = true;
						break
					},
					Err(f) =>
						if first_err.is_none() {
							first_err = Some(f)
						},
				}
			}
			if !ok {
				return Err(first_err.unwrap())
			}
		}
	}
	if claim_leaks.get() > 0 {
		out.count("excluded_known:multitree-claimed-slots-leaked-by-crash", claim_leaks.get());
		out.label("known-finding-shape-tolerated");
	}
	drop(it);
	let _ = std::fs::remove_dir_all(&img);
	for d in 0..4 {
		let _ = std::fs::remove_dir_all(dir.join(format!("rec{d}")));
	}
	if opts.synced_bound {
		// C03(b): the durability bound is doing work
		Ok(info.synced > info.cleaned)
	} else {
		Ok(info.faulted && info.had_log)
	}
}

pub fn run_crash_case(case: &CrashCase, dir: &Path, opts: &CrashOpts) -> CaseResult {
	let mut out = CaseOut::default();
	let sc = &case.sc;
	if let Some(sp) = &case.only {
		let nt = check_stop_point(sc, sp, dir, opts, &mut out)?;
		out.nontrivial = nt;
		return Ok(out)
	}
	let counts = count_io(sc, &dir.join("count"))?;
	let _ = std::fs::remove_dir_all(dir.join("count"));
	// enumerate stop points
	let mut points: Vec<StopPoint> = Vec::new();
	for (s, c) in counts.iter().enumerate() {
		if matches!(sc.ops[s], Op::Commit(_)) {
			continue
		}
		for n in 0..*c {
			points.push(StopPoint { op: s, n, cut: None, recover_n: vec![] });
		}
	}
	// boundary after the last op
	points.push(StopPoint { op: sc.ops.len(), n: 0, cut: None, recover_n: vec![] });
	let total = points.len();
	let mut rng = case.sample_seed;
	let mut next = move || {
		rng = splitmix(rng);
		rng
	};
	let exhaustive = total <= opts.cap;
	if !exhaustive {
		// sample without replacement
		for i in 0..opts.cap {
			let j = i + (next() as usize) % (total - i);
			points.swap(i, j);
		}
		points.truncate(opts.cap);
		out.label("stop-points-sampled");
	} else {
		out.label("stop-points-exhaustive");
	}
	out.count("stop_points_total", total as u64);
	// variants: log tail cuts and crashes inside recovery for a subset
	let mut extra = Vec::new();
	for sp in points.iter() {
		let r = next();
		if r % 4 == 0 {
			let mut v = sp.clone();
			v.cut = Some((r >> 16) as u16);
			extra.push(v);
		}
		if opts.rec_depth > 0 && r % 7 == 1 {
			let mut v = sp.clone();
			v.recover_n = vec![usize::MAX]; // resolved below
			if (r >> 8) % 2 == 0 {
				v.cut = Some((r >> 24) as u16);
			}
			extra.push(v);
		}
	}
	points.extend(extra);
	let mut seen_nt = std::collections::BTreeSet::new();
	for sp in points {
		let mut sp = sp;
		if sp.recover_n.first() == Some(&usize::MAX) {
			// count the file operations of recovery on this image and pick crash points in it
			let work = dir.join("work");
			let img = dir.join("img");
			let info = make_image(sc, &sp, &work, &img)?;
			let _ = std::fs::remove_dir_all(&work);
			let n_open = count_open_io(sc, &img, &dir.join("cnt"), &info.universe)
				.map_err(|f| f.with_case(&CrashCase { sc: sc.clone(), sample_seed: 0, only: Some(StopPoint { recover_n: vec![], ..sp.clone() }) }))?;
			let _ = std::fs::remove_dir_all(dir.join("cnt"));
			let _ = std::fs::remove_dir_all(&img);
			let mut rn = Vec::new();
			for _ in 0..opts.rec_depth {
				rn.push((next() as usize) % (n_open + 1));
			}
			sp.recover_n = rn;
		}
		let nt = guarded(|| check_stop_point(sc, &sp, dir, opts, &mut out)).map_err(|f| {
			if f.case_override.is_none() {
				f.with_case(&CrashCase { sc: sc.clone(), sample_seed: 0, only: Some(sp.clone()) })
			} else {
				f
			}
		})?;
		out.sub_evals += 1;
		if nt && seen_nt.insert(crate::runner::fingerprint(&sp)) {
			out.sub_nontrivial += 1;
		}
	}
	for c in &sc.cfg.cols {
		out.label(match (c.kind, c.rc) {
			(Kind::Hash, false) => "col-hash",
			(Kind::Hash, true) => "col-hash-rc",
			(Kind::Btree, false) => "col-btree",
			(Kind::Btree, true) => "col-btree-rc",
			(Kind::Multi, _) => "col-multitree",
		});
	}
	out.nontrivial = out.sub_nontrivial > 0;
	Ok(out)
}

// ------------------------------------------------------------------------------------------
// kill mode: a child process with the REAL worker threads is SIGKILLed at a generated moment

#[derive(Clone, Debug, Serialize, Deserialize)]
pub struct KillCase {
	pub sc: Scenario,
	/// kill after this many acknowledged commits (monotone selector)
	pub after_acks: u16,
	/// ... plus this many microseconds
	pub delay_us: u16,
	/// after the first kill: start a second process on the directory (it runs recovery with
	/// its worker threads) and kill it after this many microseconds, before the final reopen
	#[serde(default)]
	pub rekill_us: Option<u16>,
}

/// Child side: runs the commits of the scenario with background workers, acknowledging each.
pub fn kill_child_main(dir: &str, scenario_file: &str) -> i32 {
	use std::io::Write;
	let sc: Scenario = match std::fs::read(scenario_file).ok().and_then(|b| serde_json::from_slice(&b).ok()) {
		Some(s) => s,
		None => return 2,
	};
	let mut it = Interp::new(&sc.cfg, Path::new(dir), Interp::universe_of(&sc));
	it.background = true;
	it.check_every_op = false;
	if it.open().is_err() {
		return 2
	}
	println!("READY");
	let _ = std::io::stdout().flush();
	let mut n = 0;
	let stdin = std::io::stdin();
	for op in &sc.ops {
		if let Op::Commit(_) = op {
			// one token from the parent per commit: the parent decides how far the history goes
			let mut tok = String::new();
			if std::io::BufRead::read_line(&mut stdin.lock(), &mut tok).unwrap_or(0) == 0 {
				break
			}
			if it.step(op).is_err() {
				return 2
			}
			n += 1;
			println!("ACK {n}");
			let _ = std::io::stdout().flush();
		}
	}
	println!("DONE");
	let _ = std::io::stdout().flush();
	// stay alive (workers keep running) until killed
	std::thread::sleep(std::time::Duration::from_secs(30));
	0
}

fn kill_scenario() -> impl Strategy<Value = Scenario> {
	(mixed_cfg(3, true), 0u8..3).prop_flat_map(|(mut cfg, af)| {
		cfg.always_flush = af > 0;
		proptest::collection::vec(mixed_items(&cfg, 12, 40_000, 6, 3).prop_map(Op::Commit), 3..25).prop_map(move |ops| Scenario { cfg: cfg.clone(), ops })
	})
}

pub fn run_kill_case(case: &KillCase, dir: &Path) -> CaseResult {
	use std::io::{BufRead, BufReader};
	let mut out = CaseOut::default();
	let sc = &case.sc;
	// the prefix models, from a fault-free stepping run of the same commits
	let mut model_it = Interp::new(&sc.cfg, &dir.join("model"), Interp::universe_of(sc));
	model_it.keep_prefix = true;
	model_it.check_every_op = false;
	// the child runs with worker threads: same resolution of root keys here
	model_it.no_root_reuse = true;
	model_it.open()?;
	for op in &sc.ops {
		model_it.step(op)?;
	}
	let prefix = model_it.prefix.clone();
	let universe = model_it.universe.clone();
	let total = model_it.committed;
	drop(model_it);
	let _ = std::fs::remove_dir_all(dir.join("model"));
	// the child
	let db_dir = dir.join("db");
	let scf = dir.join("scenario.json");
	std::fs::write(&scf, serde_json::to_vec(sc).unwrap()).map_err(|e| Failure::new("harness-io", e.to_string()))?;
	let exe = std::env::current_exe().map_err(|e| Failure::new("harness-io", e.to_string()))?;
	let mut child = std::process::Command::new(exe)
		.args(["kill-child", db_dir.to_str().unwrap(), scf.to_str().unwrap()])
		.stdin(std::process::Stdio::piped())
		.stdout(std::process::Stdio::piped())
		.stderr(std::process::Stdio::null())
		.spawn()
		.map_err(|e| Failure::new("harness-io", e.to_string()))?;
	let mut reader = BufReader::new(child.stdout.take().unwrap());
	let mut child_in = child.stdin.take().unwrap();
	let target = pick(case.after_acks, total + 1);
	let mut acks = 0usize;
	let mut line = String::new();
	let done = target >= total;
	{
		use std::io::Write;
		// all tokens at once: the child commits back to back while its workers run
		let _ = child_in.write_all("c\n".repeat(target).as_bytes());
		let _ = child_in.flush();
	}
	loop {
		if acks >= target {
			break
		}
		line.clear();
		match reader.read_line(&mut line) {
			Ok(0) | Err(_) => break,
			Ok(_) =>
				if line.starts_with("ACK") {
					acks += 1;
				},
		}
	}
	std::thread::sleep(std::time::Duration::from_micros(case.delay_us as u64));
	let _ = child.kill();
	let _ = child.wait();
	drop(child_in);
	// anything acknowledged later than what we read may also have happened
	let mut later = String::new();
	use std::io::Read;
	let _ = reader.read_to_string(&mut later);
	let acked_total = acks + later.lines().filter(|l| l.starts_with("ACK")).count();
	let committed = acked_total.min(total);
	if let Some(us) = case.rekill_us {
		// a process killed while it recovers the directory
		let exe = std::env::current_exe().map_err(|e| Failure::new("harness-io", e.to_string()))?;
		let mut child = std::process::Command::new(exe)
			.args(["kill-child", db_dir.to_str().unwrap(), scf.to_str().unwrap()])
			.stdin(std::process::Stdio::piped())
			.stdout(std::process::Stdio::null())
			.stderr(std::process::Stdio::null())
			.spawn()
			.map_err(|e| Failure::new("harness-io", e.to_string()))?;
		std::thread::sleep(std::time::Duration::from_micros(us as u64));
		let _ = child.kill();
		let _ = child.wait();
		out.label("killed-again-while-recovering");
	}
	let info = ImageInfo {
		faulted: true,
		committed,
		synced: 0,
		cleaned: 0,
		cleaned_or_enacted: 0,
		last_enacted_record: 0,
		had_log: true,
		cut_inside: false,
		prefix,
		addr: Default::default(),
		universe,
		labels: Default::default(),
	};
	let sp = StopPoint { op: sc.ops.len(), n: 0, cut: None, recover_n: vec![] };
	let rec = recover_and_check(sc, &info, &sp, &db_dir, dir, 0).map_err(|f| Failure::new(format!("kill:{}", f.sig), format!("child killed after {acked_total} acknowledged commits (+{} us): {}", case.delay_us, f.detail)))?;
	let p = rec.prefix_index;
	if rec.candidates.len() == 1 {
		let mut it = rec.interp;
		let r: Res<()> = (|| {
			it.check_reads(true)?;
			for op in sc.ops.iter().take(2) {
				it.step(op)?;
			}
			it.step(&Op::Drain)?;
			it.check_reads(true)?;
			it.step(&Op::Reopen)?;
			it.check_reads(true)?;
			it.close();
			crate::layout::check_dir_opts(&it.cfg, &it.dir, Some(&it), true).map_err(|e| Failure::new(format!("layout:{}", e.sig), e.detail))?;
			Ok(())
		})();
		r.map_err(|f| Failure::new(format!("kill:after-recovery:{}", f.sig), format!("child killed after {acked_total} acknowledged commits, recovered at prefix {p}: {}", f.detail)))?;
	}
	out.count(&format!("acked_minus_recovered:{}", (acked_total as i64 - p as i64).clamp(-1, 4)), 1);
	if target == 0 {
		// not even the READY line was awaited: the kill may land inside the creation of the database
		out.label("killed-while-opening-or-before-first-commit");
	}
	if !done && acked_total < total {
		out.label("killed-mid-history");
	} else {
		out.label("killed-after-last-commit");
	}
	out.nontrivial = true;
	Ok(out)
}

/// A process that stops while the database is being CREATED: the only files written outside
/// the log are the tables initialised eagerly at creation (the header table of a btree column),
/// by memory copies without a file operation in between, so the injector cannot stop there.
/// The states such a stop leaves are built directly: every table file that exists after a
/// creation without commits is (variant 0) left alone, (1) zeroed completely = file created and
/// sized, nothing written yet, (2) zeroed in its first 16 bytes = entries written, table header
/// (written last) not yet. The directory must open, be empty, and work.
#[derive(Clone, Debug, Serialize, Deserialize)]
pub struct CreationCase {
	pub sc: Scenario,
	pub variants: Vec<u8>,
}

pub fn run_creation_case(case: &CreationCase, dir: &Path) -> CaseResult {
	use std::os::unix::fs::FileExt;
	let mut out = CaseOut::default();
	let sc = &case.sc;
	let db_dir = dir.join("db");
	let _ = std::fs::remove_dir_all(&db_dir);
	{
		let mut it = Interp::new(&sc.cfg, &db_dir, Interp::universe_of(sc));
		it.open()?;
		it.close();
	}
	let mut touched = 0;
	for (i, (name, size)) in file_sizes(&db_dir).into_iter().filter(|(n, _)| n.starts_with("table_")).enumerate() {
		let v = case.variants.get(i % case.variants.len().max(1)).cloned().unwrap_or(1) % 3;
		let zero = match v {
			0 => 0,
			1 => size,
			_ => 16.min(size),
		};
		if zero > 0 {
			let f = std::fs::OpenOptions::new().write(true).open(db_dir.join(&name)).map_err(|e| Failure::new("harness-io", e.to_string()))?;
			let z = vec![0u8; 1 << 16];
			let mut off = 0u64;
			while off < zero {
				let n = ((zero - off) as usize).min(z.len());
				f.write_all_at(&z[..n], off).map_err(|e| Failure::new("harness-io", e.to_string()))?;
				off += n as u64;
			}
			touched += 1;
			out.label(if v == 1 { "table-file-sized-not-written" } else { "table-header-not-written" });
		}
	}
	if case.variants.first().map_or(false, |v| *v >= 1) && touched == 0 {
		// nothing initialised eagerly: the stop came before the metadata was in place (it is
		// written to a temporary file and moved); a partial temporary file may be left behind
		let _ = std::fs::remove_file(db_dir.join("metadata"));
		let _ = std::fs::write(db_dir.join("metadata.tmp"), b"version=");
		out.label("metadata-not-in-place");
		touched = 1;
	}
	let mut it = Interp::new(&sc.cfg, &db_dir, Interp::universe_of(sc));
	it.check_every_op = true;
	let r: Res<()> = (|| {
		it.open()?;
		it.check_reads(true)?;
		for op in &sc.ops {
			it.step(op)?;
		}
		it.step(&Op::Drain)?;
		it.check_reads(true)?;
		it.step(&Op::Reopen)?;
		it.check_reads(true)?;
		it.close();
		crate::layout::check_dir(&it.cfg, &it.dir, Some(&it)).map_err(|e| Failure::new(format!("layout:{}", e.sig), e.detail))?;
		Ok(())
	})();
	r.map_err(|f| Failure::new(format!("creation-interrupted:{}", f.sig), format!("database whose creation was interrupted ({touched} eagerly initialised table file(s) incomplete): {}", f.detail)))?;
	out.nontrivial = touched > 0;
	Ok(out)
}

fn run(ctx: &Ctx) {
	let thorough = ctx.tier == "thorough";
	let opts = CrashOpts { cap: if thorough { 400 } else { 150 }, rec_depth: if thorough { 3 } else { 2 }, synced_bound: false, tail: true, layout: false, tolerate_known: true };
	let n = scaled(ctx, 56, 1_400);
	if !ctx.run_prop_shrink("small", n, 60, crash_case(3, 4, 12, true), |c, dir| run_crash_case(c, dir, &opts)) {
		return
	}
	if thorough {
		let n = scaled(ctx, 0, 300);
		if !ctx.run_prop_shrink("large", n, 60, crash_case(4, 12, 40, true), |c, dir| run_crash_case(c, dir, &opts)) {
			return
		}
	}
	// kill mode: real worker threads, SIGKILL at a generated moment (any instant, not only the
	// library's file-operation sites)
	let n = scaled(ctx, 4_000, 80_000);
	let _ = ctx.run_prop_shrink(
		"kill",
		n,
		30,
		prop_oneof![
			6 => (kill_scenario(), any::<u16>(), prop_oneof![Just(0u16), 0u16..2000, 0u16..30000]).prop_map(|(sc, after_acks, delay_us)| KillCase { sc, after_acks, delay_us, rekill_us: None }),
			// a second process is killed while it recovers what the first one left
			3 => (kill_scenario(), any::<u16>(), 0u16..3000, 300u16..6000).prop_map(|(sc, after_acks, delay_us, r)| KillCase { sc, after_acks, delay_us, rekill_us: Some(r) }),
			// kills aimed at the creation of the database (the child needs ~1-2 ms to get there)
			2 => (kill_scenario(), 300u16..3500).prop_map(|(sc, delay_us)| KillCase { sc, after_acks: 0, delay_us, rekill_us: None }),
		],
		run_kill_case,
	) && {
		let n = scaled(ctx, 600, 12_000);
		ctx.run_prop_shrink(
			"creation",
			n,
			60,
			(crash_scenario(3, 3, 8, true, 20_000), proptest::collection::vec(0u8..3, 1..4)).prop_map(|(sc, variants)| CreationCase { sc, variants }),
			run_creation_case,
		)
	};
}

fn replay(ctx: &Ctx, path: &Path) -> Result<(), Failure> {
	let v: serde_json::Value = serde_json::from_str(&std::fs::read_to_string(path).map_err(|e| Failure::new("bad-replay", e.to_string()))?)
		.map_err(|e| Failure::new("bad-replay", e.to_string()))?;
	if v.get("sub").and_then(|s| s.as_str()) == Some("kill") {
		let (_s, case): (String, KillCase) = load_replay(path).map_err(|e| Failure::new("bad-replay", e))?;
		let dir = ctx.case_dir();
		return guarded(|| run_kill_case(&case, &dir)).map(|_| ())
	}
	if v.get("sub").and_then(|s| s.as_str()) == Some("creation") {
		let (_s, case): (String, CreationCase) = load_replay(path).map_err(|e| Failure::new("bad-replay", e))?;
		let dir = ctx.case_dir();
		return guarded(|| run_creation_case(&case, &dir)).map(|_| ())
	}
	let (_sub, case): (String, CrashCase) = load_replay(path).map_err(|e| Failure::new("bad-replay", e))?;
	let dir = ctx.case_dir();
	let opts = CrashOpts { cap: 400, rec_depth: 2, synced_bound: false, tail: true, layout: false, tolerate_known: true };
	guarded(|| run_crash_case(&case, &dir, &opts)).map(|_| ())
}
