//! C09 Index growth and hash-prefix collisions never change query results.

use super::*;
use crate::{gen::*, image::*, interp::*, layout, runner::*, spec::*};
use proptest::prelude::*;
use std::path::Path;

pub fn def() -> PropDef {
	PropDef {
		id: "C09",
		level: "exploration",
		rule: "uniform column with the all-zero salt (identity hash) and constructed key sets: 65-480 keys under ONE 16-bit index page, spread evenly over its eight 19-bit sub-pages (so the index grows 16->17->18->19 bits and then stops), containing index-identical groups of four keys (same first 64 bits, differing only in the key tail), plus background keys on other pages (thorough: > 8192 entries so one growth needs several reindex batches); an optional second column (hash or btree) in the same transactions. Ops: bulk inserts, replacements (also across size tiers), removals (incl. members of collision groups), reindex batches R and the other pipeline steps in any order, drain, reopen; thorough adds crash stop points inside every step (C02 machinery). Oracle: every key of the universe read (get + size) after every op; after every drain exactly one index file remains and the raw layout reader finds every model key exactly once (leftover entries counted). Non-trivial = >=1 growth happened AND >=1 op (commit or read pass) ran while two index files coexisted, or a member of a collision group was replaced/removed; distinct = distinct case fingerprints",
		assumptions: &[
			"zero-salt identity hashing is the repository's own test device (feature instrumentation); keys are exactly 32 bytes",
			"key sets never put more than 64 keys under one 19-bit prefix nor more than 4 index-identical keys (the format cannot hold more than 64 per page; outside the claim)",
		],
		run,
		replay,
		shards: default_shards,
		watchdog_s: default_watchdog,
		engine: 0,
	}
}

pub fn grow_cfg(second: u8) -> DbCfg {
	grow_cfg_page(second, 0x7a31)
}

pub fn grow_cfg_page(second: u8, page: u16) -> DbCfg {
	let mut c = ColCfg::hash();
	c.uniform = true;
	c.keyset = KeySet::Grow { page };
	let mut cols = vec![c];
	match second {
		1 => cols.push(ColCfg::hash()),
		2 => cols.push(ColCfg::btree()),
		_ => {},
	}
	DbCfg { cols, zero_salt: true, sync_wal: true, sync_data: true, always_flush: false, salt_from_meta: false, stats: false }
}

pub fn scenario(max_blocks: usize, max_id: u16) -> impl Strategy<Value = Scenario> {
	(0u8..3, prop_oneof![3 => Just(0x7a31u16), 1 => Just(0xffffu16), 1 => Just(0u16)], prop_oneof![3 => Just(false), 1 => Just(true)]).prop_flat_map(move |(second, page, rc)| {
		// also the first and the last page of the index
		let mut cfg = grow_cfg_page(second, page);
		if rc {
			// the growing column reference-counted: Set raises, Del lowers the count, a third of
			// the small writes are References (the write path looks the key up in every index
			// generation before it decides between "present" and "absent")
			cfg.cols[0].rc = true;
			cfg.cols[0].preimage = true;
		}
		let ncols = cfg.cols.len() as u8;
		let bulk = (0u16..max_id, 20u16..90, small_vspec()).prop_map(move |(start, n, v)| {
			vec![Op::Commit((0..n).map(|i| Item { col: 0, ch: Change::Set((start + i) % max_id, VSpec { seed: v.seed.wrapping_add(i), ..v.clone() }) }).collect())]
		});
		let key = prop_oneof![4 => 0u16..max_id, 1 => 20000u16..20040];
		let small = proptest::collection::vec(
			(0..ncols, key, prop_oneof![3 => vspec(6_000).prop_map(Some), 2 => Just(None)]).prop_map(move |(col, k, v)| {
				let k = if col == 0 { k } else { k % 12 };
				Item {
					col,
					ch: match v {
						Some(v) if rc && col == 0 && v.seed % 3 == 0 => Change::Ref(k),
						Some(v) => Change::Set(k, v),
						None => Change::Del(k),
					},
				}
			}),
			1..=6,
		)
		.prop_map(|items| vec![Op::Commit(items)]);
		// a growth-triggering bulk commit followed, before any reindex step, by rewrites (other
		// size tier) and removals of keys whose entries still live in the older index
		let window = (0u16..max_id, 30u16..90, small_vspec(), proptest::collection::vec((0u16..90, prop_oneof![3 => vspec(6_000).prop_map(Some), 1 => Just(None)]), 3..25), 0u8..3).prop_map(
			move |(start, n, v, rew, tail)| {
				let mut ops = vec![
					Op::Commit((0..n).map(|i| Item { col: 0, ch: Change::Set((start + i) % max_id, VSpec { seed: v.seed.wrapping_add(i), ..v.clone() }) }).collect()),
					Op::P,
					Op::Commit(
						rew.into_iter()
							.map(|(o, v)| {
								let k = (start + max_id + n - o) % max_id;
								Item { col: 0, ch: v.map(|v| Change::Set(k, v)).unwrap_or(Change::Del(k)) }
							})
							.collect(),
					),
					Op::P,
				];
				match tail {
					0 => {},
					1 => ops.extend([Op::F, Op::E]),
					_ => ops.push(Op::R),
				}
				ops
			},
		);
		let block = prop_oneof![
			5 => bulk,
			3 => window,
			8 => small,
			7 => Just(vec![Op::R]),
			6 => Just(vec![Op::P]),
			3 => Just(vec![Op::P, Op::R]),
			4 => Just(vec![Op::F]),
			4 => Just(vec![Op::E]),
			2 => Just(vec![Op::C]),
			2 => Just(vec![Op::F, Op::E, Op::R]),
			1 => Just(vec![Op::Reopen]),
			1 => Just(vec![Op::Drain]),
		];
		proptest::collection::vec(block, 8..=max_blocks).prop_map(move |b| Scenario { cfg: cfg.clone(), ops: b.into_iter().flatten().collect() })
	})
}

fn index_files(dir: &Path) -> Vec<u8> {
	let mut v: Vec<u8> = file_sizes(dir).keys().filter_map(|n| n.strip_prefix("index_00_").and_then(|b| b.parse().ok())).collect();
	v.sort();
	v
}

pub fn run_scenario(sc: &Scenario, dir: &Path, light: bool) -> CaseResult {
	let mut out = CaseOut::default();
	let mut it = Interp::new(&sc.cfg, dir, Interp::universe_of(sc));
	it.check_every_op = !light;
	it.open()?;
	let mut max_bits = 16u8;
	let mut index_files_max_seen = 0usize;
	for op in &sc.ops {
		let two_before = index_files(dir).len() >= 2;
		if let Op::Commit(items) = op {
			for i in items {
				if i.col == 0 {
					if let Change::Set(k, _) | Change::Del(k) = &i.ch {
						// member of an index-identical group whose other members are live
						if *k < 20000 && k % 8 >= 4 {
							if let crate::model::ColModel::Map(m) = &it.model.cols[0] {
								let base = k - k % 8 + 4;
								if (base..base + 4).filter(|o| o != k).any(|o| m.contains_key(&o)) && m.contains_key(k) {
									out.label("collision-group-member-replaced-or-removed");
								}
							}
						}
					}
				}
			}
		}
		it.step(op)?;
		if light && matches!(op, Op::R | Op::Reopen) {
			it.check_reads(false)?;
		}
		let files = index_files(dir);
		if let Some(b) = files.last() {
			if *b > max_bits {
				max_bits = *b;
				out.label("index-grew");
			}
		}
		index_files_max_seen = index_files_max_seen.max(files.len());
		if files.len() >= 2 && two_before {
			out.label("op-served-while-two-index-files");
		}
		if matches!(op, Op::Drain) {
			it.check_reads(true)?;
			let rep = layout::check_dir(&it.cfg, dir, Some(&it)).map_err(|e| Failure::new(format!("layout:{}", e.sig), e.detail))?;
			out.count("leftover_index_entries", rep.leftovers);
		}
	}
	it.step(&Op::Drain)?;
	it.check_reads(true)?;
	let rep = layout::check_dir(&it.cfg, dir, Some(&it)).map_err(|e| Failure::new(format!("layout:{}", e.sig), e.detail))?;
	out.count("leftover_index_entries", rep.leftovers);
	it.step(&Op::Reopen)?;
	it.check_reads(true)?;
	if sc.cfg.cols[0].rc {
		out.label("growing-column-reference-counted");
	}
	if index_files_max_seen >= 3 {
		out.label("op-served-while-three-index-files");
	}
	out.label(match max_bits {
		16 => "final-bits-16",
		17 => "final-bits-17",
		18 => "final-bits-18",
		_ => "final-bits-19+",
	});
	out.nontrivial = (out.labels.contains("index-grew") && out.labels.contains("op-served-while-two-index-files")) || out.labels.contains("collision-group-member-replaced-or-removed");
	out.count("point_reads", it.reads);
	Ok(out)
}

/// thorough: > 8192 index entries so that one growth needs several reindex batches
pub fn big_scenario() -> impl Strategy<Value = Scenario> {
	scenario(30, 400).prop_map(|mut sc| {
		let mut pre = Vec::new();
		for chunk in 0..18u16 {
			// 150 pages of 60 entries each
			pre.push(Op::Commit((0..500u16).map(|i| Item { col: 0, ch: Change::Set(30000 + chunk * 500 + i, VSpec { len: 6, fill: 2, seed: i }) }).collect()));
			pre.push(Op::P);
		}
		pre.push(Op::Drain);
		pre.extend(sc.ops.drain(..));
		sc.ops = pre;
		sc
	})
}

fn run(ctx: &Ctx) {
	let n = scaled(ctx, 4_000, 60_000);
	if !ctx.run_prop_shrink("growth", n, 300, scenario(40, 400), |sc, dir| run_scenario(sc, dir, false)) {
		return
	}
	// more than 8192 index entries: a growth needs several reindex batches (quick: ten cases per shard)
	let n = scaled(ctx, 140, 600);
	if !ctx.run_prop_shrink("multi-batch", n, 40, big_scenario(), |sc, dir| run_scenario(sc, dir, true)) {
		return
	}
	if ctx.tier == "thorough" {
		let opts = super::c02::CrashOpts { cap: 150, rec_depth: 1, synced_bound: false, tail: true, layout: true, tolerate_known: true };
		let n = scaled(ctx, 0, 600);
		ctx.run_prop_shrink(
			"growth-crash",
			n,
			40,
			(scenario(12, 200), any::<u64>()).prop_map(|(sc, sample_seed)| super::c02::CrashCase { sc, sample_seed, only: None }),
			|c, dir| super::c02::run_crash_case(c, dir, &opts),
		);
	} else {
		// a small slice of crash points inside growth also in quick
		let opts = super::c02::CrashOpts { cap: 40, rec_depth: 1, synced_bound: false, tail: true, layout: true, tolerate_known: true };
		let n = scaled(ctx, 56, 0);
		ctx.run_prop_shrink(
			"growth-crash",
			n,
			40,
			(scenario(10, 200), any::<u64>()).prop_map(|(sc, sample_seed)| super::c02::CrashCase { sc, sample_seed, only: None }),
			|c, dir| super::c02::run_crash_case(c, dir, &opts),
		);
	}
}

fn replay(ctx: &Ctx, path: &Path) -> Result<(), Failure> {
	let dir = ctx.case_dir();
	let v: serde_json::Value = serde_json::from_str(&std::fs::read_to_string(path).map_err(|e| Failure::new("bad-replay", e.to_string()))?)
		.map_err(|e| Failure::new("bad-replay", e.to_string()))?;
	match v.get("sub").and_then(|s| s.as_str()).unwrap_or("") {
		"growth-crash" => {
			let (_s, c): (String, super::c02::CrashCase) = load_replay(path).map_err(|e| Failure::new("bad-replay", e))?;
			let opts = super::c02::CrashOpts { cap: 150, rec_depth: 1, synced_bound: false, tail: true, layout: true, tolerate_known: true };
			guarded(|| super::c02::run_crash_case(&c, &dir, &opts)).map(|_| ())
		},
		sub => {
			let (_s, sc): (String, Scenario) = load_replay(path).map_err(|e| Failure::new("bad-replay", e))?;
			let light = sub == "multi-batch";
			guarded(|| run_scenario(&sc, &dir, light)).map(|_| ())
		},
	}
}
