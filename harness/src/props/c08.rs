//! C08 A rejected transaction leaves no trace.

use super::*;
use crate::{gen::*, image::*, interp::*, layout, model::*, runner::*, spec::*};
use parity_db::{NewNode, NodeRef, Operation};
use proptest::prelude::*;
use std::path::Path;

pub fn def() -> PropDef {
	PropDef {
		id: "C08",
		level: "exploration",
		rule: "generated valid histories over mixed columns (hash, hash-rc, btree, btree-rc, multitree default / rc / append_only) with poisoned transactions inserted: valid operations of several columns plus ONE invalid operation at a generated position - Reference on a column without counting (hash and btree), tree operation on a non-tree column, Set/Reference/Dereference on a multitree column, DereferenceTree on an append-only column, DereferenceTree of a missing root, ReferenceTree on a multitree column without counted roots, InsertTree with a node of 256/300 children - and any transaction submitted in the background-error state; followed by further commits, steps, drain, reopen. Oracle (conditional, as stated): IF the call returned Err, the full observation (all gets and sizes, btree iteration, every tree traversal, entry counts) is identical to the one taken right before the call, stays equal to the model (which ignores the transaction) after every later op, and after drain the raw layout reader's slot accounting holds (nothing consumed: no leaked/orphan slot) and after reopen nothing of it appears. Non-trivial = the rejected transaction contained >=1 valid operation BEFORE the invalid one (partial publication possible); distinct = distinct case fingerprints",
		assumptions: &[
			"if a poisoned transaction is accepted (Ok) the scenario is discarded and counted (the property is conditional on an error being returned)",
			"the background-error state is entered through the verif_store_err hook, which runs the same store_err path a failing worker runs",
		],
		run,
		replay,
		shards: default_shards,
		watchdog_s: default_watchdog,
		engine: 0,
	}
}

fn cfg_strategy() -> impl Strategy<Value = DbCfg> {
	let col = prop_oneof![
		3 => hash_col(),
		2 => Just(ColCfg::hash_rc()),
		2 => Just(ColCfg::btree()),
		1 => Just(ColCfg::btree_rc()),
		2 => Just(ColCfg::multi()),
		1 => Just(ColCfg { rc: true, preimage: true, ..ColCfg::multi() }),
		1 => Just(ColCfg { append_only: true, ..ColCfg::multi() }),
	];
	proptest::collection::vec(col, 2..=4).prop_map(DbCfg::new)
}

fn bad_op() -> impl Strategy<Value = BadOp> {
	prop_oneof![
		3 => (any::<u8>(), 0u16..12).prop_map(|(c, k)| BadOp::RefOnPlain(c, k)),
		3 => (any::<u8>(), 0u8..3, 0u16..12).prop_map(|(c, w, k)| BadOp::TreeOpOnNonTree(c, w, k)),
		3 => (any::<u8>(), 0u8..3, 0u16..12).prop_map(|(c, w, k)| BadOp::MapOpOnMulti(c, w, k)),
		2 => (any::<u8>(), any::<u16>()).prop_map(|(c, k)| BadOp::DerefAppendOnly(c, k)),
		3 => (any::<u8>(), 100u16..120).prop_map(|(c, k)| BadOp::DerefMissingRoot(c, k)),
		2 => (any::<u8>(), 0u16..12, prop_oneof![Just(256u16), Just(300u16)]).prop_map(|(c, k, n)| BadOp::OversizeInsert(c, k, n)),
		2 => (any::<u8>(), any::<u16>()).prop_map(|(c, k)| BadOp::RefTreeOnPlainMulti(c, k)),
	]
}

pub fn scenario() -> impl Strategy<Value = Scenario> {
	cfg_strategy().prop_flat_map(|cfg| {
		let items = mixed_items(&cfg, 12, 40_000, 5, 3);
		let op = prop_oneof![
			8 => items.clone().prop_map(Op::Commit),
			5 => (items, bad_op(), any::<u16>()).prop_map(|(i, b, p)| Op::Poison(i, b, p)),
			8 => stage_op(),
			2 => Just(Op::Drain),
			1 => Just(Op::Reopen),
		];
		(proptest::collection::vec(op, 6..=30), prop_oneof![4 => Just(None), 1 => (0usize..30).prop_map(Some)]).prop_map(move |(mut ops, bg)| {
			if let Some(at) = bg {
				let at = at.min(ops.len());
				ops.insert(at, Op::BgError);
			}
			Scenario { cfg: cfg.clone(), ops }
		})
	})
}

fn pick_col(cfg: &DbCfg, sel: u8, f: impl Fn(&ColCfg) -> bool) -> Option<u8> {
	let cands: Vec<u8> = cfg.cols.iter().enumerate().filter(|(_, c)| f(c)).map(|(i, _)| i as u8).collect();
	if cands.is_empty() {
		None
	} else {
		Some(cands[sel as usize % cands.len()])
	}
}

fn bad_operation(it: &Interp, bad: &BadOp) -> Option<(u8, Operation<Vec<u8>, Vec<u8>>)> {
	let cfg = &it.cfg;
	match bad {
		BadOp::RefOnPlain(c, k) => {
			let col = pick_col(cfg, *c, |c| c.kind != Kind::Multi && !c.rc)?;
			Some((col, Operation::Reference(cfg.cols[col as usize].key(*k))))
		},
		BadOp::TreeOpOnNonTree(c, w, k) => {
			let col = pick_col(cfg, *c, |c| c.kind != Kind::Multi)?;
			let key = key_bytes(KeySet::Roots, *k);
			Some((
				col,
				match w {
					0 => Operation::InsertTree(key, NewNode { data: vec![1, 2, 3], children: vec![NodeRef::New(NewNode { data: vec![4], children: vec![] })] }),
					1 => Operation::ReferenceTree(key),
					_ => Operation::DereferenceTree(key),
				},
			))
		},
		BadOp::MapOpOnMulti(c, w, k) => {
			let col = pick_col(cfg, *c, |c| c.kind == Kind::Multi)?;
			let key = cfg.cols[col as usize].key(*k);
			Some((
				col,
				match w {
					0 => Operation::Set(key, vec![9; 10]),
					1 => Operation::Reference(key),
					_ => Operation::Dereference(key),
				},
			))
		},
		BadOp::DerefAppendOnly(c, sel) => {
			let col = pick_col(cfg, *c, |c| c.kind == Kind::Multi && c.append_only)?;
			let roots: Vec<u16> = match &it.model.cols[col as usize] {
				ColModel::Multi(m) => m.roots.keys().cloned().collect(),
				_ => vec![],
			};
			let root = if roots.is_empty() { 3 } else { roots[pick(*sel, roots.len())] };
			Some((col, Operation::DereferenceTree(cfg.cols[col as usize].key(root))))
		},
		BadOp::DerefMissingRoot(c, k) => {
			let col = pick_col(cfg, *c, |c| c.kind == Kind::Multi && !c.append_only)?;
			// ids >= 100 are never used as root keys by the generators
			Some((col, Operation::DereferenceTree(cfg.cols[col as usize].key(*k))))
		},
		BadOp::RefTreeOnPlainMulti(c, sel) => {
			let col = pick_col(cfg, *c, |c| c.kind == Kind::Multi && !c.append_only && !c.rc)?;
			let roots: Vec<u16> = match &it.model.cols[col as usize] {
				ColModel::Multi(m) => m.roots.keys().cloned().collect(),
				_ => vec![],
			};
			let root = if roots.is_empty() { 3 } else { roots[pick(*sel, roots.len())] };
			Some((col, Operation::ReferenceTree(cfg.cols[col as usize].key(root))))
		},
		BadOp::OversizeInsert(c, k, n) => {
			let col = pick_col(cfg, *c, |c| c.kind == Kind::Multi)?;
			let children = (0..*n).map(|i| NodeRef::New(NewNode { data: vec![i as u8, 7], children: vec![] })).collect();
			// the unrepresentable node sits at the root, or one / two levels below it among
			// well-formed siblings
			let mut node = NewNode { data: vec![5; 9], children };
			for level in 0..(*k % 3) {
				let sib = |i: u8| NodeRef::New(NewNode { data: vec![i, level as u8, 3], children: vec![] });
				node = NewNode { data: vec![6; 5 + level as usize], children: vec![sib(1), NodeRef::New(node), sib(2)] };
			}
			Some((col, Operation::InsertTree(cfg.cols[col as usize].key(200 + *k), node)))
		},
	}
}

/// Observation used for "identical to before": logical observation + entry counts.
fn full_obs(it: &Interp) -> Res<(Obs, Vec<Option<u64>>)> {
	let o = observe(it)?;
	let counts = (0..it.cfg.cols.len()).map(|c| if it.cfg.cols[c].kind == Kind::Multi { it.num_entries(c as u8) } else { None }).collect();
	Ok((o, counts))
}

pub fn run_scenario(sc: &Scenario, dir: &Path) -> CaseResult {
	let mut out = CaseOut::default();
	let mut universe = Interp::universe_of(sc);
	for (i, c) in sc.cfg.cols.iter().enumerate() {
		// keys touched by invalid operations must be observed too
		for k in 0..12u16 {
			universe[i].insert(k);
		}
		if c.kind == Kind::Multi {
			for k in 100..120u16 {
				universe[i].insert(k);
			}
			for k in 200..212u16 {
				universe[i].insert(k);
			}
		}
	}
	for op in &sc.ops {
		if let Op::Poison(items, _, _) = op {
			let tmp = Scenario { cfg: sc.cfg.clone(), ops: vec![Op::Commit(items.clone())] };
			for (i, u) in Interp::universe_of(&tmp).into_iter().enumerate() {
				universe[i].extend(u);
			}
		}
	}
	let mut it = Interp::new(&sc.cfg, dir, universe);
	it.open()?;
	let mut bg_error = false;
	let mut rejected_any = false;
	for op in &sc.ops {
		match op {
			Op::BgError => {
				it.db().verif_store_err("injected background error (C08)");
				bg_error = true;
				out.label("background-error-state");
			},
			Op::Poison(items, bad, pos) => {
				let valid = it.resolve(items);
				let mut ops = it.to_operations(&valid);
				let at = pick(*pos, ops.len() + 1);
				let bad_op = match bad_operation(&it, bad) {
					Some(b) => b,
					None => continue,
				};
				ops.insert(at, bad_op);
				let before = full_obs(&it)?;
				let r = it.db().commit_changes(ops);
				match r {
					Ok(()) => {
						out.label("poison-accepted-scenario-discarded");
						out.count("discarded_poison_accepted", 1);
						return Ok(out)
					},
					Err(_) => {
						rejected_any = true;
						if at > 0 {
							out.label("valid-op-before-invalid");
						}
						out.label(match bad {
							BadOp::RefOnPlain(..) => "bad:reference-on-plain",
							BadOp::TreeOpOnNonTree(..) => "bad:tree-op-on-non-tree",
							BadOp::MapOpOnMulti(..) => "bad:map-op-on-multitree",
							BadOp::DerefAppendOnly(..) => "bad:deref-append-only",
							BadOp::DerefMissingRoot(..) => "bad:deref-missing-root",
							BadOp::OversizeInsert(..) => "bad:oversize-node",
							BadOp::RefTreeOnPlainMulti(..) => "bad:reference-tree-on-uncounted-multitree",
						});
						let after = full_obs(&it)?;
						if after != before {
							fail!("rejected-transaction-visible", "commit returned Err but the observable state changed: before {} {:?}, after {} {:?}", obs_brief(&before.0), before.1, obs_brief(&after.0), after.1)
						}
						it.check_reads(false)?;
					},
				}
			},
			Op::Commit(items) if bg_error => {
				// every transaction is refused in the background-error state
				let valid = it.resolve(items);
				let ops = it.to_operations(&valid);
				let before = full_obs(&it)?;
				match it.db().commit_changes(ops) {
					Ok(()) => fail!("commit-accepted-in-background-error-state", "commit returned Ok although a background error is set"),
					Err(_) => {
						rejected_any = true;
						if !valid.is_empty() {
							out.label("valid-op-before-invalid");
						}
						let after = full_obs(&it)?;
						if after != before {
							fail!("rejected-transaction-visible", "commit refused (background error) but the observable state changed")
						}
					},
				}
			},
			Op::P | Op::F | Op::E | Op::C | Op::R | Op::Drain if bg_error => {
				// the pipeline is stopped; reads keep working
				it.check_reads(false)?;
			},
			Op::Reopen if bg_error => {
				// logged-but-unapplied data is replayed by the next open; queued commits that
				// were accepted before the error are not logged: the recovered state is a prefix
				it.close();
				break
			},
			_ => {
				it.step(op)?;
				if matches!(op, Op::Drain) {
					layout::check_dir(&it.cfg, &it.dir, Some(&it)).map_err(|e| Failure::new(format!("layout:{}", e.sig), e.detail))?;
				}
			},
		}
	}
	if !bg_error {
		it.step(&Op::Drain)?;
		it.check_reads(true)?;
		layout::check_dir(&it.cfg, &it.dir, Some(&it)).map_err(|e| Failure::new(format!("layout:{}", e.sig), e.detail))?;
		for c in 0..sc.cfg.cols.len() {
			if let (ColModel::Multi(m), Some(n)) = (&it.model.cols[c], it.num_entries(c as u8)) {
				if n != m.live_entries() as u64 {
					fail!("rejected-transaction-consumed-storage", "col {c}: entry count {n}, model {} (storage claimed by a rejected transaction?)", m.live_entries())
				}
			}
		}
		it.step(&Op::Reopen)?;
		it.check_reads(true)?;
	}
	out.nontrivial = rejected_any && out.labels.contains("valid-op-before-invalid");
	Ok(out)
}

fn run(ctx: &Ctx) {
	let n = scaled(ctx, 5_000, 120_000);
	ctx.run_prop("poison", n, scenario(), run_scenario);
}

fn replay(ctx: &Ctx, path: &Path) -> Result<(), Failure> {
	let (_sub, sc): (String, Scenario) = load_replay(path).map_err(|e| Failure::new("bad-replay", e))?;
	let dir = ctx.case_dir();
	guarded(|| run_scenario(&sc, &dir)).map(|_| ())
}
