pub mod gen;
pub mod image;
pub mod interp;
pub mod layout;
pub mod model;
pub mod props;
pub mod runner;
pub mod spec;
