//! Interpreter: runs a scenario against the real database and the reference model in lock
//! step, comparing after every operation.

use crate::{model::*, spec::*};
use parity_db::{BTreeIterator, Db, NewNode, NodeRef, Operation};
use std::{
	collections::{BTreeMap, BTreeSet, HashMap, VecDeque},
	path::{Path, PathBuf},
};

#[derive(Clone, Debug)]
pub struct Failure {
	/// Stable identifier of the failing shape (used for known-finding matching).
	pub sig: String,
	pub detail: String,
	/// A more specific case to store in the replay file (e.g. the exact stop point).
	pub case_override: Option<serde_json::Value>,
}

impl Failure {
	pub fn new(sig: impl Into<String>, detail: impl Into<String>) -> Failure {
		Failure { sig: sig.into(), detail: detail.into(), case_override: None }
	}
	pub fn with_case<T: serde::Serialize>(mut self, case: &T) -> Failure {
		self.case_override = serde_json::to_value(case).ok();
		self
	}
}

pub type Res<T> = Result<T, Failure>;

macro_rules! fail {
	($sig:expr, $($arg:tt)*) => {
		return Err(Failure::new($sig, format!($($arg)*)))
	};
}
pub(crate) use fail;

/// Cursor of the reference iterator model (C04).
#[derive(Clone, Debug, PartialEq, Eq)]
pub enum Cursor {
	Start,
	End,
	Seeked(Vec<u8>),
	At(Vec<u8>),
}

#[derive(Clone, Debug, Default)]
pub struct Stages {
	/// ids of commits still in the commit queue
	pub queued: VecDeque<usize>,
	/// commits written to the appending log file, not yet flushed
	pub appending: Vec<usize>,
	/// flushed log files not yet enacted (commit ids per file)
	pub flushed: VecDeque<Vec<usize>>,
	/// enacted, log not yet reclaimed
	pub enacted: Vec<usize>,
	pub cleaned: usize,
	/// number of user transactions whose log record has been synced (sync_wal)
	pub synced: usize,
	/// number of user transactions logged
	pub logged: usize,
}

impl Stages {
	pub fn distinct_stages_populated(&self) -> usize {
		(!self.queued.is_empty()) as usize +
			(!self.appending.is_empty()) as usize +
			(!self.flushed.is_empty()) as usize +
			(!self.enacted.is_empty()) as usize
	}
	pub fn in_flight(&self) -> usize {
		self.queued.len() +
			self.appending.len() +
			self.flushed.iter().map(|f| f.len()).sum::<usize>() +
			self.enacted.len()
	}
}

pub enum StepOut {
	Done,
	/// A library call returned an error while a fault was armed.
	Faulted(String),
	/// commit returned Err (poisoned transaction); message
	Rejected(String),
}

pub struct Interp {
	pub cfg: DbCfg,
	pub dir: PathBuf,
	// NOTE: field order matters: the iterator borrows from the database.
	iters: BTreeMap<u8, (BTreeIterator<'static>, Cursor)>,
	pub db: Option<Db>,
	pub model: Model,
	/// model after i accepted transactions
	pub prefix: Vec<Model>,
	pub keep_prefix: bool,
	/// (col, node id) -> address
	pub addr: HashMap<(u8, NodeId), u64>,
	pub universe: Vec<BTreeSet<u16>>,
	pub stages: Stages,
	pub labels: BTreeSet<&'static str>,
	pub committed: usize,
	pub fault_armed: bool,
	/// if set, errors of `commit` are expected and reported as `Rejected`
	pub allow_reject: bool,
	pub check_every_op: bool,
	pub background: bool,
	/// resolve root keys as with background workers (never reuse one) although stepping
	pub no_root_reuse: bool,
	pub reads: u64,
	/// set when a transaction containing a tree dereference has been accepted while a reader
	/// lock was held
	pub locked: Option<LockedTree>,
	/// per log file: number of bytes covered by the last successful sync (crash images)
	pub sync_track: Option<crate::image::SyncTrack>,
	pub commits_since_open: usize,
	/// every root key id ever inserted (col, id)
	pub ever_roots: BTreeSet<(u8, u16)>,
	/// after an I/O failure the writer is stopped: a removal that was accepted but never logged
	/// need not be visible (trees / rc keys have no overlay entry for removals)
	pub relaxed_dead: bool,
	pub excluded_known: std::cell::Cell<u64>,
	/// transactions submitted through `Db::commit` instead of `Db::commit_changes`
	pub via_commit_api: std::cell::Cell<u64>,
	/// regression cases of known findings run without the exclusions
	pub strict_known: bool,
}

pub type TreeHandle = std::sync::Arc<parking_lot::RwLock<Box<dyn parity_db::TreeReader + Send + Sync>>>;

pub struct LockedTree {
	pub col: u8,
	pub root: u16,
	pub tree: TreeHandle,
	/// the tree as it was when the lock was taken
	pub snapshot: CanonTree,
	/// dereferences of the locked tree accepted while the lock is held: applied to the model
	/// when the lock is released (the removal is postponed)
	pub deferred: Vec<(u8, u16)>,
	/// (col, key id) written by a transaction that also dereferenced the locked tree
	pub deferred_keys: BTreeSet<(u8, u16)>,
	pub steps_while_locked: u32,
}

impl LockedTree {
	fn unlock(self) {
		// SAFETY: the read guard taken in `lock_tree` was forgotten, this releases exactly it.
		unsafe { self.tree.force_unlock_read() };
	}
}

#[derive(Clone, Debug, PartialEq, Eq)]
pub struct CanonTree {
	pub data: u64,
	pub len: usize,
	pub children: Vec<CanonTree>,
}

pub fn err_sig(e: &parity_db::Error) -> String {
	let s = format!("{}", e);
	s.chars().take(60).collect()
}

impl Interp {
	pub fn new(cfg: &DbCfg, dir: &Path, universe: Vec<BTreeSet<u16>>) -> Interp {
		Interp {
			cfg: cfg.clone(),
			dir: dir.to_path_buf(),
			iters: BTreeMap::new(),
			db: None,
			model: Model::new(cfg),
			prefix: vec![Model::new(cfg)],
			keep_prefix: false,
			addr: HashMap::new(),
			universe,
			stages: Default::default(),
			labels: BTreeSet::new(),
			committed: 0,
			fault_armed: false,
			allow_reject: false,
			check_every_op: true,
			background: false,
			no_root_reuse: false,
			reads: 0,
			locked: None,
			sync_track: None,
			commits_since_open: 0,
			ever_roots: BTreeSet::new(),
			relaxed_dead: false,
			excluded_known: std::cell::Cell::new(0),
			via_commit_api: std::cell::Cell::new(0),
			strict_known: false,
		}
	}

	pub fn universe_of(sc: &Scenario) -> Vec<BTreeSet<u16>> {
		let mut u: Vec<BTreeSet<u16>> = sc.cfg.cols.iter().map(|_| BTreeSet::new()).collect();
		for (i, c) in sc.cfg.cols.iter().enumerate() {
			// a few never-written keys
			if c.kind != Kind::Multi {
				u[i].insert(0);
				u[i].insert(1);
			}
		}
		for op in &sc.ops {
			if let Op::Commit(items) = op {
				for it in items {
					let c = it.col as usize;
					if c >= u.len() {
						continue
					}
					match &it.ch {
						Change::Set(k, _) | Change::Del(k) | Change::Ref(k) => {
							u[c].insert(*k);
						},
						Change::InsertTree(k, _) | Change::DerefTreeKey(k) | Change::RefTreeKey(k) => {
							// root keys may be bumped to the next free id; add a small range
							for d in 0..4 {
								u[c].insert(k.wrapping_add(d));
							}
						},
						_ => {},
					}
				}
			}
		}
		u
	}

	pub fn open(&mut self) -> Res<StepOut> {
		let opts = self.cfg.options(&self.dir, self.background);
		match Db::open_or_create(&opts) {
			Ok(db) => {
				self.db = Some(db);
				self.commits_since_open = 0;
				Ok(StepOut::Done)
			},
			Err(e) =>
				if self.fault_armed {
					Ok(StepOut::Faulted(err_sig(&e)))
				} else {
					fail!(format!("open-failed:{}", err_sig(&e)), "Db::open_or_create failed: {e}")
				},
		}
	}

	pub fn db(&self) -> &Db {
		self.db.as_ref().expect("db open")
	}

	pub fn is_open(&self) -> bool {
		self.db.is_some()
	}

	pub fn close(&mut self) {
		self.iters.clear();
		if let Some(l) = self.locked.take() {
			l.unlock();
		}
		self.db = None;
	}

	fn pipeline(&self) -> (usize, usize, i64, usize, bool, bool, bool) {
		self.db().verif_pipeline_state()
	}

	/// Stepping mode precondition (DESIGN 3.1): never let more than 4 consumed log files wait
	/// for clean_logs when a record is enacted with no cleanup thread to wake us.
	/// Returns false when the inserted `clean_logs` failed under an armed fault injector (the
	/// step it belongs to is then a faulted step, the error recorded as a worker would).
	fn ensure_cleanup_room(&mut self, need: usize) -> Res<bool> {
		if self.background {
			return Ok(true)
		}
		// enact_logs waits (for a cleanup thread that does not exist here) only while MORE than
		// `limit` consumed log files await clean_logs, checked after each enacted record
		let limit = if self.cfg.sync_data { 4 } else { 16 };
		let dirty = self.pipeline().3;
		let _ = need;
		if dirty > limit {
			self.labels.insert("auto-clean");
			let r = self.db().clean_logs();
			if self.lib("clean_logs", r)?.is_none() {
				return Ok(false)
			}
			self.stage_cleaned();
		}
		Ok(true)
	}

	/// Dropping the handle never waits for log cleanup (shutdown is requested first), so nothing
	/// has to be done before a close; kept as an explicit no-op for the call sites.
	pub fn ensure_room_for_close(&mut self) -> Res<()> {
		Ok(())
	}

	fn stage_cleaned(&mut self) {
		if self.cfg.sync_data {
			self.stages.cleaned += self.stages.enacted.len();
			self.stages.enacted.clear();
		}
	}

	fn lib<T>(&mut self, what: &str, r: parity_db::Result<T>) -> Res<Option<T>> {
		match r {
			Ok(v) => Ok(Some(v)),
			Err(e) =>
				if self.fault_armed {
					// Without background threads the caller of a pipeline step plays the worker:
					// a worker records the error of its loop body (store_err) before it stops,
					// which is what makes later commits fail and the shutdown sequence skip
					// further log processing (the repository's own fault test does the same:
					// "Set the background error explicitly as background threads are disabled").
					if !self.background && matches!(what, "process_commits" | "flush_logs" | "enact_logs" | "clean_logs" | "process_reindex") {
						if let Some(db) = self.db.as_ref() {
							db.verif_store_err(&format!("pipeline step {what} failed: {e}"));
							self.labels.insert("error-recorded-as-worker");
						}
					}
					Ok(None)
				} else {
					fail!(format!("{what}-failed:{}", err_sig(&e)), "{what} returned error: {e}")
				},
		}
	}

	// ------------------------------------------------------------------ resolution

	fn resolve_tree(&self, col: u8, spec: &TreeSpec, allow_existing: bool, depth: usize) -> RTree {
		let mut children = Vec::new();
		for c in &spec.children {
			match c {
				ChildSpec::New(t) => children.push(RChild::New(self.resolve_tree(col, t, allow_existing, depth + 1))),
				ChildSpec::ExistingNode(n) => {
					let n = *n as usize;
					let live = match &self.model.cols[col as usize] {
						ColModel::Multi(m) => m.nodes.get(n).map_or(false, |x| x.live),
						_ => false,
					};
					if allow_existing && live && self.addr.contains_key(&(col, n)) {
						children.push(RChild::Existing(n));
					} else {
						children.push(RChild::New(RTree { data: vec![0xed, n as u8], children: vec![] }));
					}
				},
				ChildSpec::Existing(tsel, nsel) => {
					let mut done = false;
					if allow_existing {
						if let ColModel::Multi(m) = &self.model.cols[col as usize] {
							let roots: Vec<u16> = m.roots.keys().cloned().collect();
							if !roots.is_empty() {
								let r = roots[pick(*tsel, roots.len())];
								let nodes: Vec<NodeId> = m
									.reachable_of(r)
									.into_iter()
									.filter(|n| self.addr.contains_key(&(col, *n)))
									.collect();
								if !nodes.is_empty() {
									children.push(RChild::Existing(nodes[pick(*nsel, nodes.len())]));
									done = true;
								}
							}
						}
					}
					if !done {
						children.push(RChild::New(RTree { data: vec![0xee, *tsel as u8], children: vec![] }));
					}
				},
			}
		}
		RTree { data: spec.data.bytes(), children }
	}

	fn live_roots(&self, col: u8) -> Vec<u16> {
		match &self.model.cols[col as usize] {
			ColModel::Multi(m) => m.roots.keys().cloned().collect(),
			_ => vec![],
		}
	}

	/// Resolves a transaction against the current model. Items that cannot be made sound
	/// (e.g. dereferencing when no tree is live) are dropped.
	pub fn resolve(&self, items: &[Item]) -> Vec<(u8, RChange)> {
		let mut out = Vec::new();
		let pending_deferral = self.locked.as_ref().map_or(false, |l| !l.deferred.is_empty());
		let mut has_deref = BTreeSet::new();
		for it in items {
			if matches!(it.ch, Change::DerefTree(_) | Change::DerefTreeKey(_)) {
				has_deref.insert(it.col);
			}
		}
		// roots already targeted inside this transaction
		let mut used_roots: BTreeSet<(u8, u16)> = BTreeSet::new();
		for it in items {
			let col = it.col;
			if col as usize >= self.cfg.cols.len() {
				continue
			}
			let ccfg = &self.cfg.cols[col as usize];
			if pending_deferral && !self.strict_known {
				// known finding (commit deferral re-orders the whole transaction): a later
				// transaction must not write a key the postponed transaction also wrote, and
				// must not touch the locked root again
				let l = self.locked.as_ref().unwrap();
				let clash = match &it.ch {
					Change::Set(k, _) | Change::Del(k) | Change::Ref(k) => l.deferred_keys.contains(&(col, *k)),
					Change::DerefTree(_) | Change::RefTree(_) | Change::DerefTreeKey(_) | Change::RefTreeKey(_) => col == l.col,
					_ => false,
				};
				if clash {
					self.excluded_known.set(self.excluded_known.get() + 1);
					continue
				}
			}
			let rc = match &it.ch {
				Change::Set(k, v) => RChange::Set(
					*k,
					if ccfg.value_from_key() { ccfg.pre_value(*k) } else { v.bytes() },
				),
				Change::Del(k) => RChange::Del(*k),
				Change::Ref(k) => RChange::Ref(*k),
				Change::InsertTree(k, spec) => {
					let live = self.live_roots(col);
					let mut root = *k;
					// With background workers a root key is never reused: re-inserting a key whose
					// dereference may still be queued, while this harness briefly locks the new
					// tree's reader, would trigger commit deferral (C11's domain, not this check's).
					while live.contains(&root) ||
						used_roots.contains(&(col, root)) ||
						((self.background || self.no_root_reuse || self.locked.is_some()) && self.ever_roots.contains(&(col, root)))
					{
						root = root.wrapping_add(1);
					}
					used_roots.insert((col, root));
					RChange::InsertTree(root, self.resolve_tree(col, spec, !has_deref.contains(&col), 0))
				},
				Change::RefTree(sel) | Change::DerefTree(sel) => {
					let live: Vec<u16> = self
						.live_roots(col)
						.into_iter()
						.filter(|r| !used_roots.contains(&(col, *r)))
						.collect();
					if live.is_empty() {
						continue
					}
					let root = live[pick(*sel, live.len())];
					used_roots.insert((col, root));
					if matches!(it.ch, Change::RefTree(_)) {
						RChange::RefTree(root)
					} else {
						RChange::DerefTree(root)
					}
				},
				Change::DerefTreeKey(k) => RChange::DerefTree(*k),
				Change::RefTreeKey(k) => RChange::RefTree(*k),
			};
			out.push((col, rc));
		}
		out
	}

	fn to_newnode(&self, col: u8, t: &RTree) -> NewNode {
		NewNode {
			data: t.data.clone(),
			children: t
				.children
				.iter()
				.map(|c| match c {
					RChild::New(t) => NodeRef::New(self.to_newnode(col, t)),
					RChild::Existing(n) => NodeRef::Existing(self.addr[&(col, *n)]),
				})
				.collect(),
		}
	}

	pub fn to_operations(&self, tx: &[(u8, RChange)]) -> Vec<(u8, Operation<Vec<u8>, Vec<u8>>)> {
		tx.iter()
			.map(|(col, ch)| {
				let c = &self.cfg.cols[*col as usize];
				let op = match ch {
					RChange::Set(k, v) => Operation::Set(c.key(*k), v.clone()),
					RChange::Del(k) => Operation::Dereference(c.key(*k)),
					RChange::Ref(k) => Operation::Reference(c.key(*k)),
					RChange::InsertTree(k, t) => Operation::InsertTree(c.key(*k), self.to_newnode(*col, t)),
					RChange::RefTree(k) => Operation::ReferenceTree(c.key(*k)),
					RChange::DerefTree(k) => Operation::DereferenceTree(c.key(*k)),
				};
				(*col, op)
			})
			.collect()
	}

	// ------------------------------------------------------------------ operations

	pub fn commit(&mut self, items: &[Item]) -> Res<StepOut> {
		let tx = self.resolve(items);
		self.commit_resolved(&tx)
	}

	pub fn commit_resolved(&mut self, tx: &[(u8, RChange)]) -> Res<StepOut> {
		let ops = self.to_operations(tx);
		for (col, ch) in tx {
			if let RChange::InsertTree(root, _) = ch {
				self.ever_roots.insert((*col, *root));
				self.universe[*col as usize].insert(*root);
			}
		}
		// the two public entry points: a transaction of plain writes and removals only goes, every
		// other time (decided by its content, so that a replay takes the same path), through
		// `Db::commit` (key, Some(value) | None) instead of `Db::commit_changes` (operations)
		let plain_only = !tx.is_empty() && tx.iter().all(|(_, ch)| matches!(ch, RChange::Set(..) | RChange::Del(..)));
		let via_commit = plain_only && tx.iter().map(|(c, ch)| match ch {
			RChange::Set(k, v) => *c as usize + *k as usize + v.len(),
			RChange::Del(k) => *c as usize + *k as usize + 1,
			_ => 0,
		}).sum::<usize>() % 2 == 0;
		let r = if via_commit {
			self.via_commit_api.set(self.via_commit_api.get() + 1);
			self.db().commit(ops.into_iter().map(|(c, op)| match op {
				Operation::Set(k, v) => (c, k, Some(v)),
				Operation::Dereference(k) => (c, k, None),
				_ => unreachable!(),
			}))
		} else {
			self.db().commit_changes(ops)
		};
		match r {
			Ok(()) => {},
			Err(e) => {
				if self.allow_reject {
					return Ok(StepOut::Rejected(err_sig(&e)))
				}
				if self.fault_armed {
					return Ok(StepOut::Faulted(err_sig(&e)))
				}
				fail!(format!("commit-failed:{}", err_sig(&e)), "commit of {:?} failed: {e}", tx_brief(tx))
			},
		}
		// accepted: apply to the model
		let mut created: Vec<(u8, u16, Vec<NodeId>)> = Vec::new();
		let derefs_locked = match &self.locked {
			Some(l) => tx.iter().any(|(c, ch)| *c == l.col && matches!(ch, RChange::DerefTree(r) if *r == l.root)),
			None => false,
		};
		for (col, ch) in tx {
			if derefs_locked {
				let l = self.locked.as_mut().unwrap();
				match ch {
					RChange::DerefTree(r) if *col == l.col && *r == l.root => {
						// the removal is postponed until the lock is released
						l.deferred.push((*col, *r));
						self.labels.insert("deref-of-locked-tree-committed");
						continue
					},
					RChange::Set(k, _) | RChange::Del(k) | RChange::Ref(k) => {
						l.deferred_keys.insert((*col, *k));
					},
					_ => {},
				}
			}
			let ids = self.model.apply(&self.cfg, *col, ch);
			if let RChange::InsertTree(root, _) = ch {
				created.push((*col, *root, ids));
			}
		}
		self.stages.queued.push_back(self.committed);
		self.committed += 1;
		self.commits_since_open += 1;
		if self.keep_prefix {
			self.prefix.push(self.model.clone());
		}
		// learn the addresses of the new nodes
		for (col, root, _ids) in created {
			self.learn_addresses(col, root)?;
		}
		Ok(StepOut::Done)
	}

	fn learn_addresses(&mut self, col: u8, root: u16) -> Res<()> {
		let key = self.cfg.cols[col as usize].key(root);
		let (children_model, ) = match &self.model.cols[col as usize] {
			ColModel::Multi(m) => match m.roots.get(&root) {
				Some((_, _, ch)) => (ch.clone(),),
				None => return Ok(()),
			},
			_ => return Ok(()),
		};
		let tree = match self.db().get_tree(col, &key) {
			Ok(Some(t)) => t,
			Ok(None) => fail!("tree-missing-after-insert", "get_tree({col},{root}) = None right after InsertTree"),
			Err(e) => fail!(format!("get_tree-failed:{}", err_sig(&e)), "get_tree failed: {e}"),
		};
		let guard = tree.read();
		let (_, children) = match guard.get_root() {
			Ok(Some(r)) => r,
			Ok(None) => fail!("tree-missing-after-insert", "get_root({col},{root}) = None right after InsertTree"),
			Err(e) => fail!(format!("get_root-failed:{}", err_sig(&e)), "get_root failed: {e}"),
		};
		let mut stack: Vec<(Vec<NodeId>, Vec<u64>)> = vec![(children_model, children)];
		while let Some((mch, ach)) = stack.pop() {
			if mch.len() != ach.len() {
				// reported by the traversal check with full detail
				return Ok(())
			}
			for (n, a) in mch.iter().zip(ach.iter()) {
				match self.addr.get(&(col, *n)) {
					Some(known) =>
						if known != a {
							fail!(
								"existing-child-address-mismatch",
								"tree {root} col {col}: child names address {a:#x} but node {n} lives at {known:#x}"
							)
						},
					None => {
						self.addr.insert((col, *n), *a);
						let mnode_children = match &self.model.cols[col as usize] {
							ColModel::Multi(m) => m.nodes[*n].children.clone(),
							_ => unreachable!(),
						};
						match guard.get_node(*a) {
							Ok(Some((_, ch))) => stack.push((mnode_children, ch)),
							Ok(None) => fail!("node-missing-after-insert", "get_node({a:#x}) = None right after InsertTree"),
							Err(e) => fail!(format!("get_node-failed:{}", err_sig(&e)), "get_node failed: {e}"),
						}
					},
				}
			}
		}
		Ok(())
	}

	/// Takes (and keeps) the read lock of the tree reader of a live root.
	pub fn lock_tree(&mut self, col: u8, sel: u16) -> Res<()> {
		if self.locked.is_some() || self.cfg.cols.get(col as usize).map_or(true, |c| c.kind != Kind::Multi) {
			return Ok(())
		}
		let live = self.live_roots(col);
		if live.is_empty() {
			return Ok(())
		}
		let root = live[pick(sel, live.len())];
		let key = self.cfg.cols[col as usize].key(root);
		let tree: TreeHandle = match self.db().get_tree(col, &key) {
			Ok(Some(t)) => t,
			Ok(None) => fail!("live-tree-unreadable", "get_tree({col},{root}) = None for a live root"),
			Err(e) => fail!(format!("get_tree-failed:{}", err_sig(&e)), "get_tree failed: {e}"),
		};
		std::mem::forget(tree.read());
		let snapshot = match self.canon_model_tree(col, root) {
			Some(s) => s,
			None => {
				unsafe { tree.force_unlock_read() };
				return Ok(())
			},
		};
		self.locked = Some(LockedTree { col, root, tree, snapshot, deferred: vec![], deferred_keys: BTreeSet::new(), steps_while_locked: 0 });
		self.labels.insert("tree-locked");
		Ok(())
	}

	pub fn unlock_tree(&mut self) {
		if let Some(l) = self.locked.take() {
			let deferred = l.deferred.clone();
			l.unlock();
			for (col, root) in deferred {
				self.model.apply(&self.cfg.clone(), col, &RChange::DerefTree(root));
			}
			if self.keep_prefix {
				if let Some(last) = self.prefix.last_mut() {
					*last = self.model.clone();
				}
			}
		}
	}

	/// While the lock is held the locked tree must read back exactly as when it was locked.
	pub fn check_locked_tree(&mut self) -> Res<()> {
		if let Some(l) = &self.locked {
			let got = self.read_tree(l.col, l.root)?;
			match got {
				Some((g, _)) =>
					if g != l.snapshot {
						fail!("locked-tree-changed", "col {} root {}: the tree read through the locked reader differs from its state at lock time: got {} want {}", l.col, l.root, canon_brief(&g), canon_brief(&l.snapshot))
					},
				None => fail!("locked-tree-vanished", "col {} root {}: root not readable while the reader lock is held", l.col, l.root),
			}
		}
		Ok(())
	}

	pub fn step(&mut self, op: &Op) -> Res<StepOut> {
		match op {
			Op::Commit(items) => {
				let r = self.commit(items)?;
				if let StepOut::Done = r {
					self.after_op()?;
				}
				return Ok(r)
			},
			Op::P => {
				if let Some(l) = self.locked.as_mut() {
					l.steps_while_locked += 1;
				}
				let before = self.pipeline().0;
				let r = if self.locked.is_some() {
					// With a reader lock held by this harness the step must not block (the removal
					// has to be postponed): run it on a helper thread so that a block is detected
					// deterministically instead of hanging the check.
					let db = self.db.as_ref().unwrap();
					let (tx, rx) = std::sync::mpsc::channel();
					let mut blocked = false;
					let res = std::thread::scope(|sc| {
						sc.spawn(|| {
							let _ = tx.send(db.process_commits());
						});
						match rx.recv_timeout(std::time::Duration::from_secs(4)) {
							Ok(r) => Some(r),
							Err(_) => {
								blocked = true;
								// release the lock so that the helper can finish
								if let Some(l) = self.locked.take() {
									l.unlock();
								}
								let _ = rx.recv_timeout(std::time::Duration::from_secs(60));
								None
							},
						}
					});
					if blocked {
						fail!("process_commits-blocked-by-reader-lock", "process_commits did not return while a tree reader lock was held (the dereference was not postponed but waits for the reader)")
					}
					res.unwrap()
				} else {
					self.db().process_commits()
				};
				if self.lib("process_commits", r)?.is_none() {
					return Ok(StepOut::Faulted("process_commits".into()))
				}
				let after = self.pipeline().0;
				if after < before {
					if let Some(id) = self.stages.queued.pop_front() {
						self.stages.appending.push(id);
						self.stages.logged += 1;
					}
				}
			},
			Op::F => {
				let r = self.db().flush_logs();
				if self.lib("flush_logs", r)?.is_none() {
					return Ok(StepOut::Faulted("flush_logs".into()))
				}
				if !self.stages.appending.is_empty() {
					let f = std::mem::take(&mut self.stages.appending);
					self.stages.flushed.push_back(f);
				}
				if self.cfg.sync_wal {
					self.stages.synced = self.stages.logged;
				}
			},
			Op::E => {
				if !self.ensure_cleanup_room(1)? {
					return Ok(StepOut::Faulted("clean_logs (inserted before enact_logs)".into()))
				}
				let r = self.db().enact_logs();
				if self.lib("enact_logs", r)?.is_none() {
					return Ok(StepOut::Faulted("enact_logs".into()))
				}
				// one log file is consumed per call; reindex-only files are invisible here, so
				// the stage labels are approximate (labels only).
				if let Some(f) = self.stages.flushed.pop_front() {
					self.stages.enacted.extend(f);
				}
			},
			Op::C => {
				let r = self.db().clean_logs();
				if self.lib("clean_logs", r)?.is_none() {
					return Ok(StepOut::Faulted("clean_logs".into()))
				}
				self.stage_cleaned();
			},
			Op::R => {
				let r = self.db().process_reindex();
				if self.lib("process_reindex", r)?.is_none() {
					return Ok(StepOut::Faulted("process_reindex".into()))
				}
			},
			Op::Drain => {
				if let Some(s) = self.drain()? {
					return Ok(StepOut::Faulted(s))
				}
			},
			Op::Reopen | Op::ReopenAfterError => {
				if matches!(op, Op::ReopenAfterError) {
					self.db().verif_store_err("injected background error before drop");
					self.labels.insert("drop-in-background-error-state");
				}
				if !self.stages.queued.is_empty() {
					self.labels.insert("reopen-with-queue");
				}
				if self.stages.in_flight() > 0 {
					self.labels.insert("reopen-in-flight");
				}
				if self.pipeline().3 > 4 {
					self.labels.insert("drop-with-more-than-4-dirty-logs");
				}
				let synced_before = self.stages.synced;
				self.close();
				if let StepOut::Faulted(s) = self.open()? {
					return Ok(StepOut::Faulted(s))
				}
				self.stages = if matches!(op, Op::ReopenAfterError) {
					// in the error state the shutdown sequence processes nothing further: only
					// what had been synced is certain (callers use this op as the last one)
					Stages { cleaned: synced_before, synced: synced_before, logged: synced_before, ..Default::default() }
				} else {
					Stages { cleaned: self.committed, synced: self.committed, logged: self.committed, ..Default::default() }
				};
				self.labels.insert("reopen");
			},
			Op::Iter(col, iop) => {
				self.iter_op(*col, iop)?;
				return Ok(StepOut::Done)
			},
			Op::LockTree(col, sel) => {
				self.lock_tree(*col, *sel)?;
				return Ok(StepOut::Done)
			},
			Op::UnlockTree => {
				self.unlock_tree();
			},
			Op::Poison(..) | Op::BgError => {
				// handled by the C08 driver
			},
		}
		if let Some(t) = self.sync_track.as_mut() {
			t.after_op(&self.dir, matches!(op, Op::F | Op::Reopen));
		}
		self.after_op()?;
		Ok(StepOut::Done)
	}

	fn after_op(&mut self) -> Res<()> {
		if self.stages.distinct_stages_populated() >= 2 && self.stages.in_flight() >= 2 {
			self.labels.insert("multi-stage");
		}
		if self.check_every_op && !self.fault_armed {
			self.check_reads(false)?;
		}
		Ok(())
	}

	/// Runs the whole pipeline until nothing is pending. Returns Some(step) if a step faulted.
	pub fn drain(&mut self) -> Res<Option<String>> {
		for _round in 0..100_000 {
			let st = self.pipeline();
			let idle = st.0 == 0 && st.3 == 0 && !st.4 && !st.6;
			if idle && self.stages.appending.is_empty() && _round > 0 {
				// one more flush/enact cycle to be sure the appending file (reindex records) is
				// consumed
				break
			}
			for op in [Op::R, Op::P, Op::R, Op::F, Op::E, Op::C] {
				// process every queued commit
				if op == Op::P {
					let mut n = self.pipeline().0;
					while n > 0 {
						let saved = self.check_every_op;
						self.check_every_op = false;
						let r = self.step(&Op::P);
						self.check_every_op = saved;
						if let StepOut::Faulted(s) = r? {
							return Ok(Some(s))
						}
						let m = self.pipeline().0;
						if m >= n {
							// deferred commit: cannot make progress now
							break
						}
						n = m;
					}
					continue
				}
				let saved = self.check_every_op;
				self.check_every_op = false;
				let r = self.step(&op);
				self.check_every_op = saved;
				if let StepOut::Faulted(s) = r? {
					return Ok(Some(s))
				}
			}
		}
		let st = self.pipeline();
		if st.0 != 0 && self.locked.is_none() {
			fail!("drain-did-not-finish", "pipeline not idle after drain: {:?}", st)
		}
		Ok(None)
	}

	// ------------------------------------------------------------------ reading / checking

	/// True when every accepted commit has certainly been written to the log. In stepping
	/// mode process_commits is synchronous, so an empty queue suffices; with background workers
	/// a commit may have left the queue but not reached the log yet, so only "no commit since
	/// the last (re)open" is certain.
	pub fn queue_empty(&self) -> bool {
		if self.relaxed_dead {
			return false
		}
		if self.background {
			return self.commits_since_open == 0
		}
		self.pipeline().0 == 0
	}

	/// Compares every key of the universe (and every tree) with the model.
	pub fn check_reads(&mut self, deep: bool) -> Res<()> {
		let queue_empty = self.queue_empty();
		for col in 0..self.cfg.cols.len() {
			let ccfg = self.cfg.cols[col].clone();
			match &self.model.cols[col] {
				ColModel::Map(m) => {
					for id in self.universe[col].iter() {
						let key = ccfg.key(*id);
						let got = self.get(col as u8, &key)?;
						let want = m.get(id);
						if got.as_ref() != want {
							if std::env::var("PDBV_ALL").is_ok() {
								eprintln!("MISMATCH col {col} id {id} key {:02x?} got {} want {}", &key[..key.len().min(10)], brief(got.as_deref()), brief(want.map(|v| v.as_slice())));
								continue
							}
							fail!(
								"read-mismatch",
								"col {col} key id {id} (len {}): got {} want {}",
								key.len(),
								brief(got.as_deref()),
								brief(want.map(|v| v.as_slice()))
							)
						}
						let sz = match self.db().get_size(col as u8, &key) {
							Ok(s) => s,
							Err(e) => fail!(format!("get_size-failed:{}", err_sig(&e)), "get_size failed: {e}"),
						};
						if sz != want.map(|v| v.len() as u32) {
							fail!("size-mismatch", "col {col} key id {id}: get_size {:?} want {:?}", sz, want.map(|v| v.len()))
						}
						self.reads += 2;
					}
					if ccfg.kind == Kind::Btree && deep {
						self.check_full_iteration(col as u8)?;
					}
				},
				ColModel::Rc(m) => {
					for id in self.universe[col].iter() {
						let key = ccfg.key(*id);
						let got = self.get(col as u8, &key)?;
						self.reads += 1;
						let count = m.get(id).cloned().unwrap_or(0);
						if count > 0 {
							let want = ccfg.pre_value(*id);
							if got.as_ref() != Some(&want) {
								fail!("rc-live-key-unreadable", "col {col} key id {id} count {count}: got {} want {}", brief(got.as_deref()), brief(Some(&want)))
							}
						} else if queue_empty && got.is_some() {
							fail!("rc-dead-key-readable", "col {col} key id {id} count 0 but readable with all commits logged: {}", brief(got.as_deref()))
						}
					}
				},
				ColModel::Multi(_) => self.check_trees(col as u8)?,
			}
		}
		Ok(())
	}

	pub fn get(&self, col: u8, key: &[u8]) -> Res<Option<Vec<u8>>> {
		match self.db().get(col, key) {
			Ok(v) => Ok(v),
			Err(e) => fail!(format!("get-failed:{}", err_sig(&e)), "get(col {col}, key len {}) failed: {e}", key.len()),
		}
	}

	pub fn check_full_iteration(&mut self, col: u8) -> Res<()> {
		let ccfg = &self.cfg.cols[col as usize];
		let m = match &self.model.cols[col as usize] {
			ColModel::Map(m) => m,
			_ => return Ok(()),
		};
		let mut want: Vec<(Vec<u8>, Vec<u8>)> = m.iter().map(|(id, v)| (ccfg.key(*id), v.clone())).collect();
		want.sort();
		let mut it = match self.db().iter(col) {
			Ok(i) => i,
			Err(e) => fail!("iter-failed", "iter: {e}"),
		};
		let mut got = Vec::new();
		if let Err(e) = it.seek_to_first() {
			fail!("iter-failed", "seek_to_first: {e}")
		}
		loop {
			match it.next() {
				Ok(Some(kv)) => got.push(kv),
				Ok(None) => break,
				Err(e) => fail!("iter-failed", "next: {e}"),
			}
			if got.len() > want.len() + 5 {
				break
			}
		}
		if got != want {
			fail!("full-iteration-mismatch", "col {col} forward iteration: got {} entries want {}; first diff at {:?}", got.len(), want.len(), first_diff(&got, &want))
		}
		let mut back = Vec::new();
		if let Err(e) = it.seek_to_last() {
			fail!("iter-failed", "seek_to_last: {e}")
		}
		loop {
			match it.prev() {
				Ok(Some(kv)) => back.push(kv),
				Ok(None) => break,
				Err(e) => fail!("iter-failed", "prev: {e}"),
			}
			if back.len() > want.len() + 5 {
				break
			}
		}
		back.reverse();
		if back != want {
			fail!("full-iteration-mismatch", "col {col} backward iteration: got {} entries want {}; first diff at {:?}", back.len(), want.len(), first_diff(&back, &want))
		}
		Ok(())
	}

	// -- btree iterator with model cursor (C04)

	pub fn sorted_model(&self, col: u8) -> Vec<(Vec<u8>, Vec<u8>)> {
		let ccfg = &self.cfg.cols[col as usize];
		match &self.model.cols[col as usize] {
			ColModel::Map(m) => {
				let mut v: Vec<_> = m.iter().map(|(id, v)| (ccfg.key(*id), v.clone())).collect();
				v.sort();
				v
			},
			ColModel::Rc(m) => {
				let mut v: Vec<_> = m.keys().map(|id| (ccfg.key(*id), ccfg.pre_value(*id))).collect();
				v.sort();
				v
			},
			_ => vec![],
		}
	}

	pub fn drop_iters(&mut self) {
		self.iters.clear();
	}

	fn iter_op(&mut self, col: u8, iop: &IterOp) -> Res<()> {
		if self.cfg.cols[col as usize].kind != Kind::Btree {
			return Ok(())
		}
		if !self.iters.contains_key(&col) {
			let it = match self.db().iter(col) {
				Ok(i) => i,
				Err(e) => fail!("iter-failed", "iter: {e}"),
			};
			// SAFETY: the iterator borrows data owned by the Arc inside `Db`; it is always
			// dropped (close / drop_iters / field order) before the database handle.
			let it: BTreeIterator<'static> = unsafe { std::mem::transmute(it) };
			self.iters.insert(col, (it, Cursor::Start));
		}
		let sorted = self.sorted_model(col);
		let ccfg = self.cfg.cols[col as usize].clone();
		let multi_layer = self.stages.distinct_stages_populated() >= 2;
		let (it, cur) = self.iters.get_mut(&col).unwrap();
		let fwd = |from: &Cursor| -> Option<(Vec<u8>, Vec<u8>)> {
			match from {
				Cursor::Start => sorted.first().cloned(),
				Cursor::End => None,
				Cursor::Seeked(k) => sorted.iter().find(|(kk, _)| kk >= k).cloned(),
				Cursor::At(k) => sorted.iter().find(|(kk, _)| kk > k).cloned(),
			}
		};
		let bwd = |from: &Cursor| -> Option<(Vec<u8>, Vec<u8>)> {
			match from {
				Cursor::Start => None,
				Cursor::End => sorted.last().cloned(),
				Cursor::Seeked(k) => sorted.iter().rev().find(|(kk, _)| kk <= k).cloned(),
				Cursor::At(k) => sorted.iter().rev().find(|(kk, _)| kk < k).cloned(),
			}
		};
		match iop {
			IterOp::Seek(id) => {
				let k = ccfg.key(*id);
				if let Err(e) = it.seek(&k) {
					fail!("iter-failed", "seek: {e}")
				}
				*cur = Cursor::Seeked(k);
			},
			IterOp::SeekFirst => {
				if let Err(e) = it.seek_to_first() {
					fail!("iter-failed", "seek_to_first: {e}")
				}
				// seek_to_first == seek(&[]): next yields the first key, prev the largest key <= ""
				*cur = Cursor::Seeked(vec![]);
			},
			IterOp::SeekLast => {
				if let Err(e) = it.seek_to_last() {
					fail!("iter-failed", "seek_to_last: {e}")
				}
				*cur = Cursor::End;
			},
			IterOp::Next | IterOp::Prev => {
				let is_next = matches!(iop, IterOp::Next);
				let got = if is_next { it.next() } else { it.prev() };
				let got = match got {
					Ok(g) => g,
					Err(e) => fail!("iter-failed", "next/prev: {e}"),
				};
				let want = if is_next { fwd(cur) } else { bwd(cur) };
				if got != want {
					fail!(
						if is_next { "iter-next-mismatch" } else { "iter-prev-mismatch" },
						"col {col} cursor {:?} {}: got {:?} want {:?}",
						brief_cursor(cur),
						if is_next { "next" } else { "prev" },
						got.as_ref().map(|(k, v)| (brief(Some(k)), brief(Some(v)))),
						want.as_ref().map(|(k, v)| (brief(Some(k)), brief(Some(v))))
					)
				}
				*cur = match want {
					Some((k, _)) => Cursor::At(k),
					None =>
						if is_next {
							Cursor::End
						} else {
							Cursor::Start
						},
				};
				if multi_layer {
					self.labels.insert("iter-step-multi-layer");
				}
				self.labels.insert(if is_next { "iter-next" } else { "iter-prev" });
			},
		}
		Ok(())
	}

	// -- multitree traversal

	pub fn canon_model_tree(&self, col: u8, root: u16) -> Option<CanonTree> {
		let m = match &self.model.cols[col as usize] {
			ColModel::Multi(m) => m,
			_ => return None,
		};
		let (_, data, children) = m.roots.get(&root)?;
		fn node(m: &MultiModel, n: NodeId) -> CanonTree {
			let nd = &m.nodes[n];
			CanonTree { data: h64(&nd.data), len: nd.data.len(), children: nd.children.iter().map(|c| node(m, *c)).collect() }
		}
		Some(CanonTree { data: h64(data), len: data.len(), children: children.iter().map(|c| node(m, *c)).collect() })
	}

	/// Reads a tree through a (briefly locked) tree reader.
	pub fn read_tree(&self, col: u8, root: u16) -> Res<Option<(CanonTree, Vec<u64>)>> {
		let key = self.cfg.cols[col as usize].key(root);
		let tree = match self.db().get_tree(col, &key) {
			Ok(Some(t)) => t,
			Ok(None) => return Ok(None),
			Err(e) => fail!(format!("get_tree-failed:{}", err_sig(&e)), "get_tree failed: {e}"),
		};
		let guard = tree.read();
		let (data, children) = match guard.get_root() {
			Ok(Some(r)) => r,
			Ok(None) => return Ok(None),
			Err(e) => fail!(format!("get_root-failed:{}", err_sig(&e)), "get_root failed: {e}"),
		};
		let mut addrs = Vec::new();
		fn node(
			g: &dyn parity_db::TreeReader,
			a: u64,
			addrs: &mut Vec<u64>,
			budget: &mut usize,
		) -> Res<CanonTree> {
			if *budget == 0 {
				fail!("tree-too-large", "traversal exceeded budget (cycle?)")
			}
			*budget -= 1;
			addrs.push(a);
			match g.get_node(a) {
				Ok(Some((data, children))) => {
					let mut ch = Vec::new();
					for c in children {
						ch.push(node(g, c, addrs, budget)?);
					}
					Ok(CanonTree { data: h64(&data), len: data.len(), children: ch })
				},
				Ok(None) => fail!("tree-node-missing", "get_node({a:#x}) = None for a node of a live tree"),
				Err(e) => fail!(format!("get_node-failed:{}", err_sig(&e)), "get_node({a:#x}) failed: {e}"),
			}
		}
		let mut budget = 200_000usize;
		let mut ch = Vec::new();
		for c in children {
			ch.push(node(&**guard, c, &mut addrs, &mut budget)?);
		}
		Ok(Some((CanonTree { data: h64(&data), len: data.len(), children: ch }, addrs)))
	}

	pub fn check_trees(&mut self, col: u8) -> Res<()> {
		let ids: Vec<u16> = self.universe[col as usize].iter().cloned().collect();
		let direct = {
			let c = &self.cfg.cols[col as usize];
			c.append_only || c.direct
		};
		for root in ids {
			let want = self.canon_model_tree(col, root);
			let got = match self.read_tree(col, root) {
				// a tree that is dead in the model may be half removed by a worker thread while
				// it is being walked here
				// (known finding locked-reader-after-queued-dereference: the read lock taken here
				// comes after the dereference was submitted)
				Err(f) if want.is_none() && self.background && f.sig == "tree-node-missing" && std::env::var("PDBV_STRICT_DEAD").is_err() => {
					self.excluded_known.set(self.excluded_known.get() + 1);
					None
				},
				Err(f) if f.sig == "tree-node-missing" => return Err(Failure::new(f.sig.clone(), format!("{} [col {col} root {root}, live in the model: {}, queue_empty {}, pipeline {:?}]", f.detail, want.is_some(), self.queue_empty(), self.db().verif_pipeline_state()))),
				r => r?,
			};
			self.reads += 1;
			match (&want, &got) {
				(None, None) => {},
				(Some(w), Some((g, _))) =>
					if w != g {
						fail!("tree-mismatch", "col {col} root {root}: tree read back differs from what was inserted: got {} want {}", canon_brief(g), canon_brief(w))
					},
				(None, Some(_)) => {
					// a dereferenced root may stay readable until its commit is processed only if
					// ... no: the commit overlay hides it immediately for non-rc columns
					let locked_here = self.locked.as_ref().map_or(false, |l| l.col == col && l.root == root);
					if !locked_here && self.queue_empty() {
						fail!("dead-tree-readable", "col {col} root {root}: not live in the model but get_tree/get_root returns a tree")
					}
				},
				(Some(_), None) => fail!("live-tree-unreadable", "col {col} root {root}: live in the model but not readable"),
			}
			if direct && want.is_some() {
				// direct access API
				let key = self.cfg.cols[col as usize].key(root);
				match self.db().get_root(col, &key) {
					Ok(Some((data, children))) => {
						let w = want.as_ref().unwrap();
						if h64(&data) != w.data || children.len() != w.children.len() {
							fail!("direct-root-mismatch", "col {col} root {root}: Db::get_root differs from the model")
						}
						for (a, wc) in children.iter().zip(w.children.iter()) {
							match self.db().get_node(col, *a) {
								Ok(Some((d, ch))) => {
									if h64(&d) != wc.data || ch.len() != wc.children.len() {
										fail!("direct-node-mismatch", "col {col} root {root}: Db::get_node({a:#x}) differs from the model")
									}
									match self.db().get_node_children(col, *a) {
										Ok(Some(c2)) =>
											if c2 != ch {
												fail!("direct-node-children-mismatch", "col {col} root {root}: Db::get_node_children({a:#x}) = {c2:?} but Db::get_node gave {ch:?}")
											},
										Ok(None) => fail!("direct-node-missing", "Db::get_node_children({a:#x}) = None for a node Db::get_node returns"),
										Err(e) => fail!("direct-node-failed", "Db::get_node_children: {e}"),
									}
								},
								Ok(None) => fail!("direct-node-missing", "Db::get_node({a:#x}) = None"),
								Err(e) => fail!("direct-node-failed", "Db::get_node: {e}"),
							}
						}
					},
					Ok(None) => fail!("direct-root-missing", "col {col} root {root}: Db::get_root = None for a live root"),
					Err(e) => fail!("direct-root-failed", "Db::get_root: {e}"),
				}
			}
		}
		Ok(())
	}

	/// `get_num_column_value_entries` when it is defined (no multipart entries).
	pub fn num_entries(&self, col: u8) -> Option<u64> {
		self.db().get_num_column_value_entries(col).ok()
	}
}

pub fn brief(v: Option<&[u8]>) -> String {
	match v {
		None => "None".into(),
		Some(v) => {
			let head: Vec<String> = v.iter().take(6).map(|b| format!("{b:02x}")).collect();
			format!("Some(len {} [{}..] h{:08x})", v.len(), head.join(""), h64(v) as u32)
		},
	}
}

fn brief_cursor(c: &Cursor) -> String {
	match c {
		Cursor::Start => "Start".into(),
		Cursor::End => "End".into(),
		Cursor::Seeked(k) => format!("Seeked({})", brief(Some(k))),
		Cursor::At(k) => format!("At({})", brief(Some(k))),
	}
}

pub fn canon_brief(c: &CanonTree) -> String {
	fn count(c: &CanonTree) -> usize {
		1 + c.children.iter().map(count).sum::<usize>()
	}
	format!("(root len {} fanout {} nodes {})", c.len, c.children.len(), count(c))
}

fn first_diff(a: &[(Vec<u8>, Vec<u8>)], b: &[(Vec<u8>, Vec<u8>)]) -> Option<(usize, String, String)> {
	for i in 0..a.len().max(b.len()) {
		if a.get(i) != b.get(i) {
			return Some((
				i,
				a.get(i).map_or("-".into(), |(k, v)| format!("{}={}", brief(Some(k)), brief(Some(v)))),
				b.get(i).map_or("-".into(), |(k, v)| format!("{}={}", brief(Some(k)), brief(Some(v)))),
			))
		}
	}
	None
}

pub fn tx_brief(tx: &[(u8, RChange)]) -> String {
	let v: Vec<String> = tx
		.iter()
		.map(|(c, ch)| match ch {
			RChange::Set(k, v) => format!("c{c}:Set({k},len{})", v.len()),
			RChange::Del(k) => format!("c{c}:Del({k})"),
			RChange::Ref(k) => format!("c{c}:Ref({k})"),
			RChange::InsertTree(k, t) => format!("c{c}:InsertTree({k},fanout{})", t.children.len()),
			RChange::RefTree(k) => format!("c{c}:RefTree({k})"),
			RChange::DerefTree(k) => format!("c{c}:DerefTree({k})"),
		})
		.collect();
	v.join(",")
}

impl Drop for Interp {
	fn drop(&mut self) {
		self.close();
	}
}
