//! Driver binary (see `pdbv::driver`).
fn main() {
	pdbv::driver::main_entry();
}
