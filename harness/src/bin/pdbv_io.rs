//! Same driver as `pdbv`, with libc interposers linked in: fdatasync, fsync, msync, ftruncate,
//! unlink, mmap, munmap made by std / memmap2 / the library inside this process are reported
//! to `pdbv::iotrack` before the real function runs (reached through dlsym(RTLD_NEXT)).

use libc::{c_char, c_int, c_void, off_t, size_t, ssize_t};

unsafe fn eio() -> c_int {
	*libc::__errno_location() = libc::EIO;
	-1
}
use std::sync::atomic::{AtomicUsize, Ordering};

macro_rules! real {
	($name:literal, $ty:ty) => {{
		static PTR: AtomicUsize = AtomicUsize::new(0);
		let mut p = PTR.load(Ordering::Relaxed);
		if p == 0 {
			p = unsafe { libc::dlsym(libc::RTLD_NEXT, concat!($name, "\0").as_ptr() as *const c_char) } as usize;
			PTR.store(p, Ordering::Relaxed);
		}
		unsafe { std::mem::transmute::<usize, $ty>(p) }
	}};
}

#[no_mangle]
pub unsafe extern "C" fn fdatasync(fd: c_int) -> c_int {
	if pdbv::iotrack::eio_fd(fd) {
		return eio()
	}
	pdbv::iotrack::before_log_sync(fd);
	let r = real!("fdatasync", unsafe extern "C" fn(c_int) -> c_int)(fd);
	if r == 0 {
		pdbv::iotrack::on_fsync(fd);
	}
	r
}

#[no_mangle]
pub unsafe extern "C" fn fsync(fd: c_int) -> c_int {
	if pdbv::iotrack::eio_fd(fd) {
		return eio()
	}
	let r = real!("fsync", unsafe extern "C" fn(c_int) -> c_int)(fd);
	if r == 0 {
		pdbv::iotrack::on_fsync(fd);
	}
	r
}

#[no_mangle]
pub unsafe extern "C" fn msync(addr: *mut c_void, len: size_t, flags: c_int) -> c_int {
	if pdbv::iotrack::eio_addr(addr as usize) {
		return eio()
	}
	if pdbv::iotrack::THREADED.load(Ordering::SeqCst) {
		// real worker threads: what the call guarantees is the content at call time
		pdbv::iotrack::on_msync(addr as usize, len);
		let d = pdbv::iotrack::MSYNC_DELAY_US.load(Ordering::SeqCst);
		if d > 0 {
			std::thread::sleep(std::time::Duration::from_micros(d));
		}
		return real!("msync", unsafe extern "C" fn(*mut c_void, size_t, c_int) -> c_int)(addr, len, flags)
	}
	let r = real!("msync", unsafe extern "C" fn(*mut c_void, size_t, c_int) -> c_int)(addr, len, flags);
	if r == 0 {
		pdbv::iotrack::on_msync(addr as usize, len);
	}
	r
}

#[no_mangle]
pub unsafe extern "C" fn ftruncate(fd: c_int, len: off_t) -> c_int {
	if pdbv::iotrack::eio_fd(fd) {
		return eio()
	}
	pdbv::iotrack::on_ftruncate(fd, len);
	let r = real!("ftruncate", unsafe extern "C" fn(c_int, off_t) -> c_int)(fd, len);
	pdbv::iotrack::after_ftruncate(fd);
	r
}

#[no_mangle]
pub unsafe extern "C" fn ftruncate64(fd: c_int, len: i64) -> c_int {
	if pdbv::iotrack::eio_fd(fd) {
		return eio()
	}
	pdbv::iotrack::on_ftruncate(fd, len);
	let r = real!("ftruncate64", unsafe extern "C" fn(c_int, i64) -> c_int)(fd, len);
	pdbv::iotrack::after_ftruncate(fd);
	r
}

#[no_mangle]
pub unsafe extern "C" fn unlink(path: *const c_char) -> c_int {
	if !path.is_null() {
		if let Ok(s) = std::ffi::CStr::from_ptr(path).to_str() {
			if pdbv::iotrack::eio_path(std::path::Path::new(s)) {
				return eio()
			}
			pdbv::iotrack::on_unlink(std::path::Path::new(s));
		}
	}
	let r = real!("unlink", unsafe extern "C" fn(*const c_char) -> c_int)(path);
	if !path.is_null() {
		if let Ok(s) = std::ffi::CStr::from_ptr(path).to_str() {
			pdbv::iotrack::after_unlink(std::path::Path::new(s));
		}
	}
	r
}

#[no_mangle]
pub unsafe extern "C" fn mmap(addr: *mut c_void, len: size_t, prot: c_int, flags: c_int, fd: c_int, off: off_t) -> *mut c_void {
	if fd >= 0 && pdbv::iotrack::eio_fd(fd) {
		eio();
		return libc::MAP_FAILED
	}
	let r = real!("mmap", unsafe extern "C" fn(*mut c_void, size_t, c_int, c_int, c_int, off_t) -> *mut c_void)(addr, len, prot, flags, fd, off);
	if r != libc::MAP_FAILED && fd >= 0 {
		pdbv::iotrack::on_mmap(r as usize, len, fd, off);
	}
	r
}

#[no_mangle]
pub unsafe extern "C" fn mmap64(addr: *mut c_void, len: size_t, prot: c_int, flags: c_int, fd: c_int, off: i64) -> *mut c_void {
	if fd >= 0 && pdbv::iotrack::eio_fd(fd) {
		eio();
		return libc::MAP_FAILED
	}
	let r = real!("mmap64", unsafe extern "C" fn(*mut c_void, size_t, c_int, c_int, c_int, i64) -> *mut c_void)(addr, len, prot, flags, fd, off);
	if r != libc::MAP_FAILED && fd >= 0 {
		pdbv::iotrack::on_mmap(r as usize, len, fd, off);
	}
	r
}

#[no_mangle]
pub unsafe extern "C" fn munmap(addr: *mut c_void, len: size_t) -> c_int {
	pdbv::iotrack::on_munmap(addr as usize);
	real!("munmap", unsafe extern "C" fn(*mut c_void, size_t) -> c_int)(addr, len)
}

#[no_mangle]
pub unsafe extern "C" fn write(fd: c_int, buf: *const c_void, count: size_t) -> ssize_t {
	if pdbv::iotrack::eio_write_fd(fd) {
		*libc::__errno_location() = if pdbv::iotrack::EIO_WRITES_ONLY.load(Ordering::Relaxed) { libc::ENOSPC } else { libc::EIO };
		return -1
	}
	real!("write", unsafe extern "C" fn(c_int, *const c_void, size_t) -> ssize_t)(fd, buf, count)
}

fn main() {
	pdbv::driver::main_entry();
}
