//! Scenario language: database configuration, key / value specifications and operations.
//! Everything is plain data (serde) so that a shrunk failing case is a small JSON file.

use parity_db::{ColumnOptions, CompressionType, Options};
use serde::{Deserialize, Serialize};
use std::path::Path;

#[derive(Clone, Copy, Debug, Serialize, Deserialize, PartialEq, Eq, Hash)]
pub enum Kind {
	Hash,
	Btree,
	Multi,
}

/// Which deterministic key universe a column draws its keys from.
#[derive(Clone, Copy, Debug, Serialize, Deserialize, PartialEq, Eq, Hash)]
pub enum KeySet {
	/// Hashed keys of many length classes (0, 1.., 31, 32, 33, 200.., 1000..).
	Lens,
	/// Uniform keys: 32 bytes, 33..64 bytes, ~300 bytes.
	Uniform,
	/// Exactly 32-byte keys (uniform + zero salt identity hash): id -> crafted hash prefix.
	/// `page` fixes the top 16 bits; see `crafted_key`.
	Crafted { page: u16 },
	/// Btree universe: shared prefixes, k, k|00, k|ff, length boundaries 253..256, long keys.
	Btree,
	/// 32-byte root keys for multitree columns.
	Roots,
	/// Identity-hashed keys built for controlled index growth (C09): see `grow_key`.
	Grow { page: u16 },
}

#[derive(Clone, Debug, Serialize, Deserialize, PartialEq, Eq, Hash)]
pub struct ColCfg {
	pub kind: Kind,
	pub uniform: bool,
	pub preimage: bool,
	pub rc: bool,
	/// 0 none, 1 lz4, 2 snappy
	pub compression: u8,
	/// None = default threshold (4096)
	pub threshold: Option<u32>,
	pub append_only: bool,
	pub direct: bool,
	pub keyset: KeySet,
	/// If set, the preimage value of key id i has exactly length base + i (size-boundary
	/// enumeration on columns whose values are a function of the key).
	#[serde(default)]
	pub pre_len_base: Option<u32>,
}

impl ColCfg {
	pub fn hash() -> ColCfg {
		ColCfg {
			kind: Kind::Hash,
			uniform: false,
			preimage: false,
			rc: false,
			compression: 0,
			threshold: None,
			append_only: false,
			direct: false,
			keyset: KeySet::Lens,
			pre_len_base: None,
		}
	}
	pub fn btree() -> ColCfg {
		ColCfg { kind: Kind::Btree, keyset: KeySet::Btree, ..ColCfg::hash() }
	}
	pub fn hash_rc() -> ColCfg {
		ColCfg { preimage: true, rc: true, ..ColCfg::hash() }
	}
	pub fn btree_rc() -> ColCfg {
		ColCfg { preimage: true, rc: true, ..ColCfg::btree() }
	}
	pub fn multi() -> ColCfg {
		ColCfg { kind: Kind::Multi, keyset: KeySet::Roots, ..ColCfg::hash() }
	}
	pub fn column_options(&self) -> ColumnOptions {
		ColumnOptions {
			preimage: self.preimage,
			uniform: self.uniform,
			ref_counted: self.rc,
			compression: match self.compression {
				1 => CompressionType::Lz4,
				2 => CompressionType::Snappy,
				_ => CompressionType::NoCompression,
			},
			btree_index: self.kind == Kind::Btree,
			multitree: self.kind == Kind::Multi,
			append_only: self.append_only,
			allow_direct_node_access: self.direct,
		}
	}
	/// Value is a function of the key (preimage contract) for these columns.
	pub fn value_from_key(&self) -> bool {
		self.preimage || self.rc
	}
	pub fn key(&self, id: u16) -> Vec<u8> {
		key_bytes(self.keyset, id)
	}
	/// The value the preimage contract assigns to a key.
	pub fn pre_value(&self, id: u16) -> Vec<u8> {
		let k = self.key(id);
		let h = splitmix(0x9e37 ^ (id as u64) << 7 ^ k.len() as u64);
		// mostly small, some multi-tier, occasionally multipart
		let len = match h % 16 {
			0 => 0,
			1..=9 => 1 + (h >> 8) % 60,
			10..=12 => 100 + (h >> 8) % 900,
			13 => 4000 + (h >> 8) % 200,
			14 => 9000,
			_ => 33000 + (h >> 8) % 100,
		} as u32;
		// distinct keys must have distinct values ("a given value always has the same key"):
		// the first two bytes carry the key id, so the minimum length is 2.
		let len = match self.pre_len_base {
			Some(b) => b + id as u32,
			None => len,
		};
		let mut v = VSpec { len: len.max(2), fill: (h >> 40) as u8 % 3, seed: id ^ 0x5a5a }.bytes();
		v[0] = id as u8;
		v[1] = (id >> 8) as u8;
		v
	}
	/// Inverse of `pre_value` for observation of value iteration: which key id owns a value.
	pub fn pre_value_owner(&self, value: &[u8]) -> Option<u16> {
		if value.len() < 2 {
			return None
		}
		let id = value[0] as u16 | (value[1] as u16) << 8;
		if self.pre_value(id) == value {
			Some(id)
		} else {
			None
		}
	}
}

#[derive(Clone, Debug, Serialize, Deserialize, PartialEq, Eq, Hash)]
pub struct DbCfg {
	pub cols: Vec<ColCfg>,
	pub zero_salt: bool,
	pub sync_wal: bool,
	pub sync_data: bool,
	/// the repository's test option: every log file is rotated and applied at once instead of
	/// after 64 MiB - with real worker threads the only way to see records applied and log
	/// files reclaimed while clients are still committing
	#[serde(default)]
	pub always_flush: bool,
	/// the library's defaults, which the other fields of this struct override: `salt: None`
	/// (every open after the creation takes the salt from the metadata file; the creation itself
	/// still uses the fixed salt so that a run stays a pure function of the seed) ...
	#[serde(default)]
	pub salt_from_meta: bool,
	/// ... and `stats: true` (statistics collected on every query / write, stored in the index
	/// file's header area and in stats.txt when the handle is dropped)
	#[serde(default)]
	pub stats: bool,
}

impl DbCfg {
	pub fn new(cols: Vec<ColCfg>) -> DbCfg {
		DbCfg { cols, zero_salt: false, sync_wal: true, sync_data: true, always_flush: false, salt_from_meta: false, stats: false }
	}
	/// bit 0: salt from the metadata file, bit 1: statistics on
	pub fn flags(mut self, bits: u8) -> DbCfg {
		self.salt_from_meta = bits & 1 != 0;
		self.stats = bits & 2 != 0;
		self
	}
	pub fn options(&self, path: &Path, background: bool) -> Options {
		let mut o = Options::with_columns(path, self.cols.len() as u8);
		for (i, c) in self.cols.iter().enumerate() {
			o.columns[i] = c.column_options();
			if let Some(t) = c.threshold {
				o.compression_threshold.insert(i as u8, t);
			}
		}
		o.sync_wal = self.sync_wal;
		o.sync_data = self.sync_data;
		o.stats = self.stats;
		o.salt = if self.salt_from_meta && path.join("metadata").exists() { None } else { Some(if self.zero_salt { [0u8; 32] } else { FIXED_SALT }) };
		o.with_background_thread = background;
		o.always_flush = self.always_flush;
		o
	}
}

/// A fixed non-zero salt: runs must be a pure function of the seed.
pub const FIXED_SALT: [u8; 32] = [
	0x3b, 0x11, 0xf7, 0x80, 0x42, 0x99, 0xa0, 0x05, 0x6c, 0xd3, 0x1e, 0x77, 0x28, 0xb4, 0xe9, 0x50,
	0x0a, 0xc6, 0x35, 0x8d, 0xf2, 0x61, 0x9f, 0x14, 0xbb, 0x47, 0xd8, 0x2c, 0x73, 0xe0, 0x06, 0x9a,
];

pub fn splitmix(mut x: u64) -> u64 {
	x = x.wrapping_add(0x9e3779b97f4a7c15);
	let mut z = x;
	z = (z ^ (z >> 30)).wrapping_mul(0xbf58476d1ce4e5b9);
	z = (z ^ (z >> 27)).wrapping_mul(0x94d049bb133111eb);
	z ^ (z >> 31)
}

pub fn fill_random(buf: &mut [u8], seed: u64) {
	let mut s = seed;
	for chunk in buf.chunks_mut(8) {
		s = splitmix(s);
		let b = s.to_le_bytes();
		chunk.copy_from_slice(&b[..chunk.len()]);
	}
}

const LENS_TABLE: [usize; 16] = [0, 1, 2, 3, 8, 16, 31, 32, 33, 64, 200, 255, 300, 1000, 2500, 5000];
const UNIFORM_TABLE: [usize; 6] = [32, 32, 33, 40, 64, 300];
const BTREE_LENS: [usize; 14] = [1, 2, 3, 8, 20, 253, 254, 255, 256, 300, 1000, 5, 12, 70000];

/// Deterministic key universe. Distinct ids give distinct keys inside one key set.
pub fn key_bytes(set: KeySet, id: u16) -> Vec<u8> {
	match set {
		KeySet::Lens => {
			if id == 0 {
				return vec![]
			}
			let mut len = LENS_TABLE[id as usize % LENS_TABLE.len()];
			if len == 0 {
				len = 7
			}
			let mut k = vec![0u8; len];
			fill_random(&mut k, 0x1000 + id as u64);
			// guarantee distinctness for the short classes
			if len == 1 {
				k[0] = id as u8 ^ (id >> 8) as u8;
				if id >= 256 {
					k.push((id >> 8) as u8);
				}
			} else {
				k[0] = id as u8;
				k[1] = (id >> 8) as u8;
			}
			k
		},
		KeySet::Uniform => {
			let len = UNIFORM_TABLE[id as usize % UNIFORM_TABLE.len()];
			let mut k = vec![0u8; len];
			// ids 6n and 6n+2.. may share the first 32 bytes (tail differs) for n odd
			let base = if id % 12 >= 6 && id % 6 >= 2 { id - (id % 6) + 1 } else { id };
			fill_random(&mut k[..32], 0x2000 + base as u64);
			if len > 32 {
				fill_random(&mut k[32..], 0x3000 + id as u64);
			}
			k
		},
		KeySet::Crafted { page } => crafted_key(page, id).to_vec(),
		KeySet::Grow { page } => grow_key(page, id).to_vec(),
		KeySet::Btree => {
			if id == 0 {
				return vec![]
			}
			let base = (id - 1) / 3;
			let variant = (id - 1) % 3;
			let len = BTREE_LENS[base as usize % BTREE_LENS.len()];
			let mut k = vec![0u8; len];
			// few distinct leading bytes so that many keys share prefixes
			fill_random(&mut k, 0x4000 + (base / 4) as u64);
			if len >= 2 {
				k[len - 1] = base as u8;
				k[len - 2] = (base >> 8) as u8 ^ k[len - 2] & 0xf0;
			} else {
				k[0] = base as u8;
			}
			match variant {
				0 => {},
				1 => k.push(0x00),
				_ => k.push(0xff),
			}
			k
		},
		KeySet::Roots => {
			let mut k = vec![0u8; 32];
			fill_random(&mut k, 0x5000 + id as u64);
			k[0] = id as u8;
			k[1] = (id >> 8) as u8;
			k
		},
	}
}

/// Identity-hashed 32-byte key for uniform columns with the all-zero salt.
/// Layout of the first 8 bytes (big endian u64 = index key prefix):
///   bits 63..48 = page (16-bit page prefix)
///   bits 47..45 = (id >> 6) & 7   -> spreads keys over the 17..19-bit sub-pages
///   bits 44..10 = group(id)       -> partial key material
/// ids with id % 8 >= 5 share *all* first 8 bytes with id - (id % 8) + 4 (an index-identical
/// group of up to four keys) and differ only in byte 8...
pub fn crafted_key(page: u16, id: u16) -> [u8; 32] {
	let leader = if id % 8 >= 5 { id - (id % 8) + 4 } else { id };
	let sub = ((leader >> 6) & 7) as u64;
	let g = splitmix(0x7000 + leader as u64) & ((1u64 << 35) - 1);
	let prefix: u64 = ((page as u64) << 48) | (sub << 45) | (g << 10) | 0x3ff;
	let mut k = [0u8; 32];
	k[0..8].copy_from_slice(&prefix.to_be_bytes());
	let mut tail = [0u8; 24];
	fill_random(&mut tail, 0x8000 + id as u64);
	k[8..].copy_from_slice(&tail);
	k[8] = id as u8;
	k[9] = (id >> 8) as u8;
	k
}

/// Identity-hashed 32-byte key for controlled index growth. ids come in blocks of 8; block b
/// lives in the 19-bit sub-page (b % 8) of the 16-bit page `page`, so n keys put ~n/8 keys
/// under every 19-bit prefix: growth 16 -> 17 -> 18 -> 19 bits happens for n > 64 / 128 / 256
/// and terminates for n <= 480. Inside a block the ids with id % 8 >= 5 share ALL of the first
/// 8 bytes (everything the index can see) with id % 8 == 4: an index-identical group of four
/// keys that differ only in the key tail stored in the value table. ids >= 20000 are
/// background keys on other pages.
pub fn grow_key(page: u16, id: u16) -> [u8; 32] {
	let mut k = [0u8; 32];
	let mut tail = [0u8; 24];
	fill_random(&mut tail, 0x9000 + id as u64);
	k[8..].copy_from_slice(&tail);
	k[8] = id as u8;
	k[9] = (id >> 8) as u8;
	if (30000..40000).contains(&id) {
		// dense background: 60 keys on each of the pages 0x8000, 0x8001, ... (full enough that a
		// reindex batch boundary of 8192 entries falls inside a page, never overflowing one)
		let pg = 0x8000u64 + ((id - 30000) / 60) as u64;
		let prefix = (pg << 48) | (splitmix(0xdddd + id as u64) & ((1u64 << 48) - 1)) | 1;
		k[0..8].copy_from_slice(&prefix.to_be_bytes());
		return k
	}
	if id >= 20000 {
		let prefix = splitmix(0xbbbb + id as u64) | 1 << 63;
		let prefix = if (prefix >> 48) as u16 == page { prefix ^ (1 << 62) } else { prefix };
		k[0..8].copy_from_slice(&prefix.to_be_bytes());
		return k
	}
	let leader = if id % 8 >= 5 { id - (id % 8) + 4 } else { id };
	let sub = ((leader / 8) % 8) as u64;
	let g = splitmix(0x7700 + leader as u64) & ((1u64 << 35) - 1);
	let prefix: u64 = ((page as u64) << 48) | (sub << 45) | (g << 10) | 0x2aa;
	k[0..8].copy_from_slice(&prefix.to_be_bytes());
	k
}

/// Value specification: length, fill class and seed; the bytes are a pure function of it.
#[derive(Clone, Debug, Serialize, Deserialize, PartialEq, Eq, Hash)]
pub struct VSpec {
	pub len: u32,
	/// 0 zeros, 1 repeating text, 2 random, 3 random head + compressible tail
	pub fill: u8,
	pub seed: u16,
}

impl VSpec {
	pub fn bytes(&self) -> Vec<u8> {
		let len = self.len as usize;
		let mut v = vec![0u8; len];
		match self.fill % 4 {
			0 => {
				// zeros, tagged with the seed so that different versions differ
				if len >= 2 {
					v[0] = self.seed as u8;
					v[1] = (self.seed >> 8) as u8;
				}
			},
			1 => {
				let pat = format!("value-{:05}-lorem ipsum dolor sit amet ", self.seed);
				let p = pat.as_bytes();
				for (i, b) in v.iter_mut().enumerate() {
					*b = p[i % p.len()];
				}
			},
			2 => fill_random(&mut v, 0xa000 + self.seed as u64),
			_ => {
				let head = len / 3;
				fill_random(&mut v[..head], 0xb000 + self.seed as u64);
				for (i, b) in v[head..].iter_mut().enumerate() {
					*b = b"abcdabcdabcdabcx"[i % 16];
				}
			},
		}
		v
	}
}

/// Shape of a tree to insert into a multitree column.
#[derive(Clone, Debug, Serialize, Deserialize, PartialEq, Eq, Hash)]
pub struct TreeSpec {
	pub data: VSpec,
	pub children: Vec<ChildSpec>,
}

#[derive(Clone, Debug, Serialize, Deserialize, PartialEq, Eq, Hash)]
pub enum ChildSpec {
	New(TreeSpec),
	/// A node of a live tree, selected (monotone index mapping) at interpretation time:
	/// (tree selector, node selector). Falls back to a new leaf when no tree is live.
	Existing(u16, u16),
	/// A specific node of the model arena (used by the ref-count growth scenarios, which
	/// need nodes whose addresses fall into one chunk of the reference-count table).
	ExistingNode(u32),
}

#[derive(Clone, Debug, Serialize, Deserialize, PartialEq, Eq, Hash)]
pub enum Change {
	Set(u16, VSpec),
	/// `Operation::Dereference` (removal for plain columns, count decrement for rc columns)
	Del(u16),
	/// `Operation::Reference`
	Ref(u16),
	InsertTree(u16, TreeSpec),
	/// selector over live roots
	RefTree(u16),
	DerefTree(u16),
	/// Operations by raw root key id (used for poisoned transactions: missing roots etc.)
	DerefTreeKey(u16),
	RefTreeKey(u16),
}

#[derive(Clone, Debug, Serialize, Deserialize, PartialEq, Eq, Hash)]
pub struct Item {
	pub col: u8,
	pub ch: Change,
}

#[derive(Clone, Debug, Serialize, Deserialize, PartialEq, Eq, Hash)]
pub enum IterOp {
	Seek(u16),
	SeekFirst,
	SeekLast,
	Next,
	Prev,
}

#[derive(Clone, Debug, Serialize, Deserialize, PartialEq, Eq, Hash)]
pub enum Op {
	Commit(Vec<Item>),
	/// process_commits (one commit)
	P,
	/// flush_logs
	F,
	/// enact_logs (one log file)
	E,
	/// clean_logs
	C,
	/// process_reindex (one batch)
	R,
	Drain,
	Reopen,
	/// Iterator call on the (single) long-lived iterator of btree column `0.0`
	Iter(u8, IterOp),
	/// Tree reader lock / unlock (C11): selector over live roots, slot number
	LockTree(u8, u16),
	UnlockTree,
	/// A transaction that must be rejected (C08): valid items with one invalid operation
	/// inserted at position `pos` (monotone selector).
	Poison(Vec<Item>, BadOp, u16),
	/// Put the database into the background-error state (as a failing worker does).
	BgError,
	/// a worker failed (background-error state, entered through the verif_store_err hook),
	/// then the handle is dropped and the database opened again
	ReopenAfterError,
}

/// Invalid operations of C08; `u8` selects among the columns the category applies to.
#[derive(Clone, Debug, Serialize, Deserialize, PartialEq, Eq, Hash)]
pub enum BadOp {
	/// Reference on a hash / btree column without reference counting
	RefOnPlain(u8, u16),
	/// InsertTree (0) / ReferenceTree (1) / DereferenceTree (2) on a non-tree column
	TreeOpOnNonTree(u8, u8, u16),
	/// Set (0) / Reference (1) / Dereference (2) on a multitree column
	MapOpOnMulti(u8, u8, u16),
	/// DereferenceTree on an append-only multitree column (selector over live roots)
	DerefAppendOnly(u8, u16),
	/// DereferenceTree of a root key that does not exist
	DerefMissingRoot(u8, u16),
	/// InsertTree with an unrepresentable node (more than 255 children)
	OversizeInsert(u8, u16, u16),
	/// ReferenceTree on a multitree column whose roots are not reference counted (and which is
	/// not append-only, where the operation is a documented no-op); selector over live roots
	RefTreeOnPlainMulti(u8, u16),
}

#[derive(Clone, Debug, Serialize, Deserialize, PartialEq, Eq, Hash)]
pub struct Scenario {
	pub cfg: DbCfg,
	pub ops: Vec<Op>,
}

/// Monotone index mapping: shrinking the selector moves towards index 0.
pub fn pick(sel: u16, len: usize) -> usize {
	if len == 0 {
		0
	} else {
		((sel as usize) * len) >> 16
	}
}
