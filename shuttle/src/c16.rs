//! C16 (threaded part) An I/O error in a worker stops the writer cleanly.
//! Under shuttle all tasks share one OS thread, so the library's thread-local fault injector
//! acts on every worker: from the n-th file operation on, every file operation of the pipeline
//! fails, whichever worker performs it - the property's "persisting until restart".

use crate::common::*;
use parity_db::{ColumnOptions, Db, Options};
use proptest::prelude::*;
use serde::{Deserialize, Serialize};
use shuttle::thread;
use std::{
	path::Path,
	sync::{
		atomic::{AtomicBool, AtomicU32, Ordering},
		Arc,
	},
};

#[derive(Clone, Debug, Serialize, Deserialize)]
pub struct Workload {
	/// per client: transactions = lists of (key, size class)
	pub clients: Vec<Vec<Vec<(u16, u8)>>>,
	/// the n-th file operation (counted over all workers) and every later one fails
	pub fault_at: u16,
	pub btree: bool,
}

const LENS: [usize; 6] = [0, 20, 300, 5_000, 40_000, 6 << 20];

fn value(key: u16, class: u8, client: usize, t: usize) -> Vec<u8> {
	let len = LENS[class as usize % LENS.len()];
	let mut v = vec![(key as u8) ^ (t as u8); len + 8];
	v[..2].copy_from_slice(&key.to_le_bytes());
	v[2] = client as u8;
	v[3..7].copy_from_slice(&(t as u32).to_le_bytes());
	v[7] = class;
	v
}

fn key(client: usize, k: u16) -> Vec<u8> {
	vec![b'e', client as u8, k as u8, 0x42]
}

pub fn workload() -> impl Strategy<Value = Workload> {
	let tx = proptest::collection::vec((0u16..8, 0u8..5), 1..=4);
	let client = proptest::collection::vec(tx, 3..12);
	(proptest::collection::vec(client, 1..=2), prop_oneof![3 => 0u16..40, 2 => 40u16..400], any::<bool>()).prop_map(|(clients, fault_at, btree)| Workload { clients, fault_at, btree })
}

/// Bursts beyond the 16 MiB commit-queue limit: a client is throttled on the full queue at the
/// moment the workers fail (the failing worker has to wake it, and it must not go back to sleep).
pub fn workload_burst() -> impl Strategy<Value = Workload> {
	let big = (0u16..8).prop_map(|k| vec![(k, 5u8)]);
	let small = proptest::collection::vec((0u16..8, 0u8..4), 1..=3);
	let client = (proptest::collection::vec(big, 3..=5), proptest::collection::vec(small, 1..4)).prop_map(|(mut b, s)| {
		b.extend(s);
		b
	});
	(proptest::collection::vec(client, 1..=2), 0u16..30, any::<bool>()).prop_map(|(clients, fault_at, btree)| Workload { clients, fault_at, btree })
}

static PAUSE_DEPTH: AtomicU32 = AtomicU32::new(0);
static PAUSE_SAVED: std::sync::atomic::AtomicUsize = std::sync::atomic::AtomicUsize::new(0);

/// `Db::get` with the (shared, thread-local) fault injector paused. Two clients may be inside
/// at once - `get` contains scheduling points - so the pause is counted: the first one in saves
/// the remaining budget, the last one out restores it. (A plain save / restore per call let one
/// client re-arm the injector in the middle of the other's read: a false alarm of the harness,
/// seen once in a smoke run of the thorough tier.)
fn get_unfaulted(db: &Db, key: &[u8]) -> parity_db::Result<Option<Vec<u8>>> {
	if PAUSE_DEPTH.fetch_add(1, Ordering::SeqCst) == 0 {
		PAUSE_SAVED.store(parity_db::verif_remaining_io_operations(), Ordering::SeqCst);
		parity_db::set_number_of_allowed_io_operations(usize::MAX);
	}
	let got = db.get(0, key);
	if PAUSE_DEPTH.fetch_sub(1, Ordering::SeqCst) == 1 {
		parity_db::set_number_of_allowed_io_operations(PAUSE_SAVED.load(Ordering::SeqCst));
	}
	got
}

fn options(dir: &Path, wl: &Workload, background: bool) -> Options {
	let mut o = Options::with_columns(dir, 1);
	o.columns[0] = ColumnOptions { btree_index: wl.btree, ..Default::default() };
	o.salt = Some([5u8; 32]);
	o.stats = false;
	o.with_background_thread = background;
	o.always_flush = true;
	o
}

pub fn execute(wl: Arc<Workload>, base: &Path) {
	EXECUTIONS.fetch_add(1, Ordering::SeqCst);
	PAUSE_DEPTH.store(0, Ordering::SeqCst);
	parity_db::set_number_of_allowed_io_operations(usize::MAX);
	let dir = fresh_dir(base);
	drop(Db::open_or_create(&options(&dir, &wl, false)).expect("create"));
	let db = Arc::new(Db::open_read_only(&options(&dir, &wl, true)).expect("open"));
	// from here on the fault is present for every task (shared OS thread)
	parity_db::set_number_of_allowed_io_operations(wl.fault_at as usize);
	let mut workers = Vec::new();
	for i in 0..4u8 {
		let db = db.clone();
		workers.push(thread::spawn(move || db.verif_run_worker(i)));
	}
	let nclients = wl.clients.len();
	// per client: number of transactions whose commit returned Ok
	let accepted: Arc<Vec<AtomicU32>> = Arc::new((0..nclients).map(|_| AtomicU32::new(0)).collect());
	let refused = Arc::new(AtomicBool::new(false));
	let mut clients = Vec::new();
	for (c, script) in wl.clients.iter().enumerate() {
		let db = db.clone();
		let script = script.clone();
		let accepted = accepted.clone();
		let refused = refused.clone();
		clients.push(thread::spawn(move || {
			for (t, tx) in script.iter().enumerate() {
				let items: Vec<(u8, Vec<u8>, Option<Vec<u8>>)> = tx.iter().map(|(k, cl)| (0u8, key(c, *k), Some(value(*k, *cl, c, t)))).collect();
				match db.commit(items) {
					Ok(()) => {
						accepted[c].store(t as u32 + 1, Ordering::SeqCst);
					},
					Err(parity_db::Error::Background(_)) => {
						// the failure is reported: the writer is stopped, every later commit must be
						// refused as well
						refused.store(true, Ordering::SeqCst);
						for (t2, tx2) in script.iter().enumerate().skip(t + 1) {
							let items: Vec<(u8, Vec<u8>, Option<Vec<u8>>)> = tx2.iter().map(|(k, cl)| (0u8, key(c, *k), Some(value(*k, *cl, c, t2)))).collect();
							if db.commit(items).is_ok() {
								violation("commit-accepted-after-background-error", format!("client {c}: transaction {t2} was accepted although transaction {t} had been refused with a background error"));
							}
						}
						break
					},
					Err(e) => violation("commit-failed-with-other-error", format!("client {c} transaction {t}: {e}")),
				}
				// reads keep returning committed data: the last accepted write of this client's keys
				let mut last: std::collections::BTreeMap<u16, (usize, u8)> = Default::default();
				for (tt, txx) in script.iter().enumerate().take(t + 1) {
					for (k, cl) in txx {
						last.insert(*k, (tt, *cl));
					}
				}
				for (k, (tt, cl)) in last {
					// reads do not count as file operations of the pipeline: pause the injector
					let got = get_unfaulted(&db, &key(c, k));
					match got {
						Ok(Some(v)) if v == value(k, cl, c, tt) => {},
						Ok(other) => violation("read-after-io-error-wrong", format!("client {c}: key {k} should hold transaction {tt}, read {:?} bytes", other.map(|v| v.len()))),
						Err(e) => violation("get-failed", format!("client {c}: get failed: {e}")),
					}
				}
			}
		}));
	}
	for h in clients {
		if h.join().is_err() {
			panic!("client panicked");
		}
	}
	let st = db.verif_pipeline_state();
	if st.5 || refused.load(Ordering::SeqCst) {
		NONTRIVIAL.fetch_add(1, Ordering::SeqCst);
	}
	// shutdown must terminate with the fault still present
	db.verif_shutdown();
	for h in workers {
		let _ = h.join();
	}
	let db = match Arc::try_unwrap(db) {
		Ok(db) => db,
		Err(_) => panic!("db still shared"),
	};
	drop(db);
	// the fault is gone: restart
	parity_db::set_number_of_allowed_io_operations(usize::MAX);
	let db = match Db::open(&options(&dir, &wl, false)) {
		Ok(db) => db,
		Err(e) => violation("reopen-after-io-error-failed", format!("{e}")),
	};
	// per client the recovered state is a prefix of its accepted transactions (clients write
	// disjoint keys, so prefixes are checked per client)
	for (c, script) in wl.clients.iter().enumerate() {
		let acc = accepted[c].load(Ordering::SeqCst) as usize;
		let mut ok = false;
		for p in (0..=acc).rev() {
			let mut last: std::collections::BTreeMap<u16, Option<(usize, u8)>> = (0u16..8).map(|k| (k, None)).collect();
			for (tt, txx) in script.iter().enumerate().take(p) {
				for (k, cl) in txx {
					last.insert(*k, Some((tt, *cl)));
				}
			}
			if last.iter().all(|(k, w)| db.get(0, &key(c, *k)).ok().flatten() == w.map(|(tt, cl)| value(*k, cl, c, tt))) {
				ok = true;
				break
			}
		}
		if !ok {
			violation("recovered-state-not-a-prefix", format!("client {c}: after the I/O error and restart the keys match no prefix of its {acc} accepted transactions"));
		}
	}
	// the recovered database accepts commits
	if let Err(e) = db.commit(vec![(0u8, b"after".to_vec(), Some(b"x".to_vec()))]) {
		violation("commit-after-restart-failed", format!("{e}"));
	}
	drop(db);
	let _ = std::fs::remove_dir_all(&dir);
}
