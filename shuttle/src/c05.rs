//! C05 Concurrent readers see commits atomically, in order, and never go back in time.

use crate::common::*;
use parity_db::{ColumnOptions, Db, Options};
use proptest::prelude::*;
use serde::{Deserialize, Serialize};
use shuttle::thread;
use std::{
	path::Path,
	sync::{
		atomic::{AtomicU32, AtomicU64, Ordering},
		Arc,
	},
};

#[derive(Clone, Debug, Serialize, Deserialize)]
pub struct Workload {
	/// per writer: transactions, each a list of (key index 0..KEYS, length class)
	pub writers: Vec<Vec<Vec<(u8, u8)>>>,
	/// per reader: keys to read as (writer, key index)
	pub readers: Vec<Vec<(u8, u8)>>,
	/// true: the four real worker loops; false: one stage thread running `stages`
	pub workers: bool,
	/// stage steps: 0 P, 1 F, 2 E, 3 C, 4 R
	pub stages: Vec<u8>,
	pub btree: bool,
	/// identity-hashed keys crowded into one index page (forces index growth while reading)
	pub grow: bool,
}

pub const KEYS: u8 = 6;
const LENS: [usize; 8] = [0, 5, 30, 60, 200, 1000, 4100, 33000];

fn key_bytes(w: u8, k: u8, grow: bool) -> Vec<u8> {
	if grow {
		// all keys share the top 16 bits; bits 47..45 spread them over sub-pages
		let id = w as u64 * 64 + k as u64;
		let prefix: u64 = (0x5a5au64 << 48) | ((id % 8) << 45) | (splitmix(id) & ((1 << 35) - 1)) << 10 | 0x155;
		let mut key = vec![0u8; 32];
		key[..8].copy_from_slice(&prefix.to_be_bytes());
		key[8] = w;
		key[9] = k;
		for i in 10..32 {
			key[i] = splitmix(id * 100 + i as u64) as u8;
		}
		key
	} else {
		vec![b'k', w, k, 0x33]
	}
}

fn value_bytes(w: u8, k: u8, t: u32, class: u8) -> Vec<u8> {
	let len = LENS[class as usize % LENS.len()];
	let mut v = Vec::with_capacity(len + 7);
	v.push(w);
	v.push(k);
	v.extend_from_slice(&t.to_le_bytes());
	v.push(class);
	let fill = (t.wrapping_mul(31) as u8).wrapping_add(k);
	v.extend(std::iter::repeat(fill).take(len));
	v
}

pub fn workload() -> impl Strategy<Value = Workload> {
	let tx = proptest::collection::vec((0..KEYS, 0u8..8), 2..=4);
	let writer = proptest::collection::vec(tx, 2..7);
	(
		proptest::collection::vec(writer, 1..=2),
		1usize..=3,
		any::<bool>(),
		proptest::collection::vec(prop_oneof![4 => Just(0u8), 2 => Just(1u8), 3 => Just(2u8), 2 => Just(3u8), 1 => Just(4u8)], 8..30),
		prop_oneof![3 => Just(false), 1 => Just(true)],
		prop_oneof![3 => Just(false), 1 => Just(true)],
	)
		.prop_flat_map(|(writers, nreaders, workers, stages, btree, grow)| {
			let nw = writers.len() as u8;
			let reads = proptest::collection::vec((0..nw, 0..KEYS), 6..24);
			proptest::collection::vec(reads, nreaders..=nreaders).prop_map(move |readers| Workload {
				writers: writers.clone(),
				readers,
				workers,
				stages: stages.clone(),
				btree,
				grow: grow && !btree,
			})
		})
}

fn options(dir: &Path, wl: &Workload, background: bool) -> Options {
	let mut o = Options::with_columns(dir, 1);
	o.columns[0] = ColumnOptions { btree_index: wl.btree, uniform: wl.grow, ..Default::default() };
	o.salt = Some(if wl.grow { [0u8; 32] } else { [7u8; 32] });
	o.stats = false;
	o.with_background_thread = background;
	o.always_flush = true;
	o
}

/// last transaction <= upto of writer w that wrote key k (0 = never)
fn last_write(wl: &Workload, w: u8, k: u8, upto: u32) -> u32 {
	let mut last = 0;
	for (i, tx) in wl.writers[w as usize].iter().enumerate() {
		let t = i as u32 + 1;
		if t > upto {
			break
		}
		if tx.iter().any(|(kk, _)| *kk == k) {
			last = t;
		}
	}
	last
}

fn class_of(wl: &Workload, w: u8, k: u8, t: u32) -> u8 {
	// the last entry for k inside transaction t wins
	wl.writers[w as usize][t as usize - 1].iter().rev().find(|(kk, _)| *kk == k).map(|(_, c)| *c).unwrap_or(0)
}

pub fn execute(wl: Arc<Workload>, base: &Path) {
	EXECUTIONS.fetch_add(1, Ordering::SeqCst);
	let dir = fresh_dir(base);
	// create, then open with the throttles active but without std threads
	drop(Db::open_or_create(&options(&dir, &wl, false)).expect("create"));
	let db = Arc::new(if wl.workers { Db::open_read_only(&options(&dir, &wl, true)).expect("open") } else { Db::open(&options(&dir, &wl, false)).expect("open") });
	let nw = wl.writers.len();
	let started: Arc<Vec<AtomicU32>> = Arc::new((0..nw).map(|_| AtomicU32::new(0)).collect());
	let completed: Arc<Vec<AtomicU32>> = Arc::new((0..nw).map(|_| AtomicU32::new(0)).collect());
	let busy_reads = Arc::new(AtomicU64::new(0));
	let mut handles = Vec::new();
	let mut worker_handles = Vec::new();
	if wl.workers {
		for i in 0..4u8 {
			let db = db.clone();
			worker_handles.push(thread::spawn(move || db.verif_run_worker(i)));
		}
	} else {
		let db = db.clone();
		let wl2 = wl.clone();
		handles.push(thread::spawn(move || {
			for s in &wl2.stages {
				let r = match s {
					0 => db.process_commits(),
					1 => db.flush_logs(),
					2 => {
						// stepping-mode precondition: never enact with more than 4 consumed log
						// files waiting for cleanup (nobody else would wake us)
						if db.verif_pipeline_state().3 >= 4 {
							let _ = db.clean_logs();
						}
						db.enact_logs()
					},
					3 => db.clean_logs(),
					_ => db.process_reindex(),
				};
				if let Err(e) = r {
					violation("pipeline-step-failed", format!("stage step {s} returned {e}"));
				}
			}
		}));
	}
	for w in 0..nw {
		let db = db.clone();
		let wl2 = wl.clone();
		let started = started.clone();
		let completed = completed.clone();
		handles.push(thread::spawn(move || {
			for (i, tx) in wl2.writers[w].iter().enumerate() {
				let t = i as u32 + 1;
				started[w].store(t, Ordering::SeqCst);
				let items: Vec<(u8, Vec<u8>, Option<Vec<u8>>)> = tx.iter().map(|(k, c)| (0u8, key_bytes(w as u8, *k, wl2.grow), Some(value_bytes(w as u8, *k, t, *c)))).collect();
				if let Err(e) = db.commit(items) {
					violation("commit-failed", format!("writer {w} tx {t}: {e}"));
				}
				completed[w].store(t, Ordering::SeqCst);
			}
		}));
	}
	for (r, script) in wl.readers.iter().enumerate() {
		let db = db.clone();
		let wl2 = wl.clone();
		let script = script.clone();
		let started = started.clone();
		let completed = completed.clone();
		let busy_reads = busy_reads.clone();
		handles.push(thread::spawn(move || {
			let mut seen = vec![0u32; wl2.writers.len()];
			for (w, k) in script {
				let lo = completed[w as usize].load(Ordering::SeqCst);
				let st = db.verif_pipeline_state();
				let got = match db.get(0, &key_bytes(w, k, wl2.grow)) {
					Ok(g) => g,
					Err(e) => violation("get-failed", format!("reader {r}: get({w},{k}) failed: {e}")),
				};
				let hi = started[w as usize].load(Ordering::SeqCst);
				if st.0 > 0 || st.2 > 0 || st.4 {
					busy_reads.fetch_add(1, Ordering::SeqCst);
				}
				let t = match &got {
					None => 0,
					Some(v) => {
						if v.len() < 7 || v[0] != w || v[1] != k {
							violation("foreign-value", format!("reader {r}: key ({w},{k}) returned a value that is not one of its versions (len {})", v.len()));
						}
						let t = u32::from_le_bytes(v[2..6].try_into().unwrap());
						if t == 0 || t as usize > wl2.writers[w as usize].len() || !wl2.writers[w as usize][t as usize - 1].iter().any(|(kk, _)| *kk == k) {
							violation("impossible-version", format!("reader {r}: key ({w},{k}) returned version {t} which never wrote it"));
						}
						if *v != value_bytes(w, k, t, class_of(&wl2, w, k, t)) {
							violation("torn-value", format!("reader {r}: key ({w},{k}) version {t}: bytes differ from what that transaction wrote (len {})", v.len()));
						}
						t
					},
				};
				let oldest_allowed = last_write(&wl2, w, k, lo);
				let newest_allowed = last_write(&wl2, w, k, hi);
				if t < oldest_allowed {
					violation("stale-read", format!("reader {r}: key ({w},{k}) returned version {t} but transaction {oldest_allowed} had completed before the read began (completed {lo})"));
				}
				if t > newest_allowed {
					violation("read-from-the-future", format!("reader {r}: key ({w},{k}) returned version {t} but only {hi} transactions had started"));
				}
				let must = last_write(&wl2, w, k, seen[w as usize]);
				if t < must {
					violation("went-back-in-time", format!("reader {r}: had observed transaction {} of writer {w}, then key ({w},{k}) returned version {t} < {must} (partial / non-monotonic visibility)", seen[w as usize]));
				}
				if t > seen[w as usize] {
					seen[w as usize] = t;
				}
			}
		}));
	}
	for h in handles {
		if h.join().is_err() {
			panic!("a client thread panicked");
		}
	}
	if busy_reads.load(Ordering::SeqCst) > 0 {
		NONTRIVIAL.fetch_add(1, Ordering::SeqCst);
	}
	if wl.workers {
		// let the workers finish what is queued before asking them to stop (shutdown with work
		// pending is C15's subject)
		let mut spins = 0u32;
		loop {
			let st = db.verif_pipeline_state();
			if st.0 == 0 && st.2 <= 0 && !st.4 && st.3 == 0 {
				break
			}
			spins += 1;
			if spins > 200_000 {
				break
			}
			thread::yield_now();
		}
		db.verif_shutdown();
		for h in worker_handles {
			let _ = h.join();
		}
	}
	if !wl.workers && db.verif_pipeline_state().3 >= 2 {
		// stepping-mode precondition of the shutdown sequence (see the harness interpreter)
		let _ = db.clean_logs();
	}
	let db = match Arc::try_unwrap(db) {
		Ok(db) => db,
		Err(_) => panic!("db still shared"),
	};
	drop(db);
	// everything committed is there after a clean close
	let db = Db::open(&options(&dir, &wl, false)).expect("reopen");
	for w in 0..nw as u8 {
		for k in 0..KEYS {
			let t = last_write(&wl, w, k, wl.writers[w as usize].len() as u32);
			let want = if t == 0 { None } else { Some(value_bytes(w, k, t, class_of(&wl, w, k, t))) };
			let got = db.get(0, &key_bytes(w, k, wl.grow)).expect("get");
			if got != want {
				violation("final-state-mismatch", format!("after clean close and reopen key ({w},{k}) has {:?} bytes, expected version {t}", got.map(|v| v.len())));
			}
		}
	}
	drop(db);
	let _ = std::fs::remove_dir_all(&dir);
}
