//! C11 (concurrent part) A locked tree reader is never invalidated.

use crate::common::*;
use parity_db::{ColumnOptions, Db, NewNode, NodeRef, Operation, Options};
use proptest::prelude::*;
use serde::{Deserialize, Serialize};
use shuttle::thread;
use std::{
	path::Path,
	sync::{
		atomic::{AtomicBool, AtomicU32, AtomicU64, Ordering},
		Arc,
	},
};

#[derive(Clone, Debug, Serialize, Deserialize)]
pub struct Workload {
	/// number of trees inserted one after the other, each sharing a node with its predecessor
	pub trees: u8,
	/// how many of the newest trees are kept (the older ones are dereferenced by the pruner)
	pub keep: u8,
	/// per reader: tree indices to visit, and how many times to re-read while the lock is held
	pub readers: Vec<Vec<(u8, u8)>>,
	pub leaf_len: u16,
}

pub fn workload() -> impl Strategy<Value = Workload> {
	(3u8..8, 1u8..3, 1usize..=3, prop_oneof![Just(5u16), Just(60u16), Just(5000u16)]).prop_flat_map(|(trees, keep, nreaders, leaf_len)| {
		proptest::collection::vec(proptest::collection::vec((0..trees, 1u8..4), 3..12), nreaders..=nreaders).prop_map(move |readers| Workload { trees, keep, readers, leaf_len })
	})
}

fn root_key(i: u8) -> Vec<u8> {
	let mut k = vec![0x40 + i; 32];
	k[0] = i;
	k[1] = 0xa7;
	k
}

fn root_data(i: u8) -> Vec<u8> {
	vec![0xd0, i, 1, 2, 3]
}

fn leaf_data(wl: &Workload, i: u8, j: u8) -> Vec<u8> {
	let mut v = vec![i ^ 0x5a; wl.leaf_len as usize + 2];
	v[0] = i;
	v[1] = j;
	v
}

/// expected children data of tree i, in order
fn expected_children(wl: &Workload, i: u8) -> Vec<Vec<u8>> {
	let mut v = Vec::new();
	if i > 0 {
		v.push(leaf_data(wl, i - 1, 0));
	}
	v.push(leaf_data(wl, i, 0));
	v.push(leaf_data(wl, i, 1));
	v
}

fn options(dir: &Path, background: bool) -> Options {
	let mut o = Options::with_columns(dir, 2);
	o.columns[0] = ColumnOptions { multitree: true, ..Default::default() };
	o.salt = Some([3u8; 32]);
	o.stats = false;
	o.with_background_thread = background;
	o.always_flush = true;
	o
}

pub fn execute(wl: Arc<Workload>, base: &Path) {
	EXECUTIONS.fetch_add(1, Ordering::SeqCst);
	let dir = fresh_dir(base);
	drop(Db::open_or_create(&options(&dir, false)).expect("create"));
	let db = Arc::new(Db::open_read_only(&options(&dir, true)).expect("open"));
	let n = wl.trees as usize;
	let inserted: Arc<Vec<AtomicBool>> = Arc::new((0..n).map(|_| AtomicBool::new(false)).collect());
	let prune_started: Arc<Vec<AtomicBool>> = Arc::new((0..n).map(|_| AtomicBool::new(false)).collect());
	let inserted_count = Arc::new(AtomicU32::new(0));
	let locked_reads = Arc::new(AtomicU64::new(0));
	let mut workers = Vec::new();
	for i in 0..4u8 {
		let db = db.clone();
		workers.push(thread::spawn(move || db.verif_run_worker(i)));
	}
	let mut clients = Vec::new();
	// writer: T(i) reuses the first own leaf of T(i-1), under T(i-1)'s reader lock
	{
		let db = db.clone();
		let wl = wl.clone();
		let inserted = inserted.clone();
		let inserted_count = inserted_count.clone();
		clients.push(thread::spawn(move || {
			for i in 0..wl.trees {
				let mut children = Vec::new();
				let prev = if i > 0 {
					let t = match db.get_tree(0, &root_key(i - 1)) {
						Ok(Some(t)) => t,
						Ok(None) => violation("live-tree-unreadable", format!("writer: tree {} vanished although it was never dereferenced before tree {i} was inserted", i - 1)),
						Err(e) => violation("get_tree-failed", format!("{e}")),
					};
					Some(t)
				} else {
					None
				};
				let guard = prev.as_ref().map(|t| t.read());
				if let Some(g) = &guard {
					let (_, ch) = match g.get_root() {
						Ok(Some(r)) => r,
						Ok(None) => violation("locked-tree-vanished", format!("writer: root of tree {} not readable under the lock", i - 1)),
						Err(e) => violation("get_root-failed", format!("{e}")),
					};
					let own_first = if i - 1 > 0 { 1 } else { 0 };
					children.push(NodeRef::Existing(ch[own_first]));
				}
				children.push(NodeRef::New(NewNode { data: leaf_data(&wl, i, 0), children: vec![] }));
				children.push(NodeRef::New(NewNode { data: leaf_data(&wl, i, 1), children: vec![] }));
				let op = Operation::InsertTree(root_key(i), NewNode { data: root_data(i), children });
				if let Err(e) = db.commit_changes(vec![(0u8, op)]) {
					violation("commit-failed", format!("insert of tree {i}: {e}"));
				}
				drop(guard);
				inserted[i as usize].store(true, Ordering::SeqCst);
				inserted_count.store(i as u32 + 1, Ordering::SeqCst);
			}
		}));
	}
	// pruner: dereferences T(i) once T(i+1) exists, together with a write to the second column
	{
		let db = db.clone();
		let wl = wl.clone();
		let inserted_count = inserted_count.clone();
		let prune_started = prune_started.clone();
		clients.push(thread::spawn(move || {
			let last_pruned = wl.trees.saturating_sub(wl.keep);
			for i in 0..last_pruned {
				let mut spins = 0u32;
				while inserted_count.load(Ordering::SeqCst) < i as u32 + 2 {
					spins += 1;
					if spins > 2_000_000 {
						violation("writer-stalled", format!("tree {} was not inserted", i + 1));
					}
					thread::yield_now();
				}
				prune_started[i as usize].store(true, Ordering::SeqCst);
				let ops = vec![(0u8, Operation::DereferenceTree(root_key(i))), (1u8, Operation::Set(vec![b'p', i], vec![i; 20]))];
				if let Err(e) = db.commit_changes(ops) {
					violation("commit-failed", format!("dereference of tree {i}: {e}"));
				}
			}
		}));
	}
	for (r, script) in wl.readers.iter().enumerate() {
		let db = db.clone();
		let wl = wl.clone();
		let script = script.clone();
		let inserted = inserted.clone();
		let prune_started = prune_started.clone();
		let locked_reads = locked_reads.clone();
		clients.push(thread::spawn(move || {
			for (j, rereads) in script {
				let was_inserted = inserted[j as usize].load(Ordering::SeqCst);
				let tree = match db.get_tree(0, &root_key(j)) {
					Ok(t) => t,
					Err(e) => violation("get_tree-failed", format!("{e}")),
				};
				let tree = match tree {
					Some(t) => t,
					None => {
						if was_inserted && !prune_started[j as usize].load(Ordering::SeqCst) {
							violation("live-tree-unreadable", format!("reader {r}: tree {j} was inserted and never dereferenced but get_tree returned None"));
						}
						continue
					},
				};
				let guard = tree.read();
				// Known finding (locked-reader-after-queued-dereference): a lock acquired AFTER the
				// dereference was submitted can still see the root and then lose the nodes, because
				// the worker decides "not locked", walks the tree under the write lock and
				// publishes the removal only after releasing it. Sampled after the acquisition: if
				// the dereference had not been submitted by now, the lock precedes it and the full
				// guarantee applies.
				let deref_before_lock = prune_started[j as usize].load(Ordering::SeqCst);
				let want_children = expected_children(&wl, j);
				let mut first: Option<Vec<u64>> = None;
				let mut vanished_known = false;
				for round in 0..=rereads {
					if vanished_known {
						break
					}
					match guard.get_root() {
						Ok(Some((data, children))) => {
							if data != root_data(j) || children.len() != want_children.len() {
								violation("locked-tree-changed", format!("reader {r}: tree {j} root read under the lock differs from what was inserted"));
							}
							if let Some(f) = &first {
								if *f != children {
									violation("locked-tree-changed", format!("reader {r}: tree {j} child addresses changed while the lock was held"));
								}
							}
							for (a, want) in children.iter().zip(want_children.iter()) {
								match guard.get_node(*a) {
									Ok(Some((d, ch))) =>
										if &d != want || !ch.is_empty() {
											violation("locked-tree-changed", format!("reader {r}: node {a:#x} of tree {j} read under the lock holds other data (len {})", d.len()));
										},
									Ok(None) => {
										if deref_before_lock {
											EXCLUDED_KNOWN.fetch_add(1, Ordering::SeqCst);
											vanished_known = true;
											break
										}
										violation("locked-tree-node-vanished", format!("reader {r}: node {a:#x} of tree {j} disappeared while the reader lock was held (round {round}) although the lock was acquired before the dereference was submitted"))
									},
									Err(e) => violation("get_node-failed", format!("reader {r}: node {a:#x} of tree {j}: {e}")),
								}
							}
							first = Some(children);
							locked_reads.fetch_add(1, Ordering::SeqCst);
						},
						Ok(None) => {
							if round == 0 {
								// removed before the lock was acquired: only legal once the
								// dereference had been submitted
								if !prune_started[j as usize].load(Ordering::SeqCst) {
									violation("live-tree-unreadable", format!("reader {r}: root of tree {j} missing although it was never dereferenced"));
								}
								break
							}
							if deref_before_lock {
								EXCLUDED_KNOWN.fetch_add(1, Ordering::SeqCst);
								break
							}
							violation("locked-tree-vanished", format!("reader {r}: tree {j} vanished while its reader lock was held (round {round}) although the lock was acquired before the dereference was submitted"));
						},
						Err(e) => violation("get_root-failed", format!("{e}")),
					}
					thread::yield_now();
				}
				drop(guard);
			}
		}));
	}
	for h in clients {
		if h.join().is_err() {
			panic!("client panicked");
		}
	}
	if locked_reads.load(Ordering::SeqCst) > 0 {
		NONTRIVIAL.fetch_add(1, Ordering::SeqCst);
	}
	// let the postponed removals complete, then stop
	let mut spins = 0u64;
	loop {
		let st = db.verif_pipeline_state();
		if st.0 == 0 && st.2 <= 0 && !st.4 {
			break
		}
		spins += 1;
		if spins > 3_000_000 {
			violation("pipeline-did-not-drain", format!("postponed removals did not complete: {:?}", st));
		}
		thread::yield_now();
	}
	let entries = db.get_num_column_value_entries(0).ok();
	db.verif_shutdown();
	for h in workers {
		let _ = h.join();
	}
	let db = match Arc::try_unwrap(db) {
		Ok(db) => db,
		Err(_) => panic!("db still shared"),
	};
	drop(db);
	let db = Db::open(&options(&dir, false)).expect("reopen");
	let last_pruned = wl.trees.saturating_sub(wl.keep);
	for i in 0..wl.trees {
		let t = db.get_tree(0, &root_key(i)).expect("get_tree");
		if i < last_pruned {
			if let Some(t) = t {
				if t.read().get_root().ok().flatten().is_some() {
					violation("dead-tree-readable", format!("tree {i} was dereferenced but is still there after drain and reopen"));
				}
			}
			if db.get(1, &[b'p', i]).expect("get") != Some(vec![i; 20]) {
				violation("final-state-mismatch", format!("the write committed together with the dereference of tree {i} is missing"));
			}
		} else {
			let t = match t {
				Some(t) => t,
				None => violation("live-tree-unreadable", format!("tree {i} (kept) is missing after drain and reopen")),
			};
			let g = t.read();
			let (data, children) = g.get_root().ok().flatten().unwrap_or_default();
			let want = expected_children(&wl, i);
			if data != root_data(i) || children.len() != want.len() {
				violation("final-state-mismatch", format!("tree {i} (kept) root differs after reopen"));
			}
			for (a, w) in children.iter().zip(want.iter()) {
				match g.get_node(*a) {
					Ok(Some((d, _))) if &d == w => {},
					other => violation("shared-node-lost", format!("node {a:#x} of kept tree {i} reads {:?} after its predecessor was dereferenced", other.map(|o| o.map(|x| x.0.len())))),
				}
			}
		}
	}
	if wl.leaf_len < 4000 {
		// entry count: kept roots + their own leaves + the one leaf shared with the pruned predecessor
		let kept = (wl.trees - last_pruned) as u64;
		let want = kept * 3 + if last_pruned > 0 { 1 } else { 0 };
		if let Ok(n) = db.get_num_column_value_entries(0) {
			if n != want {
				violation("entry-count-mismatch", format!("{n} entries after all removals completed, expected {want} (before shutdown: {:?})", entries));
			}
		}
	}
	drop(db);
	let _ = std::fs::remove_dir_all(&dir);
}
