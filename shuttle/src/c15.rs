//! C15 The pipeline always drains: commits return, shutdown terminates.

use crate::common::*;
use parity_db::{ColumnOptions, Db, Options};
use proptest::prelude::*;
use serde::{Deserialize, Serialize};
use shuttle::thread;
use std::{
	path::Path,
	sync::{
		atomic::{AtomicU64, Ordering},
		Arc,
	},
};

#[derive(Clone, Debug, Serialize, Deserialize)]
pub struct Workload {
	/// per client: transactions, each a list of (key, size class); an empty list is an empty
	/// transaction
	pub clients: Vec<Vec<Vec<(u16, u8)>>>,
	pub always_flush: bool,
	/// request shutdown right after the last commit returned (no waiting for the pipeline)
	pub shutdown_early: bool,
	/// a further client that walks the column with `iter_column_while` (rounds, scheduling
	/// points per visited value): the walk holds the lock that applying a log record needs, so
	/// the commit worker falls behind the flush worker while it lasts
	#[serde(default)]
	pub iter: (u8, u8),
	/// `sync_data = false`: the library then keeps the 16 newest applied log files instead of
	/// reclaiming all of them (the commit worker waits for the cleanup worker only above 16)
	#[serde(default)]
	pub no_sync_data: bool,
	/// after the clients have finished: (pause, keys) - the main thread lets the workers run
	/// (pause x 300 scheduling points, so that they may go idle) and then commits a transaction
	/// that adds nothing to the queue's byte count: removals of these keys of client 0, or an
	/// empty transaction; nothing follows it but the observer
	#[serde(default)]
	pub tail: Vec<(u8, Vec<u16>)>,
}

/// size classes: the last one is 1 MiB (17 of them exceed the 16 MiB queue limit)
const LENS: [usize; 6] = [0, 20, 300, 5_000, 40_000, 1 << 20];

fn value(key: u16, class: u8, client: usize, t: usize) -> Vec<u8> {
	let len = LENS[class as usize % LENS.len()];
	let mut v = vec![(key as u8) ^ (t as u8); len + 8];
	v[..2].copy_from_slice(&key.to_le_bytes());
	v[2] = client as u8;
	v[3..7].copy_from_slice(&(t as u32).to_le_bytes());
	v[7] = class;
	v
}

fn key(client: usize, k: u16) -> Vec<u8> {
	vec![b'c', client as u8, k as u8, (k >> 8) as u8, 0x21]
}

pub fn workload(big: bool) -> impl Strategy<Value = Workload> {
	let class = if big { prop_oneof![2 => 0u8..5, 6 => Just(5u8)].boxed() } else { (0u8..5).boxed() };
	let tx = prop_oneof![
		1 => Just(vec![]),
		8 => proptest::collection::vec((0u16..12, class), 1..=4),
	];
	let n_tx = if big { 6..14usize } else { 2..10usize };
	let client = proptest::collection::vec(tx, n_tx);
	(
		proptest::collection::vec(client, 1..=3),
		prop_oneof![1 => Just(false), 2 => Just(true)],
		any::<bool>(),
		prop_oneof![2 => Just((0u8, 0u8)), 1 => (1u8..4, 1u8..40)],
		prop_oneof![2 => Just(Vec::new()), 1 => proptest::collection::vec((0u8..12, proptest::collection::vec(0u16..12, 0..3)), 1..3)],
	)
		.prop_map(|(clients, always_flush, shutdown_early, iter, tail)| Workload { clients, always_flush, shutdown_early, iter, no_sync_data: false, tail })
}

/// Transactions of 40-75 values of 1 MiB each: two of them exceed the 128 MiB limit of
/// logged-but-unapplied bytes, so the log worker is throttled on the log queue (released only
/// by the commit worker applying records, or by shutdown).
pub fn workload_giant() -> impl Strategy<Value = Workload> {
	let tx = (40u16..75, 0u16..100).prop_map(|(n, start)| (0..n).map(|i| (start + i, 5u8)).collect::<Vec<_>>());
	let small = proptest::collection::vec((0u16..12, 0u8..4), 1..=3);
	let client = (proptest::collection::vec(tx, 3..=4), proptest::collection::vec(small, 0..3)).prop_map(|(mut big, small)| {
		big.extend(small);
		big
	});
	(proptest::collection::vec(client, 1..=1), any::<bool>(), prop_oneof![1 => Just(false), 2 => Just(true)]).prop_map(|(clients, always_flush, shutdown_early)| Workload { clients, always_flush, shutdown_early, iter: (0, 0), no_sync_data: false, tail: Vec::new() })
}

/// `sync_data = false` with every log file rotated at once: 18-40 small transactions per client,
/// so that more than the 16 kept log files are applied in one session.
pub fn workload_kept_logs() -> impl Strategy<Value = Workload> {
	let tx = proptest::collection::vec((0u16..12, 0u8..4), 1..=3);
	let client = proptest::collection::vec(tx, 30..70);
	(proptest::collection::vec(client, 1..=2), prop_oneof![3 => Just(false), 1 => Just(true)]).prop_map(|(clients, shutdown_early)| Workload { clients, always_flush: true, shutdown_early, iter: (0, 0), no_sync_data: true, tail: Vec::new() })
}

fn options(dir: &Path, wl: &Workload, background: bool) -> Options {
	let mut o = Options::with_columns(dir, 1);
	o.columns[0] = ColumnOptions::default();
	o.salt = Some([9u8; 32]);
	o.stats = false;
	o.with_background_thread = background;
	o.always_flush = wl.always_flush;
	o.sync_data = !wl.no_sync_data;
	o
}

pub fn execute(wl: Arc<Workload>, base: &Path) {
	EXECUTIONS.fetch_add(1, Ordering::SeqCst);
	let dir = fresh_dir(base);
	{
		let db = Db::open_or_create(&options(&dir, &wl, false)).expect("create");
		if wl.iter.0 > 0 {
			// something to walk over
			db.commit((0..6u16).map(|k| (0u8, key(9, k), Some(value(k, 1, 9, 0))))).expect("populate");
		}
		drop(db);
	}
	// read-only opening mode starts no std threads but keeps the queue-full throttles of
	// commit / process_commits active (with_background_thread = true); the four real worker
	// loops run on shuttle threads through the verif hook
	let db = Arc::new(Db::open_read_only(&options(&dir, &wl, true)).expect("open"));
	let busy = Arc::new(AtomicU64::new(0));
	let over = Arc::new(AtomicU64::new(0));
	let kept = Arc::new(AtomicU64::new(0));
	let mut workers = Vec::new();
	for i in 0..4u8 {
		let db = db.clone();
		workers.push(thread::spawn(move || db.verif_run_worker(i)));
	}
	let mut clients = Vec::new();
	for (c, script) in wl.clients.iter().enumerate() {
		let db = db.clone();
		let script = script.clone();
		let busy = busy.clone();
		let over = over.clone();
		let kept = kept.clone();
		clients.push(thread::spawn(move || {
			for (t, tx) in script.iter().enumerate() {
				let st = db.verif_pipeline_state();
				if st.3 >= 16 {
					kept.fetch_add(1, Ordering::SeqCst);
				}
				if st.0 > 0 || st.2 > 0 {
					busy.fetch_add(1, Ordering::SeqCst);
				}
				if st.2 > 128 << 20 {
					over.fetch_add(1, Ordering::SeqCst);
				}
				let items: Vec<(u8, Vec<u8>, Option<Vec<u8>>)> = tx.iter().map(|(k, cl)| (0u8, key(c, *k), Some(value(*k, *cl, c, t)))).collect();
				if let Err(e) = db.commit(items) {
					violation("commit-failed", format!("client {c} transaction {t}: {e}"));
				}
			}
		}));
	}
	if wl.iter.0 > 0 {
		let db = db.clone();
		let (rounds, yields) = wl.iter;
		clients.push(thread::spawn(move || {
			for _ in 0..rounds {
				let r = db.iter_column_while(0, |_| {
					for _ in 0..yields {
						thread::yield_now();
					}
					true
				});
				if let Err(e) = r {
					violation("iteration-failed", format!("iter_column_while: {e}"));
				}
				thread::yield_now();
			}
		}));
	}
	// (2) every commit returns: joining the clients (a commit blocked for ever ends in a
	// deadlock report or in the step limit)
	for h in clients {
		if h.join().is_err() {
			panic!("client panicked");
		}
	}
	let mut removed: std::collections::BTreeSet<u16> = Default::default();
	for (pause, keys) in &wl.tail {
		for _ in 0..(*pause as usize) * 300 {
			thread::yield_now();
		}
		let items: Vec<(u8, Vec<u8>, Option<Vec<u8>>)> = keys.iter().map(|k| (0u8, key(0, *k), None)).collect();
		if let Err(e) = db.commit(items) {
			violation("commit-failed", format!("tail transaction: {e}"));
		}
		removed.extend(keys.iter().cloned());
		ZERO_BYTE_TAIL.fetch_add(1, Ordering::SeqCst);
	}
	if !wl.shutdown_early {
		// (3) without any further call the queue drains (and with always_flush everything is
		// applied)
		// under the uniformly random scheduler the workers get as many steps as the observer (the
		// most any of ~37 000 executions of a quick run needed was 98 000 observer steps); PCT
		// schedules are unfair by construction and keep the larger bound (beyond shuttle's own
		// step limit, which is counted as an unfair schedule and skipped)
		let limit = if FAIR_SCHEDULER.load(Ordering::SeqCst) { 1_000_000u64 } else { 3_000_000u64 };
		let mut spins = 0u64;
		loop {
			let st = db.verif_pipeline_state();
			if st.5 {
				violation("background-error", "a worker stored a background error".to_string());
			}
			if st.2 > 128 << 20 {
				over.fetch_add(1, Ordering::SeqCst);
			}
			if st.3 >= 16 {
				kept.fetch_add(1, Ordering::SeqCst);
			}
			let drained = st.0 == 0 && (!wl.always_flush || (st.2 <= 0 && !st.4));
			if drained {
				MAX_OBSERVER_SPINS.fetch_max(spins, Ordering::SeqCst);
				break
			}
			spins += 1;
			if spins > limit {
				violation(
					"pipeline-did-not-drain",
					format!("after all commits returned the pipeline did not drain within {limit} observer steps: queued commits {}, queued bytes {}, logged-unapplied bytes {}, log files awaiting cleanup {}, awaiting enactment {}", st.0, st.1, st.2, st.3, st.4),
				);
			}
			thread::yield_now();
		}
	}
	if busy.load(Ordering::SeqCst) > 0 {
		NONTRIVIAL.fetch_add(1, Ordering::SeqCst);
	}
	if over.load(Ordering::SeqCst) > 0 || db.verif_pipeline_state().2 > 128 << 20 {
		LOGQ_OVER_LIMIT.fetch_add(1, Ordering::SeqCst);
	}
	if kept.load(Ordering::SeqCst) > 0 || db.verif_pipeline_state().3 >= 16 {
		KEPT_LOGS_AT_LIMIT.fetch_add(1, Ordering::SeqCst);
	}
	// (4) shutdown terminates
	db.verif_shutdown();
	for h in workers {
		let _ = h.join();
	}
	let db = match Arc::try_unwrap(db) {
		Ok(db) => db,
		Err(_) => panic!("db still shared"),
	};
	drop(db);
	// (5) everything committed is persisted
	let db = Db::open(&options(&dir, &wl, false)).expect("reopen");
	for (c, script) in wl.clients.iter().enumerate() {
		let mut last: std::collections::BTreeMap<u16, (usize, u8)> = Default::default();
		for (t, tx) in script.iter().enumerate() {
			for (k, cl) in tx {
				last.insert(*k, (t, *cl));
			}
		}
		for (k, (t, cl)) in last {
			let got = db.get(0, &key(c, k)).expect("get");
			if c == 0 && removed.contains(&k) {
				if got.is_some() {
					violation("committed-removal-lost", format!("after shutdown and reopen key {k} of client 0, removed by the last transactions, is still present"));
				}
				continue
			}
			if got.as_deref() != Some(&value(k, cl, c, t)[..]) {
				violation("committed-data-lost", format!("after shutdown and reopen key {k} of client {c} (transaction {t}) is {:?} bytes", got.map(|v| v.len())));
			}
		}
	}
	drop(db);
	let _ = std::fs::remove_dir_all(&dir);
}
