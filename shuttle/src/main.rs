//! pdbs: shuttle flavour of the verification harness (C05, C11 concurrent part, C15).
//! usage: pdbs shard <ID> <tier> <i> <K> <out.json> | pdbs replay <ID> <file>

mod c05;
mod c11;
mod c15;
mod c16;
mod common;

use common::*;
use proptest::{
	strategy::{Strategy, ValueTree},
	test_runner::{Config as PConfig, RngAlgorithm, RngSeed, TestRunner},
};
use serde::Serialize;
use std::{path::Path, sync::Arc};

fn seed() -> u64 {
	std::env::var("VERIF_SEED").ok().and_then(|s| s.trim().parse::<i64>().ok()).unwrap_or(0) as u64
}

fn verif_root() -> std::path::PathBuf {
	std::env::var("VERIF_ROOT").map(std::path::PathBuf::from).unwrap_or_else(|_| "/verif".into())
}

pub struct Shard {
	pub id: String,
	pub tier: String,
	pub shard: u64,
	pub shards: u64,
	pub scratch: std::path::PathBuf,
	pub report: ShardReport,
}

impl Shard {
	fn seed_for(&self, sub: u64) -> u64 {
		splitmix(seed().wrapping_mul(1000003).wrapping_add(self.shard).wrapping_add(sub << 32))
	}

	/// Generates `n` workloads and runs `random_iters` random + `pct_iters` PCT schedules on each.
	pub fn run_workloads<S, W, F>(&mut self, sub: &str, n: usize, strat: S, random_iters: usize, pct_iters: usize, exec: F) -> bool
	where
		S: Strategy<Value = W>,
		W: Serialize + Clone + Send + Sync + std::fmt::Debug + 'static,
		F: Fn(Arc<W>, &Path) + Send + Sync + Clone + 'static,
	{
		// debugging aid shared with the harness binary: PDBV_ONLY_SUB=<name> runs only that sub-run
		if let Ok(only) = std::env::var("PDBV_ONLY_SUB") {
			if only != sub {
				return true
			}
		}
		let mut runner = TestRunner::new(PConfig { rng_algorithm: RngAlgorithm::ChaCha, rng_seed: RngSeed::Fixed(self.seed_for(fingerprint(&sub.to_string()) & 0xffff)), failure_persistence: None, ..PConfig::default() });
		for i in 0..n {
			let wl = match strat.new_tree(&mut runner) {
				Ok(t) => t.current(),
				Err(_) => continue,
			};
			let wl = Arc::new(wl);
			let scratch = self.scratch.clone();
			let mut scheds = vec![Sched::Random(self.seed_for(1000 + i as u64), random_iters)];
			if pct_iters > 0 {
				scheds.push(Sched::Pct(self.seed_for(5000 + i as u64), 3, pct_iters));
			}
			let mut case_nontrivial = 0;
			for sched in scheds {
				let wl2 = wl.clone();
				let exec2 = exec.clone();
				let base = scratch.clone();
				let out = run_schedules(move || exec2(wl2.clone(), &base), sched, &scratch.join("sched"));
				self.report.evaluations += out.executions;
				self.report.sub_nontrivial += out.nontrivial;
				self.report.excluded_known += EXCLUDED_KNOWN.swap(0, std::sync::atomic::Ordering::SeqCst);
				let over = LOGQ_OVER_LIMIT.swap(0, std::sync::atomic::Ordering::SeqCst);
				if over > 0 {
					*self.report.counters.entry("executions_with_log_queue_over_128MiB".to_string()).or_insert(0) += over;
				}
				let spins = MAX_OBSERVER_SPINS.swap(0, std::sync::atomic::Ordering::SeqCst);
				if spins > 0 {
					let e = self.report.counters.entry("max_observer_steps_until_drained".to_string()).or_insert(0);
					*e = (*e).max(spins);
				}
				let zb = ZERO_BYTE_TAIL.swap(0, std::sync::atomic::Ordering::SeqCst);
				if zb > 0 {
					*self.report.counters.entry("zero_byte_transactions_committed_to_an_idle_pipeline".to_string()).or_insert(0) += zb;
				}
				let kept = KEPT_LOGS_AT_LIMIT.swap(0, std::sync::atomic::Ordering::SeqCst);
				if kept > 0 {
					*self.report.counters.entry("executions_with_16_applied_log_files_kept".to_string()).or_insert(0) += kept;
				}
				case_nontrivial += out.nontrivial;
				if let Some((sig, _, _)) = &out.failure {
					if sig == "step-limit" {
						// an unfair generated schedule starved a thread that a spinning thread
						// waits for (e.g. the log worker re-queueing a deferred commit while the
						// lock holder never runs): not a property violation, the OS scheduler is
						// fair. Counted and skipped.
						*self.report.labels.entry("unfair-schedule-hit-step-limit".to_string()).or_insert(0) += 1;
						continue
					}
				}
				if let Some((sig, detail, schedule)) = out.failure {
					self.report.cases += 1;
					let case = serde_json::json!({ "workload": &*wl, "schedule": schedule });
					let fp = fingerprint(&case);
					let dir = verif_root().join("replays");
					let _ = std::fs::create_dir_all(&dir);
					let path = dir.join(format!("{}-{}-{:016x}.json", self.id, sub, fp));
					let doc = serde_json::json!({ "property": self.id, "sub": sub, "signature": sig, "detail": detail, "case": case });
					let _ = std::fs::write(&path, serde_json::to_string_pretty(&doc).unwrap());
					self.report.failures.push(FailureReport { signature: sig, detail, replay: path.to_string_lossy().to_string(), known: false });
					return false
				}
			}
			self.report.cases += 1;
			if case_nontrivial > 0 {
				self.report.nontrivial_cases += 1;
			}
			*self.report.labels.entry(format!("workloads:{sub}")).or_insert(0) += 1;
			if self.report.samples.len() < 3 {
				self.report.samples.push(serde_json::to_value(&*wl).unwrap_or_default());
			}
		}
		true
	}
}

fn scaled(sh: &Shard, quick_total: u64, thorough_total: u64) -> usize {
	let mut total = if sh.tier == "thorough" { thorough_total } else { quick_total };
	// smoke test of the thorough tier: PDBV_THOROUGH_DIV=<n>
	if sh.tier == "thorough" {
		if let Some(d) = std::env::var("PDBV_THOROUGH_DIV").ok().and_then(|s| s.parse::<u64>().ok()) {
			total = (total / d.max(1)).max(sh.shards);
		}
	}
	(((total + sh.shards - 1) / sh.shards).max(1)) as usize
}

fn run_shard(sh: &mut Shard) {
	match sh.id.as_str() {
		"C05" => {
			let n = scaled(sh, 280, 5_600);
			let (r, p) = if sh.tier == "thorough" { (600, 300) } else { (120, 40) };
			sh.run_workloads("readers", n, c05::workload(), r, p, |wl, base| c05::execute(wl, base));
		},
		"C11" => {
			let n = scaled(sh, 56, 1_400);
			let (r, p) = if sh.tier == "thorough" { (400, 0) } else { (30, 0) };
			// random schedules only: PCT is deliberately unfair and the library busy-loops while a
			// dereference is postponed
			let _ = p;
			sh.run_workloads("readers", n, c11::workload(), r + 40, 0, |wl, base| c11::execute(wl, base));
		},
		"C15" => {
			let n = scaled(sh, 210, 4_200);
			let (r, p) = if sh.tier == "thorough" { (600, 300) } else { (120, 40) };
			if !sh.run_workloads("drain", n, c15::workload(false), r, p, |wl, base| c15::execute(wl, base)) {
				return
			}
			// bursts beyond the 16 MiB queue limit: few schedules each (17+ MiB of I/O per execution)
			let n = scaled(sh, 14, 280);
			let (r, p) = if sh.tier == "thorough" { (40, 20) } else { (12, 4) };
			if !sh.run_workloads("burst", n, c15::workload(true), r, p, |wl, base| c15::execute(wl, base)) {
				return
			}
			// beyond the 128 MiB log-queue limit (100-200 MiB of I/O per execution)
			let n = scaled(sh, 7, 140);
			let (r, p) = if sh.tier == "thorough" { (12, 6) } else { (4, 2) };
			if !sh.run_workloads("giant", n, c15::workload_giant(), r, p, |wl, base| c15::execute(wl, base)) {
				return
			}
			// sync_data = false: more than the 16 kept log files applied in one session
			let n = scaled(sh, 56, 1_120);
			let (r, p) = if sh.tier == "thorough" { (100, 50) } else { (40, 16) };
			sh.run_workloads("kept-logs", n, c15::workload_kept_logs(), r, p, |wl, base| c15::execute(wl, base));
		},
		"C16" => {
			let n = scaled(sh, 140, 2_800);
			let (r, _p) = if sh.tier == "thorough" { (400, 0) } else { (60, 0) };
			if !sh.run_workloads("threaded", n, c16::workload(), r, 0, |wl, base| c16::execute(wl, base)) {
				return
			}
			// a committer throttled on the full queue (> 16 MiB) when the workers fail
			let n = scaled(sh, 28, 280);
			let r = if sh.tier == "thorough" { 60 } else { 40 };
			sh.run_workloads("threaded-burst", n, c16::workload_burst(), r, 0, |wl, base| c16::execute(wl, base));
		},
		_ => {},
	}
}

fn main() {
	let args: Vec<String> = std::env::args().collect();
	install_panic_hook();
	match args.get(1).map(|s| s.as_str()) {
		Some("shard") => {
			let (id, tier, i, k, out) = (&args[2], &args[3], args[4].parse::<u64>().unwrap(), args[5].parse::<u64>().unwrap(), &args[6]);
			let scratch = scratch_root().join(format!("pdbs.{}.{}.{}", id, std::process::id(), i));
			let _ = std::fs::remove_dir_all(&scratch);
			std::fs::create_dir_all(&scratch).expect("scratch");
			let mut sh = Shard { id: id.clone(), tier: tier.clone(), shard: i, shards: k, scratch: scratch.clone(), report: ShardReport::default() };
			run_shard(&mut sh);
			let _ = std::fs::remove_dir_all(&scratch);
			// every execution counts as an evaluation; distinct non-trivial = executions in which
			// the non-trivial condition was observed (each execution has its own schedule)
			std::fs::write(Path::new(out).with_extension("fps"), Vec::<u8>::new()).expect("fps");
			std::fs::write(out, serde_json::to_vec(&sh.report).unwrap()).expect("report");
		},
		Some("replay") => {
			let id = &args[2];
			let s = std::fs::read_to_string(&args[3]).expect("read replay");
			let v: serde_json::Value = serde_json::from_str(&s).expect("json");
			let case = v.get("case").cloned().unwrap_or_default();
			let schedule = case.get("schedule").and_then(|s| s.as_str()).unwrap_or("").to_string();
			let scratch = scratch_root().join(format!("pdbs.replay.{}", std::process::id()));
			let _ = std::fs::remove_dir_all(&scratch);
			std::fs::create_dir_all(&scratch).expect("scratch");
			let base = scratch.clone();
			let out = match id.as_str() {
				"C05" => {
					let wl: c05::Workload = serde_json::from_value(case.get("workload").cloned().unwrap_or_default()).expect("workload");
					let wl = Arc::new(wl);
					run_schedules(move || c05::execute(wl.clone(), &base), Sched::Replay(schedule), &scratch.join("sched"))
				},
				"C15" => {
					let wl: c15::Workload = serde_json::from_value(case.get("workload").cloned().unwrap_or_default()).expect("workload");
					let wl = Arc::new(wl);
					run_schedules(move || c15::execute(wl.clone(), &base), Sched::Replay(schedule), &scratch.join("sched"))
				},
				"C11" => {
					let wl: c11::Workload = serde_json::from_value(case.get("workload").cloned().unwrap_or_default()).expect("workload");
					let wl = Arc::new(wl);
					run_schedules(move || c11::execute(wl.clone(), &base), Sched::Replay(schedule), &scratch.join("sched"))
				},
				"C16" => {
					let wl: c16::Workload = serde_json::from_value(case.get("workload").cloned().unwrap_or_default()).expect("workload");
					let wl = Arc::new(wl);
					run_schedules(move || c16::execute(wl.clone(), &base), Sched::Replay(schedule), &scratch.join("sched"))
				},
				_ => {
					eprintln!("unknown property {id}");
					std::process::exit(2)
				},
			};
			// A stored schedule only applies to the build it was recorded on: if the code under
			// test changed, shuttle cannot follow it (it fails inside its own runtime). In that
			// case the stored WORKLOAD is re-run under fresh seeded schedules instead.
			let diverged = out.failure.as_ref().map_or(false, |(sig, detail, _)| (sig.starts_with("panic@") && (detail.contains("ExecutionState") || detail.contains("shuttle"))) || detail.contains("schedule"));
			let out = if diverged {
				println!("stored schedule no longer applies to this build; re-running the stored workload under 600 fresh schedules");
				let base = scratch.clone();
				std::fs::create_dir_all(&scratch).expect("scratch");
				match id.as_str() {
					"C05" => {
						let wl: Arc<c05::Workload> = Arc::new(serde_json::from_value(case.get("workload").cloned().unwrap_or_default()).expect("workload"));
						run_schedules(move || c05::execute(wl.clone(), &base), Sched::Random(seed(), 600), &scratch.join("sched"))
					},
					"C11" => {
						let wl: Arc<c11::Workload> = Arc::new(serde_json::from_value(case.get("workload").cloned().unwrap_or_default()).expect("workload"));
						run_schedules(move || c11::execute(wl.clone(), &base), Sched::Random(seed(), 600), &scratch.join("sched"))
					},
					"C16" => {
						let wl: Arc<c16::Workload> = Arc::new(serde_json::from_value(case.get("workload").cloned().unwrap_or_default()).expect("workload"));
						run_schedules(move || c16::execute(wl.clone(), &base), Sched::Random(seed(), 600), &scratch.join("sched"))
					},
					_ => {
						let wl: Arc<c15::Workload> = Arc::new(serde_json::from_value(case.get("workload").cloned().unwrap_or_default()).expect("workload"));
						run_schedules(move || c15::execute(wl.clone(), &base), Sched::Random(seed(), 600), &scratch.join("sched"))
					},
				}
			} else {
				out
			};
			let _ = std::fs::remove_dir_all(&scratch);
			match out.failure {
				Some((sig, detail, _)) => {
					println!("replay failed: {sig} -- {detail}");
					println!("VIOLATION property={} replay={}", id, args[3]);
					std::process::exit(1)
				},
				None => println!("replay of {} passed (property held on this schedule)", args[3]),
			}
		},
		_ => {
			eprintln!("usage: pdbs shard <ID> <tier> <i> <K> <out> | replay <ID> <file>");
			std::process::exit(2)
		},
	}
}
