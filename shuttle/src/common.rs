//! Shared pieces of the shuttle flavour: shard report (same JSON as the harness), schedule
//! runner, failure capture.

use serde::{Deserialize, Serialize};
use shuttle::{
	scheduler::{PctScheduler, RandomScheduler, ReplayScheduler},
	Config, FailurePersistence, MaxSteps, Runner,
};
use std::{
	collections::{BTreeMap, BTreeSet},
	hash::{Hash, Hasher},
	path::{Path, PathBuf},
	sync::{
		atomic::{AtomicU64, Ordering},
		Arc, Mutex,
	},
};

#[derive(Clone, Debug, Serialize, Deserialize, Default)]
pub struct FailureReport {
	pub signature: String,
	pub detail: String,
	pub replay: String,
	pub known: bool,
}

#[derive(Clone, Debug, Serialize, Deserialize, Default)]
pub struct ShardReport {
	pub evaluations: u64,
	pub cases: u64,
	pub nontrivial_cases: u64,
	pub sub_nontrivial: u64,
	pub labels: BTreeMap<String, u64>,
	pub counters: BTreeMap<String, u64>,
	pub samples: Vec<serde_json::Value>,
	pub failures: Vec<FailureReport>,
	pub known_findings: Vec<String>,
	pub shrink_runs: u64,
	pub excluded_known: u64,
	pub rules: Vec<String>,
	pub exhaustive: bool,
	pub notes: Vec<String>,
	#[serde(skip)]
	pub fps: BTreeSet<u64>,
}

pub fn splitmix(mut x: u64) -> u64 {
	x = x.wrapping_add(0x9e3779b97f4a7c15);
	let mut z = x;
	z = (z ^ (z >> 30)).wrapping_mul(0xbf58476d1ce4e5b9);
	z = (z ^ (z >> 27)).wrapping_mul(0x94d049bb133111eb);
	z ^ (z >> 31)
}

pub fn fingerprint<T: Serialize>(v: &T) -> u64 {
	let s = serde_json::to_string(v).unwrap_or_default();
	let mut h = std::collections::hash_map::DefaultHasher::new();
	s.hash(&mut h);
	h.finish()
}

pub fn scratch_root() -> PathBuf {
	if Path::new("/dev/shm").is_dir() {
		PathBuf::from("/dev/shm")
	} else {
		std::env::temp_dir()
	}
}

/// A violation detected inside an execution is recorded here (first one wins) and the
/// execution panics, which makes shuttle stop and persist the schedule.
pub static VIOLATION: Mutex<Option<(String, String)>> = Mutex::new(None);
/// executions in which the non-trivial condition was observed
pub static NONTRIVIAL: AtomicU64 = AtomicU64::new(0);
pub static EXECUTIONS: AtomicU64 = AtomicU64::new(0);
/// occurrences of a listed known finding that were tolerated (counted into the report)
pub static EXCLUDED_KNOWN: AtomicU64 = AtomicU64::new(0);
/// executions in which more than the 128 MiB log-queue limit was logged but not applied (C15)
pub static LOGQ_OVER_LIMIT: AtomicU64 = AtomicU64::new(0);
/// executions in which 16 or more applied log files were seen waiting (C15, sync_data = false)
pub static KEPT_LOGS_AT_LIMIT: AtomicU64 = AtomicU64::new(0);
/// largest number of observer steps any execution needed until the pipeline had drained (C15)
/// transactions without queue bytes (removals only / empty) committed after the clients finished (C15)
pub static ZERO_BYTE_TAIL: AtomicU64 = AtomicU64::new(0);
pub static MAX_OBSERVER_SPINS: AtomicU64 = AtomicU64::new(0);
/// true while executions run under the uniformly random scheduler (every runnable task gets its
/// share of steps, so a bound on the observer's steps is also a bound on everybody else's)
pub static FAIR_SCHEDULER: std::sync::atomic::AtomicBool = std::sync::atomic::AtomicBool::new(false);
pub static DIR_COUNTER: AtomicU64 = AtomicU64::new(0);

pub fn violation(sig: &str, detail: String) -> ! {
	let mut v = VIOLATION.lock().unwrap();
	if v.is_none() {
		*v = Some((sig.to_string(), detail.clone()));
	}
	drop(v);
	panic!("VIOLATION {sig}: {detail}");
}

thread_local! {
	static LAST_PANIC: std::cell::RefCell<Option<String>> = std::cell::RefCell::new(None);
}
pub static LAST_PANIC_GLOBAL: Mutex<Option<String>> = Mutex::new(None);

pub fn install_panic_hook() {
	std::panic::set_hook(Box::new(|info| {
		let loc = info.location().map(|l| format!("{}:{}", l.file(), l.line())).unwrap_or_default();
		let msg = if let Some(s) = info.payload().downcast_ref::<&str>() {
			s.to_string()
		} else if let Some(s) = info.payload().downcast_ref::<String>() {
			s.clone()
		} else {
			"?".into()
		};
		let mut g = LAST_PANIC_GLOBAL.lock().unwrap();
		if g.is_none() {
			*g = Some(format!("{loc}|{msg}"));
		}
	}));
}

pub enum Sched {
	Random(u64, usize),
	Pct(u64, usize, usize),
	Replay(String),
}

pub struct RunOutcome {
	pub executions: u64,
	pub nontrivial: u64,
	/// (signature, detail, schedule)
	pub failure: Option<(String, String, String)>,
}

/// Runs `f` under the given scheduler. A panic inside (violation, deadlock, step limit) is
/// turned into a failure with the persisted schedule.
pub fn run_schedules<F>(f: F, sched: Sched, sched_dir: &Path) -> RunOutcome
where
	F: Fn() + Send + Sync + 'static,
{
	let _ = std::fs::remove_dir_all(sched_dir);
	std::fs::create_dir_all(sched_dir).expect("sched dir");
	let mut cfg = Config::new();
	cfg.failure_persistence = FailurePersistence::File(Some(sched_dir.to_path_buf()));
	cfg.max_steps = MaxSteps::FailAfter(20_000_000);
	cfg.silence_warnings = true;
	cfg.stack_size = 0x40000;
	*VIOLATION.lock().unwrap() = None;
	*LAST_PANIC_GLOBAL.lock().unwrap() = None;
	let e0 = EXECUTIONS.load(Ordering::SeqCst);
	let n0 = NONTRIVIAL.load(Ordering::SeqCst);
	let f = Arc::new(f);
	let f2 = f.clone();
	FAIR_SCHEDULER.store(matches!(sched, Sched::Random(..)), Ordering::SeqCst);
	let r = std::panic::catch_unwind(std::panic::AssertUnwindSafe(move || match sched {
		Sched::Random(seed, iters) => Runner::new(RandomScheduler::new_from_seed(seed, iters), cfg).run(move || f2()),
		Sched::Pct(seed, depth, iters) => Runner::new(PctScheduler::new_from_seed(seed, depth, iters), cfg).run(move || f2()),
		Sched::Replay(s) => Runner::new(ReplayScheduler::new_from_encoded(&s), cfg).run(move || f2()),
	}));
	let executions = EXECUTIONS.load(Ordering::SeqCst) - e0;
	let nontrivial = NONTRIVIAL.load(Ordering::SeqCst) - n0;
	let failure = match r {
		Ok(_) => None,
		Err(_) => {
			let schedule = std::fs::read_dir(sched_dir)
				.ok()
				.and_then(|rd| rd.flatten().next())
				.and_then(|e| std::fs::read_to_string(e.path()).ok())
				.unwrap_or_default();
			let (sig, detail) = match VIOLATION.lock().unwrap().take() {
				Some(v) => v,
				None => {
					let p = LAST_PANIC_GLOBAL.lock().unwrap().take().unwrap_or_default();
					let (loc, msg) = p.split_once('|').unwrap_or((&p, ""));
					let loc = loc.rsplit_once("/src/").map(|(_, r)| format!("src/{r}")).unwrap_or(loc.to_string());
					if msg.contains("deadlock") {
						("deadlock".to_string(), format!("shuttle detected a deadlock: {msg}"))
					} else if msg.contains("exceeded max_steps") {
						("step-limit".to_string(), msg.to_string())
					} else {
						(format!("panic@{loc}"), format!("panic at {loc}: {msg}"))
					}
				},
			};
			Some((sig, detail, schedule.trim().to_string()))
		},
	};
	let _ = std::fs::remove_dir_all(sched_dir);
	RunOutcome { executions, nontrivial, failure }
}

pub fn fresh_dir(base: &Path) -> PathBuf {
	let n = DIR_COUNTER.fetch_add(1, Ordering::SeqCst);
	let d = base.join(format!("x{n}"));
	let _ = std::fs::remove_dir_all(&d);
	d
}
