//! loom -> shuttle shim (see Cargo.toml).
pub mod sync {
	pub use shuttle::sync::{Condvar, Mutex, MutexGuard, RwLock, RwLockReadGuard, RwLockWriteGuard};
	pub use std::sync::Arc;
	pub mod atomic {
		pub use std::sync::atomic::*;
	}
}
pub mod thread {
	pub use shuttle::thread::*;
}
pub fn model<F: Fn() + Send + Sync + 'static>(f: F) {
	shuttle::check_random(f, 100)
}
