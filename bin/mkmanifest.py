#!/usr/bin/env python3
"""Regenerates /verif/MANIFEST.json from the table below (single source of truth)."""
import json, os, subprocess

ROOT = os.path.dirname(os.path.dirname(os.path.abspath(__file__)))

# id -> (level, technique, level text, level note, design ref, engine)
CHECKS = {
    "C01": ("exploration",
            "model-based stateful PBT (proptest): generated transaction/pipeline-step/reopen histories vs a map model, read-after-every-op oracle, shrinking to JSON replay",
            "Randomised exploration of histories x pipeline schedules x column options against a naive map model; every key of the universe is read after every operation. Cannot prove absence; it makes 'several commits at different stages' the common case instead of unreachable.",
            "Trusts the repository's `instrumentation` stepping API to be the same code the workers run (it calls the same DbInner methods); value = f(key) on preimage columns.",
            "DESIGN.md 4 C01", "pdbv"),
    "C02": ("fault_enumeration",
            "fault/crash-point enumeration over generated histories: every file-operation index of every pipeline step -> directory image (+ generated log-tail cut, + crashes inside recovery) -> reopen -> prefix oracle against the model; shrinking to (scenario, stop point) JSON replay; plus a kill mode (child process with the real worker threads SIGKILLed at a generated moment, incl. during creation) and directly built interrupted-creation images",
            "For each generated scenario every stop point inside every pipeline op is enumerated (sampled above a cap), so recovery is exercised at every file-operation boundary the library has, recursively inside recovery. The oracle is the prefix-state set of a naive model. Bounded by scenario size; absence is not established.",
            "Crash = process stop at one of the library's try_io! sites (repository feature `instrumentation`), image = directory copy at that instant; the injected error stands for the stop (code that runs after the error on its way out performs no further file operation because the injector keeps failing).",
            "DESIGN.md 4 C02", "pdbv"),
    "C03": ("exploration",
            "model-based PBT over drop points (stepping mode and real worker threads) + stop-point enumeration with the synced-transactions lower bound",
            "(a) generated histories dropped at arbitrary pipeline states then reopened must show every accepted commit; (b) crash images must recover to a prefix that contains every transaction whose log record had been synced. Exploration-level: sampled histories, enumerated stop points inside each.",
            "sync_wal=true makes a returned flush_logs step a durability point; process-crash model (page loss is C12).",
            "DESIGN.md 4 C03", "pdbv"),
    "C04": ("exploration",
            "model-based stateful PBT: cursor state machine {Start,End,Seeked,At} against a sorted-map model, one iterator kept open across commits/steps; independent on-disk tree walk after drain; plus the same scenarios while the library's own worker threads move the data",
            "Generated histories of commits (incl. bulk insert/delete forcing splits, merges, root changes), pipeline steps and iterator calls; every iterator answer is compared with the model at the time of the call; the on-disk tree is re-parsed by an independent reader (sorted, uniform depth, values resolve).",
            "seek_to_first is seek(\"\"); the raw layout reader is an independent re-implementation of the documented file formats.",
            "DESIGN.md 4 C04", "pdbv"),
    "C06": ("exploration",
            "enumerated size-tier boundaries (255 tiers x 4 entry layouts x 3 lengths) + generated overwrite chains and steady-state rounds; round-trip oracle (get/get_size/iterator bit-exact) and slot accounting by an independent layout reader",
            "The tier-boundary space is enumerated completely (compression none in quick, all three in thorough); overwrite chains across tiers / single-multipart / compressibility classes are generated; storage release is decided by re-parsing the files (every slot in exactly one live chain or on the free list; fill marks do not grow over steady-state rounds).",
            "rc-header boundary lengths come from a key->length function because the preimage contract fixes value = f(key).",
            "DESIGN.md 4 C06", "pdbv"),
    "C07": ("exploration",
            "model-based stateful PBT with a count model (Set +1, Reference/Dereference only on present keys) over hash-rc and btree-rc columns; presence oracle conditioned on the queue being empty; value-iteration multiset and raw stored counts compared after drain; plus the same histories with the library's own worker threads",
            "Generated Set/Reference/Dereference histories with counts crossing zero while commits are queued; after every op the conditional presence oracle; after drain the (value,count) multiset from value iteration and the counts stored on disk (hash and btree) must equal the model. thorough adds crash stop points with counts in the observation.",
            "While commits are queued a count-0 key may still be readable (the property allows it).",
            "DESIGN.md 4 C07", "pdbv"),
    "C14": ("exploration",
            "generated mixed-column histories (+ crash stop points + steady-state rounds) followed by an independent re-parse of every file: index->slot->key/value/count resolution, slot accounting, free-list walk, btree walk, multitree forest and node reference counts vs the model",
            "Invisible-to-get defects (leaks, orphans, double use, stale index entries, wrong node counts) become assertion failures of an independent reader of the documented formats, after drains, clean reopens and crash recoveries of generated histories over all column kinds.",
            "Layout reader = independent re-implementation of the documented on-disk formats; one known finding (claimed multitree slots leaked by a crash) is tolerated by its exact shape and counted.",
            "DESIGN.md 4 C14", "pdbv"),
    "C08": ("exploration",
            "model-based PBT with fault-style injection of invalid operations: generated valid histories with poisoned transactions (one invalid operation at a generated position among valid ones) and a background-error state; before/after observation equality + model continuity + raw slot accounting",
            "Each error class the property names is generated at every position inside multi-column transactions; the oracle is conditional on Err and compares the complete observation before/after, later reads, drained layout (nothing consumed) and the reopened state with a model that ignores the transaction.",
            "A poisoned transaction that is accepted discards the scenario (counted); the background-error state is entered via the verif_store_err hook (same store_err path as a failing worker).",
            "DESIGN.md 4 C08", "pdbv"),
    "C10": ("exploration",
            "model-based stateful PBT over a forest model (arena of nodes with parent counts): generated InsertTree/ReferenceTree/DereferenceTree histories with shared nodes, traversal oracle after every op, entry-count and raw forest/ref-count comparison after drain; plus the same histories with the library's own worker threads, and reference-count table growth on a 1M-node base",
            "Generated tree shapes (fan-out up to 255 and unrepresentable 256/300, multipart nodes, DAG sharing incl. the same node several times) over four column variants; every live tree is traversed after every op; after drains the files are re-parsed (node reference counts == referencing parents, forest == model, zero entries when no tree is live).",
            "Existing-node references follow the client contract (nodes of trees live after all returned commits; not in a transaction that also dereferences).",
            "DESIGN.md 4 C10", "pdbv"),
    "C17": ("exploration",
            "exhaustive enumeration of the 384 column-option values for the metadata round trip + generated (stored, requested) option pairs with directory-snapshot equality (cleanly closed directories and directories left by an unclean stop, all three opening calls) + generated administration calls on generated databases (optionally crash images with pending logs) against the model, files re-parsed afterwards",
            "The option space of the round trip is enumerated completely; mismatching opens must fail and leave a byte-identical directory; admin calls are applied to generated multi-column databases incl. directories with unreplayed logs and every other column must observe exactly as before, the affected one empty and writable, with nothing of it left in the files.",
            "Requested options are valid (open asserts validity); 'as before' with pending logs = what a plain reopen of a copy shows.",
            "DESIGN.md 4 C17", "pdbv"),
    "C19": ("exploration",
            "enumerated (index_bits x start x templates x key classes) + generated 64-slot pages through the verif_find_entry hook; differential oracle: vectorised search vs scalar search vs a set-based specification (F = compared-bit matches, E = exact matches)",
            "Pure function over (index_bits, key, start, page): ~2M generated pages per quick run with slot classes built to hit the masks (near misses, dropped-bit-only differences, zero partial keys, duplicates); both implementations are checked against the specification sets.",
            "The hook calls the two private search functions unchanged.",
            "DESIGN.md 4 C19", "pdbv"),
    "C20": ("exploration",
            "differential PBT: generated source databases (sizes incl. multipart, counts > 1, index grown to 17 bits, unselected btree/multitree columns) x generated destination option pairs x forced/automatic selection x overwrite; destination compared with the source model by reads, value iteration (counts) and a raw re-parse of the destination files",
            "Round-trip/differential oracle between source model and migrated destination over generated option pairs that keep the key hashing; also checks that unselected columns (incl. tree reference counts) and, without overwrite, the source are unchanged.",
            "Columns migrated to preimage/rc destinations hold value = f(key) in the source; hash<->btree migration is documented as unsupported.",
            "DESIGN.md 4 C20", "pdbv"),
    "C09": ("exploration",
            "model-based stateful PBT with adversarially constructed key sets (identity hash): controlled index growth 16->19 bits, index-identical collision groups, reindex batches as schedulable steps; read-after-every-op oracle + raw index re-parse after drain; crash stop points inside growth",
            "Key sets are constructed (not sampled) so that page overflow, repeated growth and index-identical groups are the common case; reindex batches are ordinary generated steps interleaved with commits, reads, reopen and crash points; after each drain exactly one index file must remain with every model key exactly once.",
            "Zero-salt identity hashing is the repository's own test device; growth bounded to 19 bits for file-size reasons.",
            "DESIGN.md 4 C09", "pdbv"),
    "C13": ("exploration",
            "generated damage programs (truncate / bit flips / overwrite / append / sub-header cut / zero-length / delete / duplicate / swap) over log files of generated crash images with several un-applied log files; oracle: open Ok without panic, observed state == a prefix between enacted and committed, stable across a second reopen; thorough adds a coverage-guided fuzz target over the same decoder",
            "Damage of every class the property names is generated against images that really hold 1-4 un-applied log files; the oracle is the prefix set of the model with the 'not older than the tables' lower bound. Two known findings (missing replay anchor) are excluded by construction, counted, and reproduced by fixed regression histories.",
            "Checksum-forging inputs are not generated; damage to already-applied log files and to the anchor record of a non-last file is the recorded known finding.",
            "DESIGN.md 4 C13", "pdbv"),
    "C16": ("fault_enumeration",
            "fault enumeration: every file-operation index of every pipeline step of generated histories fails (and keeps failing) via the library's injector; oracle: error reported by the failing call, no panic incl. drop, reads == model of all commits, restart recovers a prefix >= synced and accepts commits; plus a threaded part under shuttle: real worker loops, fault from the n-th file operation of ANY worker on, x seeded schedules; plus real OS threads with EIO returned by interposed syscalls (write, fdatasync, fsync, msync, ftruncate, unlink, mmap) from a generated call count on",
            "All fault positions inside each op of each generated history (sampled above a cap); differs from C02 in that the handle survives the fault, must keep serving reads, must report the error, and the SAME directory is reopened after the fault is gone.",
            "Injector = the library's try_io! sites on the calling thread (stepping mode); reads are issued with the injector paused.",
            "DESIGN.md 4 C16", "pdbv"),
    "C18": ("exploration",
            "model-based stateful PBT over actors (in-process handles and child processes): generated open (per actor: open_or_create / open / open_read_only) / drop / SIGKILL / write scripts and barrier-released simultaneous opens on directories that need recovery; holder model + directory-snapshot equality",
            "Scripts over 2-4 actors of both kinds; the oracle is a one-holder model: open succeeds iff no holder, refusals are lock errors that change nothing on disk, a dropped or killed holder frees the directory, exactly one of several simultaneous opens wins.",
            "Advisory flock semantics of the host; holders run without background threads so refused opens can be compared against a quiescent snapshot.",
            "DESIGN.md 4 C18", "pdbv"),
    "C05": ("exploration",
            "generated-schedule testing: proptest-generated multi-thread workloads x seeded shuttle schedules (random + PCT) over the unmodified crate (feature loom mapped onto shuttle), real worker loops via verif hooks; interval oracle from harness atomics (no stale / future / torn / non-monotonic read); plus the same workloads and oracle on real OS threads with the library's own background workers (half of the shards)",
            "Thread schedules are generated inputs (seed-replayable) at the granularity of the crate's lock and condvar operations, with the four real worker loops or a generated stage order; every read is checked against the interval of transactions that could legally be visible, and per-reader monotonicity / atomic visibility.",
            "Controls scheduling only at lock/condvar operations; library built with feature loom; writers own disjoint key sets.",
            "DESIGN.md 4 C05", "pdbv-shuttle"),
    "C11": ("exploration",
            "model-based stateful PBT with a kept tree-reader lock (stepping mode: deferral really happens and is re-queued) + forest model with postponed removal; shuttle schedules for the concurrent variant",
            "While the reader lock is held the tree must read back as at lock time through the locked reader whatever is committed and processed meanwhile (dereference, reuse of its nodes, other writes, pipeline steps); after release the final state of all columns must equal the commit-order model. One known finding (deferral re-orders the whole transaction) is excluded by construction, counted, and reproduced by a fixed regression history.",
            "The client holds the tree's read lock while committing insertions that reuse its nodes.",
            "DESIGN.md 4 C11", "pdbv"),
    "C15": ("exploration",
            "generated-schedule testing with the REAL worker loops: proptest-generated client scripts (incl. bursts beyond the 16 MiB queue limit, transactions beyond the 128 MiB log-queue limit, sync_data=false with more than the 16 kept log files, shutdown at a generated moment) x seeded shuttle schedules (random + PCT); bounded-liveness oracle on the pipeline counters + shuttle's deadlock detection + persisted-data check",
            "The four worker loops, the wait/notify protocol and the queue-full throttles run unmodified under generated schedules; a hang is either a detected deadlock (all threads blocked) or the counters not draining within a bounded number of observer steps while nothing else is called (1M steps under the uniformly random scheduler, where every runnable worker gets its share; PCT schedules that exhaust shuttle's step limit are counted as unfair and skipped).",
            "Bounded liveness (cannot prove termination for unexplored schedules); scheduling controlled at lock/condvar operations; always_flush executions labelled separately.",
            "DESIGN.md 4 C15", "pdbv-shuttle"),
    "C12": ("fault_enumeration",
            "fault enumeration with injected durability loss: interposed sync syscalls feed a durability tracker; at every (sampled) file-operation stop point power-loss images are GENERATED (subset of dirty 4 KiB pages of every mapped file x length of the unsynced log tail) and recovered; plus an event invariant at every log reclamation; plus a sub-run with the real worker threads in which images are taken inside the interposed sync / truncate calls and durability must be monotone across successive images",
            "The power-loss model of the property is made executable: durable vs volatile content comes from the actual fdatasync/fsync/msync calls of the run, the page subset and tail length are generated, the oracle is 'prefix containing every synced transaction'. The ordering half of the property is also checked directly: no log file is truncated/unlinked while any table page differs from its durable copy.",
            "Directory entries and ftruncate sizes are durable at once; pages are not torn; stepping mode (single thread) for the event invariant; in the threaded sub-run the states reached depend on OS scheduling (the oracle is sound for any schedule).",
            "DESIGN.md 4 C12", "pdbv"),
}

NOT_YET = {
}

def main():
    props = [json.loads(l)["id"] for l in open(os.path.join(ROOT, "properties.jsonl"))]
    try:
        commits = subprocess.check_output(["git", "-C", "/repo", "log", "--format=%H %s"], text=True).splitlines()
        hook_commits = [c.split()[0] for c in commits if "verif hooks" in c]
    except Exception:
        hook_commits = []
    checks = []
    for pid in props:
        if pid not in CHECKS:
            continue
        level, technique, text, note, ref, engine = CHECKS[pid]
        checks.append({
            "property_id": pid,
            "quick_cmd": f"bin/check {pid} quick",
            "thorough_cmd": f"bin/check {pid} thorough",
            "evidence_file": f"/verif/evidence/{pid}.json",
            "replay_cmd_template": f"bin/check {pid} --replay {{path}}",
            "engine": engine,
            "level_claimed": {"category": level, "text": text, "design_ref": ref},
            "level_note": note,
            "technique": technique,
        })
    na = [{"property_id": p, "reason": NOT_YET.get(p, "check not built yet in this revision (planned, see DESIGN.md section 4); technique applies")}
          for p in props if p not in CHECKS]
    manifest = {
        "version": 1,
        "setup_cmd": "bin/setup",
        "hooks": {
            "guard": "cargo feature `verif` of parity-db (implies the repository's own `instrumentation` feature)",
            "enable": "harness crates depend on parity-db = { path = \"/repo\", features = [\"verif\"] }",
            "baseline_off_cmd": "cd /repo && cargo test --workspace --no-fail-fast --offline",
            "source_commits": hook_commits,
            "add_only": True,
        },
        "engines": [
            {"name": "pdbv", "path": "harness", "serves_properties": [c["property_id"] for c in checks if c["engine"] == "pdbv"],
             "kind_free_text": "proptest-driven model-based / fault-enumeration harness (std threads, stepping API, crash images, raw layout reader)"},
            {"name": "pdbv-shuttle", "path": "shuttle", "serves_properties": [c["property_id"] for c in checks if c["engine"] == "pdbv-shuttle"] + [x for x in ("C11", "C16") if any(c["property_id"] == x for c in checks)],
             "kind_free_text": "shuttle randomized/PCT schedules over parity-db built with feature loom (loom -> shuttle shim), real worker loops via verif hooks"},
            {"name": "fuzz", "path": "fuzz", "serves_properties": [c["property_id"] for c in checks if c["engine"] == "fuzz"],
             "kind_free_text": "cargo-fuzz (libFuzzer, ASan) targets"},
        ],
        "checks": checks,
        "not_applicable": na,
        "notes": "All checks are decided by generated-input search (proptest / shuttle schedules / libFuzzer) against explicit oracles; see DESIGN.md. Exit 2 = inconclusive (build failure, watchdog).",
    }
    manifest["engines"] = [e for e in manifest["engines"] if e["serves_properties"]]
    with open(os.path.join(ROOT, "MANIFEST.json"), "w") as f:
        json.dump(manifest, f, indent=1)
        f.write("\n")

if __name__ == "__main__":
    main()
