#![no_main]
//! C13: byte-level fuzzing of write-ahead log content. The input selects one of a few base
//! crash images (built once, with several un-applied log files) and a damage program; the
//! last un-applied log file may additionally get its whole body replaced by input bytes, so
//! that the record decoder and the per-action validation are reached with arbitrary data.
//! Oracle (same as the generated check): Db::open does not panic / hang and returns Ok, the
//! observed state equals a prefix between "applied to the tables" and "committed".
use arbitrary::Unstructured;
use libfuzzer_sys::fuzz_target;
use pdbv::{
	image::*,
	interp::*,
	props::c13::{apply_damage, Damage},
	spec::*,
};
use std::{path::PathBuf, sync::OnceLock};

struct Base {
	sc: Scenario,
	info: ImageInfo,
	dir: PathBuf,
}

static BASES: OnceLock<Vec<Base>> = OnceLock::new();

fn root() -> PathBuf {
	let base = if std::path::Path::new("/dev/shm").is_dir() { PathBuf::from("/dev/shm") } else { std::env::temp_dir() };
	base.join(format!("pdbv.fuzz.c13.{}", std::process::id()))
}

fn bases() -> &'static Vec<Base> {
	BASES.get_or_init(|| {
		let v = |len: u32, seed: u16| VSpec { len, fill: 1, seed };
		let set = |col: u8, k: u16, len: u32| Item { col, ch: Change::Set(k, v(len, k)) };
		let leaf = |s: u16| ChildSpec::New(TreeSpec { data: v(6, s), children: vec![] });
		let mut out = Vec::new();
		let scenarios = vec![
			// hash + btree, three un-applied log files
			Scenario {
				cfg: DbCfg::new(vec![ColCfg::hash(), ColCfg::btree()]),
				ops: vec![
					Op::Commit(vec![set(0, 1, 20), set(1, 1, 30)]),
					Op::P,
					Op::F,
					Op::E,
					Op::C,
					Op::Commit(vec![set(0, 2, 200), set(1, 2, 5)]),
					Op::P,
					Op::F,
					Op::Commit(vec![set(0, 1, 5000), Item { col: 1, ch: Change::Del(1) }]),
					Op::P,
					Op::F,
					Op::Commit(vec![set(0, 3, 40), set(1, 3, 40)]),
					Op::P,
				],
			},
			// ref-counted hash + multitree
			Scenario {
				cfg: DbCfg::new(vec![ColCfg::hash_rc(), ColCfg::multi()]),
				ops: vec![
					Op::Commit(vec![Item { col: 0, ch: Change::Set(1, v(0, 0)) }, Item { col: 1, ch: Change::InsertTree(0, TreeSpec { data: v(9, 1), children: vec![leaf(2), leaf(3)] }) }]),
					Op::P,
					Op::F,
					Op::Commit(vec![Item { col: 0, ch: Change::Set(1, v(0, 0)) }, Item { col: 1, ch: Change::InsertTree(1, TreeSpec { data: v(9, 4), children: vec![ChildSpec::Existing(0, 0), leaf(5)] }) }]),
					Op::P,
					Op::F,
					Op::Commit(vec![Item { col: 0, ch: Change::Del(1) }, Item { col: 1, ch: Change::DerefTree(0) }]),
					Op::P,
				],
			},
		];
		for (i, sc) in scenarios.into_iter().enumerate() {
			let dir = root().join(format!("base{i}"));
			let sp = StopPoint { op: sc.ops.len(), n: 0, cut: None, recover_n: vec![] };
			let info = make_image(&sc, &sp, &root().join("work"), &dir).expect("base image");
			out.push(Base { sc, info, dir });
		}
		out
	})
}

struct Input {
	base: u8,
	damage: Vec<(u8, u16, u16, u8, u16)>,
	replace_tail: Option<Vec<u8>>,
}

fn decode(u: &mut Unstructured) -> arbitrary::Result<Input> {
	let base = u.arbitrary::<u8>()?;
	let n = u.int_in_range(0..=4)?;
	let mut damage = Vec::new();
	for _ in 0..n {
		damage.push((u.arbitrary()?, u.arbitrary()?, u.arbitrary()?, u.arbitrary()?, u.arbitrary()?));
	}
	let replace_tail = if u.arbitrary::<bool>()? { Some(u.bytes(u.len())?.to_vec()) } else { None };
	Ok(Input { base, damage, replace_tail })
}

fuzz_target!(|data: &[u8]| {
	let input = match decode(&mut Unstructured::new(data)) {
		Ok(i) => i,
		Err(_) => return,
	};
	let bases = bases();
	let b = &bases[input.base as usize % bases.len()];
	let img = root().join("case");
	copy_dir(&b.dir, &img).expect("copy");
	let mut touched = false;
	for (kind, a, c, d, e) in input.damage.iter().take(4) {
		let dmg = match kind % 11 {
			0 => Damage::Truncate(*a, *c),
			1 | 2 => Damage::Flip(*a, *c, (*d).max(1)),
			3 => Damage::Overwrite(*a, *c, (*d % 63) + 1, *e),
			4 => Damage::Append(*a, (*c % 3000) + 1, *e),
			5 => Damage::DeleteLast((*d % 3) + 1),
			6 => Damage::Duplicate(*a),
			7 => Damage::SetByte(*a, *c, *d % 9),
			8 => Damage::Forge(*a, *c, (*d >> 4) % 11, *d & 15),
			9 => Damage::ForgeSize(*a, *c, 0x7ff0 + (*d as u16 & 15) + if *d & 16 != 0 { 0x8000 } else { 0 }),
			_ => Damage::Swap(*a, *c),
		};
		let _ = apply_damage(&img, &dmg, b.info.last_enacted_record, &mut touched);
	}
	if let Some(tail) = &input.replace_tail {
		// arbitrary body for the LAST un-applied log file (its 9-byte header is kept, so the file
		// stays in the replay sequence and the decoder sees the bytes)
		let _ = pdbv::props::c13::replace_last_log_body(&img, b.info.last_enacted_record, tail);
	}
	let sp = StopPoint { op: b.sc.ops.len(), n: 0, cut: None, recover_n: vec![] };
	pdbv::image::disarm();
	match recover_and_check(&b.sc, &b.info, &sp, &img, &root(), b.info.cleaned_or_enacted) {
		Ok(rec) => drop(rec),
		Err(f) => panic!("VIOLATION property=C13 {}: {}", f.sig, f.detail),
	}
});
