#![no_main]
//! C19: arbitrary 64-slot index page + key + start position + index size against the
//! set-based specification of the page search (same oracle as the generated check).
use libfuzzer_sys::fuzz_target;

fuzz_target!(|data: &[u8]| {
	if data.len() < 10 + 512 {
		return
	}
	let bits = 16 + data[0] % 34;
	let pos = (data[1] % 65) as usize;
	let mut key_prefix = u64::from_le_bytes(data[2..10].try_into().unwrap());
	let mut page = [0u8; 512];
	page.copy_from_slice(&data[10..522]);
	let entries: Vec<u64> = page.chunks_exact(8).map(|c| u64::from_le_bytes(c.try_into().unwrap())).collect();
	// optionally derive the key from one of the slots so that matches are common
	if data.len() > 522 && data[522] % 2 == 0 {
		let e = entries[(data[522] as usize / 2) % 64];
		let ab = bits as u32 + 14;
		let partial = e >> ab;
		let chunk = key_prefix >> (64 - bits as u32);
		key_prefix = (chunk << (64 - bits as u32)) | (partial << (64 - bits as u32 - (64 - ab)));
	}
	if let Err(f) = pdbv::props::c19::check_raw(bits, pos, key_prefix, &page, &entries) {
		panic!("VIOLATION property=C19 {}: {}", f.sig, f.detail);
	}
});
