// exploratory structural checker (not a deliverable)
use parity_db::{ColumnOptions, Db, Options};
use rand::{rngs::SmallRng, Rng, SeedableRng};
use std::collections::{BTreeMap, HashMap, HashSet};
use std::path::Path;

const SIZES: [u16; 255] = [
	32, 33, 34, 35, 36, 37, 38, 39, 40, 41, 42, 43, 44, 46, 47, 48, 50, 51, 52, 54, 55, 57, 58, 60,
	62, 63, 65, 67, 69, 71, 73, 75, 77, 79, 81, 83, 85, 88, 90, 93, 95, 98, 101, 103, 106, 109,
	112, 115, 119, 122, 125, 129, 132, 136, 140, 144, 148, 152, 156, 160, 165, 169, 174, 179, 183,
	189, 194, 199, 205, 210, 216, 222, 228, 235, 241, 248, 255, 262, 269, 276, 284, 292, 300, 308,
	317, 325, 334, 344, 353, 363, 373, 383, 394, 405, 416, 428, 439, 452, 464, 477, 490, 504, 518,
	532, 547, 562, 577, 593, 610, 627, 644, 662, 680, 699, 718, 738, 758, 779, 801, 823, 846, 869,
	893, 918, 943, 969, 996, 1024, 1052, 1081, 1111, 1142, 1174, 1206, 1239, 1274, 1309, 1345,
	1382, 1421, 1460, 1500, 1542, 1584, 1628, 1673, 1720, 1767, 1816, 1866, 1918, 1971, 2025, 2082,
	2139, 2198, 2259, 2322, 2386, 2452, 2520, 2589, 2661, 2735, 2810, 2888, 2968, 3050, 3134, 3221,
	3310, 3402, 3496, 3593, 3692, 3794, 3899, 4007, 4118, 4232, 4349, 4469, 4593, 4720, 4850, 4984,
	5122, 5264, 5410, 5559, 5713, 5871, 6034, 6200, 6372, 6548, 6729, 6916, 7107, 7303, 7506, 7713,
	7927, 8146, 8371, 8603, 8841, 9085, 9337, 9595, 9860, 10133, 10413, 10702, 10998, 11302, 11614,
	11936, 12266, 12605, 12954, 13312, 13681, 14059, 14448, 14848, 15258, 15681, 16114, 16560,
	17018, 17489, 17973, 18470, 18981, 19506, 20046, 20600, 21170, 21756, 22358, 22976, 23612,
	24265, 24936, 25626, 26335, 27064, 27812, 28582, 29372, 30185, 31020, 31878, 32760,
];

fn entry_size(tier: usize) -> usize {
	if tier == 255 {
		4096
	} else {
		SIZES[tier] as usize
	}
}

pub struct Table {
	pub tier: usize,
	pub es: usize,
	pub filled: u64,
	pub last_removed: u64,
	pub data: Vec<u8>,
}

impl Table {
	fn entry(&self, i: u64) -> &[u8] {
		let s = i as usize * self.es;
		if s + self.es > self.data.len() {
			panic!("tier {} entry {} beyond file (filled {})", self.tier, i, self.filled);
		}
		&self.data[s..s + self.es]
	}
	fn is_tomb(&self, i: u64) -> bool {
		let e = self.entry(i);
		e[0] == 0xff && e[1] == 0xff
	}
}

pub fn load_tables(dir: &Path, col: u8) -> Vec<Table> {
	let mut out = Vec::new();
	for tier in 0..256usize {
		let p = dir.join(format!("table_{:02}_{:02x}", col, tier));
		if !p.exists() {
			continue
		}
		let data = std::fs::read(&p).unwrap();
		if data.len() < 16 {
			continue
		}
		let last_removed = u64::from_le_bytes(data[0..8].try_into().unwrap());
		let mut filled = u64::from_le_bytes(data[8..16].try_into().unwrap());
		if filled == 0 {
			filled = 1;
		}
		out.push(Table { tier, es: entry_size(tier), filled, last_removed, data });
	}
	out
}

/// Returns for each table the set of free slots; checks the list.
pub fn check_free_lists(tables: &[Table]) -> Result<HashMap<usize, HashSet<u64>>, String> {
	let mut res = HashMap::new();
	for t in tables {
		let mut free = HashSet::new();
		let mut next = t.last_removed;
		while next != 0 {
			if next >= t.filled {
				return Err(format!("tier {}: free ref {} out of {}", t.tier, next, t.filled))
			}
			if !t.is_tomb(next) {
				return Err(format!("tier {}: free list entry {} is not a tombstone", t.tier, next))
			}
			if !free.insert(next) {
				return Err(format!("tier {}: free list cycle at {}", t.tier, next))
			}
			next = u64::from_le_bytes(t.entry(next)[2..10].try_into().unwrap());
		}
		for i in 1..t.filled {
			if t.is_tomb(i) && !free.contains(&i) {
				return Err(format!("tier {}: tombstone {} not on free list (leaked)", t.tier, i))
			}
		}
		res.insert(t.tier, free);
	}
	Ok(res)
}

/// read a value chain, returning (slots used, payload incl. rc/key)
fn read_chain(t: &Table, start: u64) -> Result<(Vec<u64>, Vec<u8>), String> {
	let mut slots = vec![];
	let mut payload = vec![];
	let mut idx = start;
	loop {
		if idx == 0 || idx >= t.filled {
			return Err(format!("tier {}: chain from {} goes to {} out of range", t.tier, start, idx))
		}
		if slots.contains(&idx) {
			return Err(format!("tier {}: chain cycle", t.tier))
		}
		slots.push(idx);
		let e = t.entry(idx);
		let h = [e[0], e[1]];
		if h == [0xff, 0xff] {
			return Err(format!("tier {}: chain from {} hits tombstone {}", t.tier, start, idx))
		}
		let multi = t.tier == 255 && (h == [0xfe, 0xff] || h == [0xfd, 0xff] || h == [0xfd, 0x7f]);
		if multi {
			let next = u64::from_le_bytes(e[2..10].try_into().unwrap());
			payload.extend_from_slice(&e[10..]);
			idx = next;
		} else {
			let size = (u16::from_le_bytes(h) & 0x7fff) as usize;
			if 2 + size > t.es {
				return Err(format!("tier {}: bad size {} at {}", t.tier, size, idx))
			}
			payload.extend_from_slice(&e[2..2 + size]);
			break
		}
	}
	Ok((slots, payload))
}

/// Hash column (uniform, zero salt, not ref counted, no compression): model is key -> value
pub fn check_hash_column(
	dir: &Path,
	col: u8,
	model: &BTreeMap<Vec<u8>, Vec<u8>>,
	rc: bool,
) -> Result<(), String> {
	let tables = load_tables(dir, col);
	let free = check_free_lists(&tables)?;
	let mut seen: HashMap<Vec<u8>, (usize, u64)> = HashMap::new();
	for t in &tables {
		let free = &free[&t.tier];
		let mut used: HashSet<u64> = HashSet::new();
		// heads
		for i in 1..t.filled {
			if free.contains(&i) {
				continue
			}
			let e = t.entry(i);
			let h = [e[0], e[1]];
			if t.tier == 255 {
				if h == [0xfe, 0xff] {
					continue
				}
				if !(h == [0xfd, 0xff] || h == [0xfd, 0x7f]) {
					// tail or single entry; can't tell; collect later
					continue
				}
			}
			let (slots, payload) = read_chain(t, i)?;
			for s in &slots {
				if !used.insert(*s) {
					return Err(format!("tier {}: slot {} used twice", t.tier, s))
				}
			}
			let off = if rc { 4 } else { 0 };
			if payload.len() < off + 26 {
				return Err(format!("tier {}: entry {} too short", t.tier, i))
			}
			let pk = payload[off..off + 26].to_vec();
			let val = &payload[off + 26..];
			let key = model.keys().find(|k| k[6..32] == pk[..]);
			match key {
				None =>
					return Err(format!(
						"tier {}: slot {} holds value of unknown/removed key {:?} (orphan)",
						t.tier,
						i,
						&pk[..4]
					)),
				Some(k) => {
					if let Some(prev) = seen.insert(k.clone(), (t.tier, i)) {
						return Err(format!(
							"key {:?} stored twice: {:?} and {:?}",
							&k[..8],
							prev,
							(t.tier, i)
						))
					}
					if &model[k][..] != val {
						return Err(format!(
							"key {:?}: stored value differs (len {} vs {})",
							&k[..8],
							val.len(),
							model[k].len()
						))
					}
				},
			}
		}
		for i in 1..t.filled {
			if !free.contains(&i) && !used.contains(&i) {
				return Err(format!("tier {}: slot {} neither free nor part of a value", t.tier, i))
			}
		}
	}
	for k in model.keys() {
		if !seen.contains_key(k) {
			return Err(format!("key {:?} has no stored value", &k[..8]))
		}
	}
	Ok(())
}

/// Btree column
pub fn check_btree_column(
	dir: &Path,
	col: u8,
	model: &BTreeMap<Vec<u8>, Vec<u8>>,
) -> Result<(), String> {
	let tables = load_tables(dir, col);
	let free = check_free_lists(&tables)?;
	let by_tier: HashMap<usize, &Table> = tables.iter().map(|t| (t.tier, t)).collect();
	let mut used: HashSet<(usize, u64)> = HashSet::new();
	let get = |addr: u64, used: &mut HashSet<(usize, u64)>| -> Result<Vec<u8>, String> {
		let tier = (addr & 0xff) as usize;
		let off = addr >> 8;
		let t = by_tier.get(&tier).ok_or(format!("no table for tier {}", tier))?;
		if free[&tier].contains(&off) {
			return Err(format!("address {}:{} is free", tier, off))
		}
		let (slots, payload) = read_chain(t, off)?;
		for s in slots {
			if !used.insert((tier, s)) {
				return Err(format!("tier {}: slot {} used twice", tier, s))
			}
		}
		Ok(payload)
	};
	let header = get(1 << 8, &mut used)?;
	let root = u64::from_le_bytes(header[0..8].try_into().unwrap());
	let depth = u32::from_le_bytes(header[8..12].try_into().unwrap());
	let mut found: Vec<(Vec<u8>, Vec<u8>)> = vec![];
	fn walk(
		addr: u64,
		depth: u32,
		is_root: bool,
		get: &dyn Fn(u64, &mut HashSet<(usize, u64)>) -> Result<Vec<u8>, String>,
		used: &mut HashSet<(usize, u64)>,
		found: &mut Vec<(Vec<u8>, Vec<u8>)>,
	) -> Result<(), String> {
		let enc = get(addr, used)?;
		let mut p = 0usize;
		let mut children = vec![];
		let mut seps = vec![];
		loop {
			if p + 8 > enc.len() {
				return Err("node too short".into())
			}
			let c = u64::from_le_bytes(enc[p..p + 8].try_into().unwrap());
			p += 8;
			children.push(c);
			if children.len() == 9 {
				break
			}
			if p == enc.len() {
				break
			}
			let v = u64::from_le_bytes(enc[p..p + 8].try_into().unwrap());
			p += 8;
			let mut l = enc[p] as usize;
			p += 1;
			if l == 255 {
				l = u32::from_le_bytes(enc[p..p + 4].try_into().unwrap()) as usize;
				p += 4;
			}
			let k = enc[p..p + l].to_vec();
			p += l;
			if v == 0 {
				break
			}
			seps.push((k, v));
		}
		if !is_root && seps.len() < 4 {
			return Err(format!("node {:x} underfull: {}", addr, seps.len()))
		}
		for i in 0..=seps.len() {
			let c = children.get(i).cloned().unwrap_or(0);
			if depth > 0 {
				if c == 0 {
					return Err(format!("node {:x}: missing child {} at depth {}", addr, i, depth))
				}
				walk(c, depth - 1, false, get, used, found)?;
			} else if c != 0 {
				return Err(format!("leaf {:x} has child", addr))
			}
			if i < seps.len() {
				let v = get(seps[i].1, used)?;
				found.push((seps[i].0.clone(), v));
			}
		}
		for i in seps.len() + 1..children.len() {
			if children[i] != 0 {
				return Err(format!("node {:x}: stray child {}", addr, i))
			}
		}
		Ok(())
	}
	if root != 0 {
		walk(root, depth, true, &get, &mut used, &mut found)?;
	} else if depth != 0 {
		return Err("no root but depth".into())
	}
	let expect: Vec<(Vec<u8>, Vec<u8>)> = model.iter().map(|(k, v)| (k.clone(), v.clone())).collect();
	if found.len() != expect.len() {
		return Err(format!("tree holds {} keys, model {}", found.len(), expect.len()))
	}
	for (a, b) in found.iter().zip(expect.iter()) {
		if a.0 != b.0 {
			return Err(format!("key order/content mismatch {:?} vs {:?}", a.0, b.0))
		}
		if a.1 != b.1 {
			return Err(format!("value mismatch for {:?}", a.0))
		}
	}
	for t in &tables {
		for i in 1..t.filled {
			if !free[&t.tier].contains(&i) && !used.contains(&(t.tier, i)) {
				return Err(format!("tier {}: slot {} neither free nor reachable (leak)", t.tier, i))
			}
		}
	}
	Ok(())
}

fn drain(db: &Db) {
	for _ in 0..3 {
		db.process_commits().unwrap();
		db.flush_logs().unwrap();
		db.enact_logs().unwrap();
		db.clean_logs().unwrap();
	}
	for _ in 0..25 {
		db.process_reindex().unwrap();
		db.process_commits().unwrap();
		db.flush_logs().unwrap();
		db.enact_logs().unwrap();
		db.clean_logs().unwrap();
	}
}

fn copy_dir(from: &Path, to: &Path) {
	std::fs::create_dir_all(to).unwrap();
	for e in std::fs::read_dir(from).unwrap() {
		let e = e.unwrap();
		if e.file_name() == "lock" {
			continue
		}
		std::fs::copy(e.path(), to.join(e.file_name())).unwrap();
	}
}

fn rand_size(rng: &mut SmallRng) -> usize {
	match rng.gen_range(0..10) {
		0 => 0,
		1 | 2 | 3 => rng.gen_range(0..100),
		4 | 5 => rng.gen_range(100..3000),
		6 => rng.gen_range(3000..9000),
		7 => rng.gen_range(32000..33500),
		8 => rng.gen_range(33500..50000),
		_ => rng.gen_range(4000..4200),
	}
}

fn opts(dir: &Path, btree: bool) -> Options {
	let mut options = Options::with_columns(dir, 1);
	options.columns[0] = ColumnOptions { uniform: !btree, btree_index: btree, ..Default::default() };
	options.with_background_thread = false;
	options.always_flush = true;
	options.salt = Some([0u8; 32]);
	options
}

fn run(seed: u64, btree: bool, steps: usize) {
	let dir = tempfile::tempdir().unwrap();
	let options = opts(dir.path(), btree);
	let mut db = Db::open_or_create(&options).unwrap();
	let mut rng = SmallRng::seed_from_u64(seed);
	let mut model: BTreeMap<Vec<u8>, Vec<u8>> = BTreeMap::new();
	let nkeys = if btree { 400 } else { 300 };
	let keys: Vec<Vec<u8>> = (0..nkeys)
		.map(|i: u32| {
			let mut k = vec![0u8; 32];
			if btree {
				let l = rng.gen_range(1..40);
				k = (0..l).map(|_| rng.gen_range(0..4u8)).collect();
				k.extend_from_slice(&i.to_be_bytes());
			} else {
				// few distinct 16-bit prefixes => chunk collisions & index growth
				k[0] = rng.gen_range(0..2);
				k[1] = 0;
				k[2] = rng.gen();
				k[3] = rng.gen();
				k[8..12].copy_from_slice(&i.to_be_bytes());
				k[20] = rng.gen();
			}
			k
		})
		.collect();
	let check = |dir: &Path, model: &BTreeMap<Vec<u8>, Vec<u8>>, what: &str, step: usize| {
		let r = if btree {
			check_btree_column(dir, 0, model)
		} else {
			check_hash_column(dir, 0, model, false)
		};
		if let Err(e) = r {
			panic!("seed {} step {} ({}): {}", seed, step, what, e);
		}
	};
	for step in 0..steps {
		let ncommits = rng.gen_range(1..4);
		for _ in 0..ncommits {
			let n = rng.gen_range(1..30);
			let mut tx: BTreeMap<Vec<u8>, Option<Vec<u8>>> = BTreeMap::new();
			for _ in 0..n {
				let k = keys[rng.gen_range(0..keys.len())].clone();
				if rng.gen_range(0..5) < 2 {
					tx.insert(k, None);
				} else {
					let mut v = vec![0u8; rand_size(&mut rng)];
					rng.fill(&mut v[..]);
					tx.insert(k, Some(v));
				}
			}
			for (k, v) in &tx {
				match v {
					Some(v) => {
						model.insert(k.clone(), v.clone());
					},
					None => {
						model.remove(k);
					},
				}
			}
			db.commit(tx.into_iter().map(|(k, v)| (0u8, k, v))).unwrap();
		}
		let mode = rng.gen_range(0..6);
		if mode == 0 {
			// crash image after log flush, before enact
			db.process_commits().unwrap();
			db.process_commits().unwrap();
			db.process_commits().unwrap();
			db.flush_logs().unwrap();
			if rng.gen() {
				db.enact_logs().unwrap();
			}
			let copy = tempfile::tempdir().unwrap();
			copy_dir(dir.path(), copy.path());
			{
				let o = opts(copy.path(), btree);
				let d = Db::open(&o).unwrap();
				for (k, v) in &model {
					assert_eq!(d.get(0, k).unwrap().as_ref(), Some(v), "seed {seed} step {step} crash get");
				}
				drain(&d);
				drop(d);
			}
			check(copy.path(), &model, "crash copy", step);
		}
		drain(&db);
		for k in &keys {
			assert_eq!(
				db.get(0, k).unwrap().as_ref(),
				model.get(k),
				"seed {seed} step {step} get {:?}",
				&k[..8.min(k.len())]
			);
		}
		if !btree {
			let mut got: Vec<Vec<u8>> = vec![];
			db.iter_column_while(0, |st| { assert_eq!(st.rc, 1); got.push(st.value); true }).unwrap();
			got.sort();
			let mut exp: Vec<Vec<u8>> = model.values().cloned().collect();
			exp.sort();
			assert!(got == exp, "seed {seed} step {step}: value iteration yields {} values, model {}", got.len(), exp.len());
		}
		if mode == 1 {
			drop(db);
			check(dir.path(), &model, "after close", step);
			db = Db::open(&options).unwrap();
		} else if mode == 2 {
			// files are mmapped & written directly; check live files
			check(dir.path(), &model, "live drained", step);
		}
	}
	// remove everything
	let tx: Vec<_> = model.keys().map(|k| (0u8, k.clone(), None)).collect();
	db.commit(tx).unwrap();
	model.clear();
	drain(&db);
	drop(db);
	check(dir.path(), &model, "final empty", steps);
}

#[test]
fn fuzz_hash() {
	for seed in 50..53 {
		eprintln!("hash seed {seed}");
		run(seed, false, 40);
	}
}

#[test]
fn fuzz_btree() {
	for seed in 100..106 {
		eprintln!("btree seed {seed}");
		run(seed, true, 40);
	}
}
