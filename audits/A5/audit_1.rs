// audit_1: inserting a tree under a root key that already exists leaks the nodes of the
// second insertion (their value-table slots are never reachable and never freed).
//
// Run: CARGO_NET_OFFLINE=true cargo test --offline --features instrumentation --test audit_1
//
// Faulty code: src/db.rs:569-612 (commit_changes, Operation::InsertTree): the nodes of the new tree
// are claimed (column.claim_tree_values) and queued as NodeChange::NewValue unconditionally, while
// the root is queued as a plain Operation::Set. When the root key already exists,
// src/column.rs:2072-2081 (write_existing_value_plan) only increments the reference count of the
// existing root (ref_counted), or skips the write (preimage), and the existing root keeps
// pointing to the *old* children. The freshly written nodes are referenced by nothing.
//
// Correct behaviour: after as many DereferenceTree as InsertTree of the same key, the column
// holds no value at all (every slot below the fill mark is on the free list).

use parity_db::{ColumnOptions, Db, NewNode, NodeRef, Operation, Options};

fn drain(db: &Db) {
	for _ in 0..4 {
		db.process_commits().unwrap();
		db.flush_logs().unwrap();
		db.enact_logs().unwrap();
		db.clean_logs().unwrap();
	}
}

fn tree() -> NewNode {
	let leaf = |b: u8| NewNode { data: vec![b; 40], children: vec![] };
	NewNode {
		data: b"root".to_vec(),
		children: vec![NodeRef::New(leaf(1)), NodeRef::New(leaf(2)), NodeRef::New(leaf(3))],
	}
}

#[test]
fn double_insert_tree_leaks_nodes() {
	let dir = tempfile::tempdir().unwrap();
	let mut options = Options::with_columns(dir.path(), 1);
	options.columns[0] = ColumnOptions {
		multitree: true,
		preimage: true,
		ref_counted: true,
		allow_direct_node_access: true,
		..Default::default()
	};
	options.with_background_thread = false;
	options.always_flush = true;
	options.salt = Some([0u8; 32]);
	let db = Db::open_or_create(&options).unwrap();
	let key = vec![7u8; 32];

	db.commit_changes(vec![(0, Operation::InsertTree(key.clone(), tree()))]).unwrap();
	drain(&db);
	assert_eq!(db.get_num_column_value_entries(0).unwrap(), 4);

	// Same tree, same root key: this is how a reference counted column is told "one more user".
	db.commit_changes(vec![(0, Operation::InsertTree(key.clone(), tree()))]).unwrap();
	drain(&db);

	db.commit_changes(vec![(0, Operation::DereferenceTree(key.clone()))]).unwrap();
	drain(&db);
	assert!(db.get_root(0, &key).unwrap().is_some(), "one reference must remain");
	db.commit_changes(vec![(0, Operation::DereferenceTree(key.clone()))]).unwrap();
	drain(&db);
	assert!(db.get_root(0, &key).unwrap().is_none());

	// Nothing is stored any more, so nothing may occupy a slot.
	assert_eq!(
		db.get_num_column_value_entries(0).unwrap(),
		0,
		"slots of the second insertion are leaked"
	);
}

// Variant on a multitree column without reference counting: the second InsertTree replaces the
// root in place, the children of the first tree are never dereferenced and stay allocated
// for ever (an unreachable, leaked chain of nodes).
#[test]
fn replace_tree_leaks_old_nodes() {
	let dir = tempfile::tempdir().unwrap();
	let mut options = Options::with_columns(dir.path(), 1);
	options.columns[0] = ColumnOptions {
		multitree: true,
		allow_direct_node_access: true,
		..Default::default()
	};
	options.with_background_thread = false;
	options.always_flush = true;
	let db = Db::open_or_create(&options).unwrap();
	let key = vec![9u8; 32];

	db.commit_changes(vec![(0, Operation::InsertTree(key.clone(), tree()))]).unwrap();
	drain(&db);
	db.commit_changes(vec![(0, Operation::InsertTree(key.clone(), tree()))]).unwrap();
	drain(&db);
	db.commit_changes(vec![(0, Operation::DereferenceTree(key.clone()))]).unwrap();
	drain(&db);
	assert!(db.get_root(0, &key).unwrap().is_none());
	assert_eq!(
		db.get_num_column_value_entries(0).unwrap(),
		0,
		"nodes of the replaced tree are leaked"
	);
}
