// exploratory multitree model test
use parity_db::{ColumnOptions, Db, NewNode, NodeRef, Operation, Options};
use rand::{rngs::SmallRng, Rng, SeedableRng};
use std::collections::{BTreeMap, HashMap};

fn drain(db: &Db) {
	for _ in 0..6 {
		db.process_commits().unwrap();
		db.flush_logs().unwrap();
		db.enact_logs().unwrap();
		db.clean_logs().unwrap();
		db.process_reindex().unwrap();
	}
}

struct MNode {
	data: Vec<u8>,
	children: Vec<u64>,
	rc: u32,
}

struct Model {
	nodes: HashMap<u64, MNode>,
	roots: BTreeMap<Vec<u8>, (Vec<u8>, Vec<u64>, u32)>,
}

impl Model {
	fn dec(&mut self, addr: u64) {
		let n = self.nodes.get_mut(&addr).expect("model: node exists");
		n.rc -= 1;
		if n.rc == 0 {
			let n = self.nodes.remove(&addr).unwrap();
			for c in n.children {
				self.dec(c);
			}
		}
	}
}

fn gen_node(rng: &mut SmallRng, depth: u32, counter: &mut u64, existing: &[u64], big: bool) -> NewNode {
	*counter += 1;
	let mut data = counter.to_le_bytes().to_vec();
	let extra = if big && rng.gen_range(0..10) == 0 { rng.gen_range(33000..40000) } else { rng.gen_range(0..200) };
	data.resize(8 + extra, (*counter % 251) as u8);
	let mut children = vec![];
	if depth > 0 {
		for _ in 0..rng.gen_range(0..4) {
			if !existing.is_empty() && rng.gen_range(0..3) == 0 {
				children.push(NodeRef::Existing(existing[rng.gen_range(0..existing.len())]));
			} else {
				children.push(NodeRef::New(gen_node(rng, depth - 1, counter, existing, big)));
			}
		}
	}
	NewNode { data, children }
}

// after commit, learn addresses by walking db and matching to the NewNode structure
fn learn(db: &Db, model: &mut Model, addr: u64, node: &NewNode) {
	let (data, children) = db.get_node(0, addr).unwrap().expect("new node readable");
	assert_eq!(data, node.data);
	assert_eq!(children.len(), node.children.len());
	for (c, n) in children.iter().zip(node.children.iter()) {
		match n {
			NodeRef::New(n) => learn(db, model, *c, n),
			NodeRef::Existing(a) => {
				assert_eq!(a, c);
				model.nodes.get_mut(a).expect("existing in model").rc += 1;
			},
		}
	}
	assert!(
		model.nodes.insert(addr, MNode { data, children, rc: 1 }).is_none(),
		"address {addr:x} handed out while still live"
	);
}

fn verify(db: &Db, model: &Model, ctx: &str, check_count: bool) {
	for (k, (data, children, _rc)) in &model.roots {
		let (d, c) = db.get_root(0, k).unwrap().unwrap_or_else(|| panic!("{ctx}: root missing"));
		assert_eq!(&d, data, "{ctx}");
		assert_eq!(&c, children, "{ctx}");
	}
	for (a, n) in &model.nodes {
		let r = db.get_node(0, *a).unwrap_or_else(|e| panic!("{ctx}: node {a:x} error {e:?}"));
		let (d, c) = r.unwrap_or_else(|| panic!("{ctx}: live node {a:x} (rc {}) missing", n.rc));
		assert_eq!(d, n.data, "{ctx}: node {a:x} data");
		assert_eq!(c, n.children, "{ctx}: node {a:x} children");
	}
	if check_count {
		let expect = (model.roots.len() + model.nodes.len()) as u64;
		assert_eq!(db.get_num_column_value_entries(0).unwrap(), expect, "{ctx}: entry count");
	}
}

fn run(seed: u64, ref_counted: bool, big: bool, reopen: bool) {
	let dir = tempfile::tempdir().unwrap();
	let mut options = Options::with_columns(dir.path(), 1);
	options.columns[0] = ColumnOptions {
		multitree: true,
		preimage: ref_counted,
		ref_counted,
		allow_direct_node_access: true,
		..Default::default()
	};
	options.with_background_thread = false;
	options.always_flush = true;
	let mut db = Db::open_or_create(&options).unwrap();
	let mut rng = SmallRng::seed_from_u64(seed);
	let mut model = Model { nodes: HashMap::new(), roots: BTreeMap::new() };
	let mut counter = 0u64;
	let mut nkey = 0u64;
	for step in 0..150 {
		let ctx = format!("seed {seed} rc {ref_counted} step {step}");
		let nops = rng.gen_range(1..4);
		for _ in 0..nops {
			let do_insert = model.roots.len() < 3 || rng.gen_range(0..10) < 5;
			if do_insert {
				let existing: Vec<u64> = model.nodes.keys().cloned().collect();
				let node = gen_node(&mut rng, 3, &mut counter, &existing, big);
				nkey += 1;
				let mut key = vec![0u8; 32];
				key[..8].copy_from_slice(&nkey.to_le_bytes());
				key[8] = rng.gen();
				db.commit_changes(vec![(0, Operation::InsertTree(key.clone(), node.clone()))]).unwrap();
				// learn addresses (reads through the commit overlay)
				let (d, c) = db.get_root(0, &key).unwrap().unwrap();
				assert_eq!(d, node.data);
				for (c, n) in c.iter().zip(node.children.iter()) {
					match n {
						NodeRef::New(n) => learn(&db, &mut model, *c, n),
						NodeRef::Existing(a) => {
							assert_eq!(a, c);
							model.nodes.get_mut(a).unwrap().rc += 1;
						},
					}
				}
				model.roots.insert(key, (d, c, 1));
			} else {
				let keys: Vec<_> = model.roots.keys().cloned().collect();
				let key = keys[rng.gen_range(0..keys.len())].clone();
				if ref_counted && rng.gen_range(0..4) == 0 {
					db.commit_changes(vec![(0, Operation::ReferenceTree(key.clone()))]).unwrap();
					model.roots.get_mut(&key).unwrap().2 += 1;
				} else {
					db.commit_changes(vec![(0, Operation::DereferenceTree(key.clone()))]).unwrap();
					let r = model.roots.get_mut(&key).unwrap();
					r.2 -= 1;
					if r.2 == 0 {
						let (_, children, _) = model.roots.remove(&key).unwrap();
						for c in children {
							model.dec(c);
						}
					}
				}
			}
			if rng.gen_range(0..3) == 0 {
				db.process_commits().unwrap();
			}
		}
		if rng.gen_range(0..5) == 0 {
			for _ in 0..5 { db.process_commits().unwrap(); }
			db.flush_logs().unwrap();
			if rng.gen() { db.enact_logs().unwrap(); }
			let copy = tempfile::tempdir().unwrap();
			for e in std::fs::read_dir(dir.path()).unwrap() {
				let e = e.unwrap();
				if e.file_name() == "lock" { continue }
				std::fs::copy(e.path(), copy.path().join(e.file_name())).unwrap();
			}
			let mut o = options.clone();
			o.path = copy.path().into();
			let d = Db::open(&o).unwrap();
			verify(&d, &model, &format!("{ctx} crash copy"), !big);
			drain(&d);
			verify(&d, &model, &format!("{ctx} crash copy drained"), !big);
		}
		drain(&db);
		verify(&db, &model, &ctx, !big);
		if reopen && rng.gen_range(0..6) == 0 {
			drop(db);
			db = Db::open(&options).unwrap();
			verify(&db, &model, &format!("{ctx} reopened"), !big);
		}
	}
	// deref everything
	let keys: Vec<_> = model.roots.iter().map(|(k, v)| (k.clone(), v.2)).collect();
	for (k, n) in keys {
		for _ in 0..n {
			db.commit_changes(vec![(0, Operation::DereferenceTree(k.clone()))]).unwrap();
			drain(&db);
		}
		let (_, children, _) = model.roots.remove(&k).unwrap();
		for c in children {
			model.dec(c);
		}
	}
	assert!(model.nodes.is_empty());
	drain(&db);
	if !big {
		assert_eq!(db.get_num_column_value_entries(0).unwrap(), 0, "seed {seed}: final leak");
	}
}

#[test]
fn mt_rc() {
	for seed in 0..6 {
		eprintln!("mt_rc {seed}");
		run(seed, true, false, true);
	}
}

#[test]
fn mt_plain() {
	for seed in 10..14 {
		eprintln!("mt_plain {seed}");
		run(seed, false, false, true);
	}
}

#[test]
fn mt_big() {
	for seed in 20..23 {
		eprintln!("mt_big {seed}");
		run(seed, true, true, true);
	}
}
