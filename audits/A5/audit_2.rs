// audit_2: value iteration (Db::iter_column_while) over a healthy multitree column fails with
// Error::Corruption as soon as the column holds a tree node smaller than 26 bytes.
//
// Run: CARGO_NET_OFFLINE=true cargo test --offline --features instrumentation --test audit_2
//
// Faulty code: src/table.rs:1170-1197 (ValueTable::iter_while) reads every slot as if it started
// with a 26 byte partial key (TableKeyQuery::Fetch(Some(..))). Tree nodes are stored without a key
// (TableKey::NoHash). For a node whose payload is shorter than 26 bytes the key "read" runs past
// the end of the entry and src/table.rs:587-592 (for_parts) reports
// Corruption("Unexpected entry size ..."), which iter_while does not tolerate (it only ignores
// InvalidValueData, "can be external index").
//
// Correct behaviour: iteration over a structurally sound column succeeds (yielding the live
// values or at least skipping the key-less entries); it must not report corruption.

use parity_db::{ColumnOptions, Db, NewNode, NodeRef, Operation, Options};

#[test]
fn value_iteration_on_multitree_column_reports_corruption() {
	let dir = tempfile::tempdir().unwrap();
	let mut options = Options::with_columns(dir.path(), 1);
	options.columns[0] = ColumnOptions {
		multitree: true,
		preimage: true,
		ref_counted: true,
		allow_direct_node_access: true,
		..Default::default()
	};
	options.with_background_thread = false;
	options.always_flush = true;
	let db = Db::open_or_create(&options).unwrap();
	let leaf = NewNode { data: b"leaf".to_vec(), children: vec![] };
	let root = NewNode { data: b"root".to_vec(), children: vec![NodeRef::New(leaf)] };
	db.commit_changes(vec![(0, Operation::InsertTree(vec![1u8; 32], root))]).unwrap();
	for _ in 0..3 {
		db.process_commits().unwrap();
		db.flush_logs().unwrap();
		db.enact_logs().unwrap();
		db.clean_logs().unwrap();
	}
	// the data is fine
	assert!(db.get_root(0, &[1u8; 32]).unwrap().is_some());
	let mut n = 0;
	let r = db.iter_column_while(0, |_| {
		n += 1;
		true
	});
	assert!(r.is_ok(), "iteration over a sound column failed: {:?} (after {} values)", r.err(), n);
}
