// audit_1: a log record whose write failed half way is still handed to the enactment stage and
// is applied to the tables without any check -> a transaction that was never completely logged
// is partially applied (atomicity lost, state after reopen is not a prefix of the commits).
//
// Run with:
//   CARGO_NET_OFFLINE=true cargo test --offline --features instrumentation --test audit_1
//
// Faulty code:
//   * src/log.rs:838-839  Log::end_record: when `flush_to_file` fails, the bytes of the
//     incomplete record stay in the BufWriter of the `appending` log file (and partly in the
//     file itself); the file is neither truncated back to the end of the last complete record
//     nor marked as poisoned.
//   * src/log.rs:941-956  Log::flush_one then flushes that buffer and queues the file for
//     reading, partial record included.
//   * src/db.rs:1215-1263 DbInner::enact_logs(validation_mode = false) applies the actions of
//     a record to the index / value tables while it reads them; the CRC (and even the presence
//     of the END_RECORD marker) is only looked at after everything was applied, and not at all
//     when the record is cut short (UnexpectedEof is returned after the damage is done).
//
// With background threads this is what happens when the log worker gets an I/O error in the
// middle of a record (the fault injector is thread local, a real-life equivalent is ENOSPC /
// EIO on write): `store_err` calls `shutdown()`, which *signals* the flush worker; the flush
// worker wakes up and calls `flush_logs` once more before it looks at the shutdown flag
// (src/db.rs:1698-1703), then signals the commit worker, which calls `enact_logs`
// (src/db.rs:1665-1674). Here the same interleaving is driven deterministically with the
// stepping API: the failing `process_commits` runs on a thread with the fault injector armed
// (the fault persists on that thread for ever), the flush / enact steps run on the main thread.
// The database directory is then copied (= what a reopen after `drop` with a background error
// sees, since that drop only reclaims fully enacted logs) and the copy is opened.
//
// Notes: the step `db.clean_logs()` after tx1 matters only in that it reclaims the log of tx1 as
// the cleanup worker does with sync_data = true (otherwise the replay of that old log happens to
// rewrite some of the damaged index pages). In a production configuration the flush worker
// takes the file only when it holds more than 64 MiB of complete records (MIN_LOG_SIZE_BYTES);
// with Options.always_flush (used here and by any stepping harness: flush_logs(0)) every time.
// Which fault positions are bad varies from run to run with the HashMap order of the record.
//
// Correct behaviour: after reopening, the content is the result of a prefix of the committed
// transactions: {tx1}, {tx1, tx1b} or {tx1, tx1b, tx2}. tx2 must never be visible in part.

use parity_db::{Db, Options};
use std::path::Path;

fn copy_dir(from: &Path, to: &Path) {
	std::fs::create_dir_all(to).unwrap();
	for e in std::fs::read_dir(from).unwrap() {
		let e = e.unwrap();
		if e.file_name() == "lock" {
			continue
		}
		std::fs::copy(e.path(), to.join(e.file_name())).unwrap();
	}
}

fn options(path: &Path) -> Options {
	let mut o = Options::with_columns(path, 1);
	o.with_background_thread = false;
	o.always_flush = true;
	o.stats = false;
	o.salt = Some([0; 32]);
	o
}

fn key(n: u8) -> Vec<u8> {
	// spread the keys over different index chunks
	let mut k = vec![n; 32];
	k[0] = n.wrapping_mul(37);
	k[1] = n.wrapping_mul(91);
	k
}

type State = Vec<Option<Vec<u8>>>;

fn read_state(db: &Db) -> State {
	(0u8..8).map(|n| db.get(0, &key(n)).unwrap()).collect()
}

#[test]
fn partial_record_is_enacted() {
	let tx1: Vec<(u8, Vec<u8>, Option<Vec<u8>>)> =
		(0u8..4).map(|n| (0, key(n), Some(vec![0xA0 + n; 20]))).collect();
	let tx1b: Vec<(u8, Vec<u8>, Option<Vec<u8>>)> = vec![(0, key(7), Some(vec![0xC7; 20]))];
	// tx2 removes two keys, replaces two values in place and inserts two keys.
	let tx2: Vec<(u8, Vec<u8>, Option<Vec<u8>>)> = vec![
		(0, key(0), None),
		(0, key(1), None),
		(0, key(2), Some(vec![0xB2; 20])),
		(0, key(3), Some(vec![0xB3; 20])),
		(0, key(4), Some(vec![0xB4; 20])),
		(0, key(5), Some(vec![0xB5; 20])),
	];

	let mut s1: State = vec![None; 8];
	for n in 0..4 {
		s1[n] = Some(vec![0xA0 + n as u8; 20]);
	}
	let mut s1b = s1.clone();
	s1b[7] = Some(vec![0xC7; 20]);
	let mut s2 = s1b.clone();
	s2[0] = None;
	s2[1] = None;
	for n in 2..6 {
		s2[n] = Some(vec![0xB0 + n as u8; 20]);
	}

	let mut bad = Vec::new();
	for k in 0..10_000usize {
		let tmp = tempfile::tempdir().unwrap();
		let dir = tmp.path().join("db");
		let image = tmp.path().join("image");
		let db = Db::open_or_create(&options(&dir)).unwrap();

		db.commit(tx1.clone()).unwrap();
		db.process_commits().unwrap();
		db.flush_logs().unwrap();
		db.enact_logs().unwrap();
		db.clean_logs().unwrap();
		// tx1 is logged, synced, applied and its log file is reclaimed.

		db.commit(tx1b.clone()).unwrap();
		db.process_commits().unwrap();
		// tx1b is in the log file that is being appended to.

		db.commit(tx2.clone()).unwrap();
		// The log worker gets an I/O error at its k-th file operation, and for ever after.
		let failed = std::thread::scope(|s| {
			s.spawn(|| {
				parity_db::set_number_of_allowed_io_operations(k);
				db.process_commits().is_err()
			})
			.join()
			.unwrap()
		});
		if !failed {
			// k is beyond the number of file operations of the step.
			assert!(k > 10, "the injector never fired");
			break
		}

		// The failure was reported by the failing call. Committed data stays readable.
		assert_eq!(read_state(&db), s2, "reads after the failure, k={k}");

		// Flush worker and commit worker (no fault on their threads) run once more, as they do
		// when `shutdown()` wakes them up.
		let _ = db.flush_logs();
		let enacted = db.enact_logs();

		assert_eq!(read_state(&db), s2, "reads after flush/enact, k={k}");

		copy_dir(&dir, &image);
		drop(db);

		let db = Db::open(&options(&image)).unwrap();
		let s = read_state(&db);
		if s != s1 && s != s1b && s != s2 {
			bad.push((k, enacted.is_err(), s));
		}
	}
	for (k, enact_failed, s) in &bad {
		let s: Vec<String> = s
			.iter()
			.map(|v| v.as_ref().map_or("-".to_string(), |v| format!("{:02x}", v[0])))
			.collect();
		eprintln!(
			"fault at operation {k} of process_commits (enact_logs failed: {enact_failed}): after reopen {}",
			s.join(" ")
		);
	}
	assert!(
		bad.is_empty(),
		"{} fault positions leave a state that is not a prefix of the committed transactions",
		bad.len()
	);
}
