// audit_2: removing a tree whose root key is shorter than 3 bytes panics the log worker when
// debug logging is enabled.
//
// Run (from the crate root, file placed in tests/):
//   CARGO_NET_OFFLINE=true cargo test --offline --features instrumentation --test audit_2
//
// What it shows
//   Keys of a non-uniform multitree column may have any length (InsertTree / get_tree /
//   DereferenceTree all accept the 2-byte key used here). When the removal of the tree is written
//   to the log, `IndexedChangeSet::write_plan` formats a debug message with `&key[0..3]`
//   (src/db.rs:2354), where `key` is the caller's key. `log::debug!` evaluates its arguments as
//   soon as a logger accepts the `Debug` level for target "parity-db" (e.g. RUST_LOG=debug with
//   env_logger), so the slice panics with "range end index 3 out of range for slice of length 2".
//   With background threads the panic kills the log worker without recording a background error:
//   later commits are accepted but never processed, and dropping the handle runs the same code
//   again in `kill_logs` (panic inside drop).
//
// Faulty code
//   src/db.rs:2354   log::debug!(..., &key[0..3], num_removed)
//
// Correct behaviour
//   Enabling logging must not change behaviour: the tree is removed and no panic occurs.
#![cfg(feature = "instrumentation")]
use parity_db::{ColumnOptions, Db, NewNode, NodeRef, Operation, Options};

#[test]
fn dereference_of_short_key_with_debug_logging() {
	env_logger::Builder::new().filter_level(log::LevelFilter::Debug).is_test(true).init();

	let tmp = tempfile::tempdir().unwrap();
	let mut o = Options::with_columns(tmp.path(), 1);
	o.columns[0] = ColumnOptions { multitree: true, ..Default::default() };
	o.with_background_thread = false;
	o.always_flush = true;
	let db = Db::open_or_create(&o).unwrap();

	let key = b"ab".to_vec();
	let leaf = NodeRef::New(NewNode { data: vec![7; 20], children: vec![] });
	let tree = NewNode { data: b"root".to_vec(), children: vec![leaf] };
	db.commit_changes(vec![(0u8, Operation::InsertTree(key.clone(), tree))]).unwrap();
	db.process_commits().unwrap();
	assert!(db.get_tree(0, &key).unwrap().is_some());

	db.commit_changes(vec![(0u8, Operation::DereferenceTree(key.clone()))]).unwrap();
	// Panics here: range end index 3 out of range for slice of length 2.
	db.process_commits().unwrap();
	assert!(db.get_tree(0, &key).unwrap().is_none());
}
