// audit_3: inserting a tree whose (reference counted) root already exists changes the root seen
// by a locked tree reader and leaks every node claimed for the second insertion.
//
// Run (from the crate root, file placed in tests/):
//   CARGO_NET_OFFLINE=true cargo test --offline --features instrumentation --test audit_3
//
// What it shows
//   Column 0 is a multitree column with reference counted roots (ref_counted + preimage). Tree A is
//   inserted and a client locks its tree reader. The same tree (same key, same content) is
//   inserted a second time, which for a reference counted root means "one more reference".
//   * `commit_changes` claims fresh value-table entries for all `NodeRef::New` nodes of the second
//     insertion (src/db.rs:570, HashColumn::claim_tree_values) and publishes
//     `Set(root key -> root data pointing to the fresh entries)` in the commit overlay
//     (src/db.rs:599-604, IndexedChangeSet::copy_to_overlay src/db.rs:2261-2264). The locked
//     reader's `get_root` therefore returns DIFFERENT children addresses while the commit is
//     queued, and the old ones again once it is processed - the root of a locked tree is not
//     stable.
//   * When the commit is processed, `Column::write_existing_value_plan` only increments the
//     reference count of the existing root (src/column.rs:2072-2077) and keeps the old root value,
//     but the `NodeChange::NewValue` entries of the second insertion are written all the same
//     (src/db.rs:2322-2330). Nothing references them and nothing ever frees them: after the two
//     matching DereferenceTree operations the column still holds 2 entries.
//
// Correct behaviour
//   While the lock is held the root (data and children) read through the reader does not change;
//   after Insert, Insert, Dereference, Dereference of the same tree the column is empty again.
#![cfg(feature = "instrumentation")]
use parity_db::{ColumnOptions, Db, NewNode, NodeRef, Operation, Options};

fn pump(db: &Db) {
	for _ in 0..4 {
		db.process_commits().unwrap();
	}
	db.flush_logs().unwrap();
	db.enact_logs().unwrap();
	db.clean_logs().unwrap();
}

#[test]
fn reinserting_a_reference_counted_tree() {
	let tmp = tempfile::tempdir().unwrap();
	let mut o = Options::with_columns(tmp.path(), 1);
	o.columns[0] = ColumnOptions {
		multitree: true,
		ref_counted: true,
		preimage: true,
		..Default::default()
	};
	o.with_background_thread = false;
	o.always_flush = true;
	let db = Db::open_or_create(&o).unwrap();

	let key = vec![1u8; 32];
	let leaf = |d: u8| NodeRef::New(NewNode { data: vec![d; 20], children: vec![] });
	let tree = || NewNode { data: b"rootA".to_vec(), children: vec![leaf(1), leaf(2)] };

	db.commit_changes(vec![(0u8, Operation::InsertTree(key.clone(), tree()))]).unwrap();
	pump(&db);
	assert_eq!(db.get_num_column_value_entries(0).unwrap(), 3);

	let mut failures = Vec::new();
	{
		let reader = db.get_tree(0, &key).unwrap().unwrap();
		let guard = reader.read();
		let before = guard.get_root().unwrap().unwrap();

		// Second reference to the same tree.
		db.commit_changes(vec![(0u8, Operation::InsertTree(key.clone(), tree()))]).unwrap();
		let queued = guard.get_root().unwrap().unwrap();
		if queued != before {
			failures.push(format!(
				"root changed under the read lock: {:?} -> {:?} (commit queued)",
				before, queued
			));
		}
		pump(&db);
		let after = guard.get_root().unwrap().unwrap();
		if after != queued {
			failures.push(format!(
				"root changed under the read lock: {:?} -> {:?} (commit processed)",
				queued, after
			));
		}
	}

	// Two references, two dereferences.
	db.commit_changes(vec![(0u8, Operation::DereferenceTree(key.clone()))]).unwrap();
	pump(&db);
	assert!(db.get_tree(0, &key).unwrap().is_some(), "one reference left");
	db.commit_changes(vec![(0u8, Operation::DereferenceTree(key.clone()))]).unwrap();
	pump(&db);
	assert!(db.get_tree(0, &key).unwrap().is_none());
	let left = db.get_num_column_value_entries(0).unwrap();
	if left != 0 {
		failures.push(format!("{} value-table entries leaked after the tree is gone", left));
	}
	assert!(failures.is_empty(), "{:#?}", failures);
}
