// audit_4: a tree that reuses nodes of a LOCKED tree is corrupted when the dereference of the
// locked tree is committed by another thread while the insertion is inside `commit_changes`.
//
// Run (from the crate root, file placed in tests/):
//   CARGO_NET_OFFLINE=true cargo test --offline --features instrumentation --test audit_4
//
// What it shows
//   The writer follows the documented protocol: it locks the tree reader of A, reads A's nodes,
//   commits `InsertTree(B)` whose root references one of A's nodes (`NodeRef::Existing`) and only
//   then releases the lock. A pruner thread commits `DereferenceTree(A)` concurrently.
//   `commit_changes` decides whether the new commit "uses" a tree that is about to be removed by
//   looking at `to_dereference` at the moment the InsertTree operation is converted
//   (src/db.rs:572-597) - but the commit only enters the queue later, in `commit_raw`
//   (src/db.rs:681/685). If the pruner's commit lands in between, the queue is
//   [Dereference(A), Insert(B)] and Insert(B) carries no `used_trees` mark. As soon as the writer
//   releases its lock, `process_commits` (src/db.rs:849-887) sees neither a lock nor a later user
//   and removes A together with the node B references. Processing Insert(B) then stores a root
//   that points to a freed entry (and "increments" the reference count of a free slot).
//   The window is widened here by putting many plain `Set` operations after the InsertTree in
//   the same transaction (each one hashes its key), so the interleaving is hit practically every
//   time; the processing itself is done with the stepping API and is deterministic.
//   Had the pruner committed a moment earlier (before the writer's commit_changes call, with the
//   lock equally held) B would have been kept valid, so validity depends on a race inside
//   commit_changes. This differs from the known problem of a reader that is locked AFTER the
//   dereference was submitted: here the lock is held before, during and after both commits.
//
// Faulty code
//   src/db.rs:572-597 (check of to_dereference / reader lock) is not atomic with
//   src/db.rs:685-735 (commit_raw: insertion into the queue), nor with src/db.rs:640-650
//   (registration of the dereference) / its commit_raw.
//
// Correct behaviour
//   While the writer holds the read lock of A, a tree inserted by it that reuses nodes of A stays
//   valid whatever the interleaving with the pruner: after everything is processed B's root and
//   the shared node are readable.
#![cfg(feature = "instrumentation")]
use parity_db::{ColumnOptions, Db, NewNode, NodeRef, Operation, Options};
use std::sync::{
	atomic::{AtomicBool, Ordering},
	Arc,
};

fn pump(db: &Db) {
	for _ in 0..6 {
		db.process_commits().unwrap();
	}
	db.flush_logs().unwrap();
	db.enact_logs().unwrap();
	db.clean_logs().unwrap();
}

/// Returns Ok(true) when the racy interleaving was hit and B was found valid, Ok(false) when the
/// interleaving was not hit (pruner too early / too late), Err(description) when B is broken.
fn attempt(delay_ms: u64) -> Result<bool, String> {
	let tmp = tempfile::tempdir().unwrap();
	let mut o = Options::with_columns(tmp.path(), 2);
	o.columns[0] =
		ColumnOptions { multitree: true, allow_direct_node_access: true, ..Default::default() };
	o.with_background_thread = false;
	o.always_flush = true;
	let db = Arc::new(Db::open_or_create(&o).unwrap());

	let key_a = vec![1u8; 32];
	let key_b = vec![2u8; 32];
	let leaf = |d: u8| NodeRef::New(NewNode { data: vec![d; 20], children: vec![] });
	let tree_a = NewNode { data: b"rootA".to_vec(), children: vec![leaf(1), leaf(2)] };
	db.commit_changes(vec![(0u8, Operation::InsertTree(key_a.clone(), tree_a))]).unwrap();
	pump(&db);

	let reader = db.get_tree(0, &key_a).unwrap().unwrap();
	let guard = reader.read();
	let (_, children_a) = guard.get_root().unwrap().unwrap();
	let shared = children_a[0];
	let shared_data = guard.get_node(shared).unwrap().unwrap().0;

	let go = Arc::new(AtomicBool::new(false));
	let pruner = {
		let (db, go, key_a) = (db.clone(), go.clone(), key_a.clone());
		std::thread::spawn(move || {
			while !go.load(Ordering::SeqCst) {
				std::hint::spin_loop();
			}
			std::thread::sleep(std::time::Duration::from_millis(delay_ms));
			db.commit_changes(vec![(0u8, Operation::DereferenceTree(key_a))]).unwrap();
		})
	};

	let tree_b = NewNode { data: b"rootB".to_vec(), children: vec![NodeRef::Existing(shared), leaf(3)] };
	let mut tx = vec![(0u8, Operation::InsertTree(key_b.clone(), tree_b))];
	for i in 0..300_000u32 {
		tx.push((1u8, Operation::Set(i.to_le_bytes().to_vec(), vec![0u8; 1])));
	}
	go.store(true, Ordering::SeqCst);
	db.commit_changes(tx).unwrap();
	pruner.join().unwrap();
	// Both commits have returned; the lock was held all the time. Release it now.
	drop(guard);
	drop(reader);

	pump(&db);

	if db.get_root(0, &key_a).unwrap().is_some() {
		// The dereference was queued behind the insertion and postponed/processed normally, or
		// not processed: not the interleaving we are after.
		return Err("tree A was not removed".into())
	}
	let root_b = db.get_root(0, &key_b).map_err(|e| format!("get_root(B): {e}"))?;
	let (_, children_b) = root_b.ok_or("root of B missing")?;
	assert_eq!(children_b[0], shared);
	match db.get_node(0, shared) {
		Ok(Some((data, _))) if data == shared_data => {},
		other =>
			return Err(format!(
				"node {shared} shared by A and B is gone/damaged after A was removed: {:?}",
				other
			)),
	}
	// B valid. Was the interleaving hit? If the dereference had been queued after the insertion
	// this is simply the normal order.
	Ok(true)
}

#[test]
fn tree_reusing_nodes_of_locked_tree_survives_concurrent_dereference() {
	let mut broken = Vec::new();
	for delay in [10u64, 20, 40] {
		if let Err(e) = attempt(delay) {
			broken.push(format!("pruner delay {delay} ms: {e}"));
		}
	}
	assert!(broken.is_empty(), "{:#?}", broken);
}
