// audit_1: a postponed tree removal LOSES the btree-column writes of its transaction.
//
// Run (from the crate root, file placed in tests/):
//   CARGO_NET_OFFLINE=true cargo test --offline --features instrumentation --test audit_1
//
// What it shows
//   Transaction T1 = { DereferenceTree(A) in multitree column 0,  Set(k1 -> v1) in btree column 1 }
//   is committed while a client holds the read lock of the tree reader of A. A second, completely
//   unrelated transaction T2 = { Set(k2 -> v2) in btree column 1 } is committed after it.
//   When the log worker reaches T1 it has to postpone it (the tree is locked). Because the queue is
//   not empty, `DbInner::defer_commit` gives T1 a new commit id, copies it into the commit overlay
//   under the new id and then removes the overlay entries of the old id with
//   `BTreeChangeSet::clean_overlay`. That function (src/btree/mod.rs:449-459) takes `&mut self` and
//   DRAINS `self.changes` (it was written for the end of `process_commits`, where the change set is
//   thrown away afterwards). The re-queued T1 therefore has an empty btree change set: when the
//   lock is released and T1 is finally processed, the tree is removed but `k1 -> v1` is never
//   written to the log / the btree. The overlay entry (new id) is never removed either, so the
//   running process keeps answering `get(k1) == v1` from memory, which hides the loss until the
//   database is reopened (and leaks the overlay entry).
//
// Faulty code
//   src/db.rs:784-786 (defer_commit calls the draining clean_overlay on a commit that is re-queued)
//   src/btree/mod.rs:449-459 (BTreeChangeSet::clean_overlay drains the change set)
//
// Correct behaviour
//   Postponing the removal must not change the outcome of the other writes of the transaction:
//   after the lock is released and everything is processed, k1 == v1 and k2 == v2, in the running
//   process and after a reopen. T1 and T2 touch different keys, so this holds for every
//   serialisation order (this is NOT the known "re-queued behind later transactions" ordering
//   problem).
#![cfg(feature = "instrumentation")]
use parity_db::{ColumnOptions, Db, NewNode, NodeRef, Operation, Options};

fn options(path: &std::path::Path) -> Options {
	let mut o = Options::with_columns(path, 2);
	o.columns[0] = ColumnOptions { multitree: true, ..Default::default() };
	o.columns[1] = ColumnOptions { btree_index: true, ..Default::default() };
	o.with_background_thread = false;
	o.always_flush = true;
	o
}

fn pump(db: &Db) {
	// Db::process_commits handles one queued commit per call.
	for _ in 0..8 {
		db.process_commits().unwrap();
	}
	db.flush_logs().unwrap();
	db.enact_logs().unwrap();
	db.clean_logs().unwrap();
}

#[test]
fn deferred_dereference_keeps_its_btree_writes() {
	let tmp = tempfile::tempdir().unwrap();
	let opts = options(tmp.path());
	let key_a = vec![1u8; 32];
	{
		let db = Db::open_or_create(&opts).unwrap();
		let leaf = |d: u8| NodeRef::New(NewNode { data: vec![d; 20], children: vec![] });
		let tree = NewNode { data: b"rootA".to_vec(), children: vec![leaf(1), leaf(2)] };
		db.commit_changes(vec![(0u8, Operation::InsertTree(key_a.clone(), tree))]).unwrap();
		pump(&db);

		let reader = db.get_tree(0, &key_a).unwrap().unwrap();
		let guard = reader.read();
		assert!(guard.get_root().unwrap().is_some());

		// T1: prune the tree and record that fact in a btree column.
		db.commit_changes(vec![
			(0u8, Operation::DereferenceTree(key_a.clone())),
			(1u8, Operation::Set(b"k1".to_vec(), b"v1".to_vec())),
		])
		.unwrap();
		// T2: unrelated later write.
		db.commit_changes(vec![(1u8, Operation::Set(b"k2".to_vec(), b"v2".to_vec()))]).unwrap();

		// The worker runs while the tree is locked: T1 is postponed, T2 goes through.
		pump(&db);
		assert!(guard.get_root().unwrap().is_some(), "locked tree must stay readable");

		// Release the lock: the postponed removal completes.
		drop(guard);
		drop(reader);
		pump(&db);
		assert!(db.get_tree(0, &key_a).unwrap().is_none(), "postponed removal must complete");
		assert_eq!(db.get(1, b"k2").unwrap(), Some(b"v2".to_vec()));
		// Still answered from the (leaked) commit overlay entry:
		assert_eq!(db.get(1, b"k1").unwrap(), Some(b"v1".to_vec()));
	}
	// Clean shutdown above; reopen.
	let db = Db::open(&opts).unwrap();
	assert!(db.get_tree(0, &key_a).unwrap().is_none());
	assert_eq!(db.get(1, b"k2").unwrap(), Some(b"v2".to_vec()));
	assert_eq!(
		db.get(1, b"k1").unwrap(),
		Some(b"v1".to_vec()),
		"the btree write of the postponed transaction was lost"
	);
}
