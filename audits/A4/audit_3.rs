// audit_3: reset_column / clear_column / drop_last_column that stop part-way (I/O error, or the
// process is killed) leave the affected column half deleted: its index (or btree root) still
// points into value tables whose files are gone.  The database then opens without complaint and
// reads of that column PANIC (`Option::unwrap()` on `None` in src/file.rs) or return part of the
// old content; a commit to it can panic the background writer.
//
// Run: CARGO_NET_OFFLINE=true cargo test --offline --features instrumentation --test audit_3 -- --nocapture
//
// Faulty code:
//   src/column.rs:382-404  Column::drop_files deletes the files of the column one by one in
//                          directory order, with nothing that marks the column as "being removed";
//                          index_CC_* / the table holding the btree root may be deleted after the
//                          value tables they refer to.
//   src/db.rs:1783-1812    drop_last_column / reset_column: files first, metadata afterwards, no
//                          marker; src/migration.rs:173 clear_column likewise.
//   src/file.rs:145,155    read of a table without file: `map.as_ref().unwrap()` -> panic.
//
// The test uses the library's own fault injector: after n file operations every further operation
// of the calling thread fails, which is what a kill at that point looks like on disk.
//
// Correct behaviour: after a failed / interrupted administration call the database opens, every
// other column is unchanged and the affected column is either unchanged or empty (never a state
// in which reading it panics, errors or yields a part of the old content).

use parity_db::{ColumnOptions, Db, Options};
use std::path::Path;
use tempfile::tempdir;

const N: u32 = 60;

fn opts(path: &Path) -> Options {
	let mut o = Options::with_columns(path, 3);
	o.columns[1] = ColumnOptions { btree_index: true, ..Default::default() };
	o
}

fn key(i: u32) -> Vec<u8> {
	format!("key-{i:06}").into_bytes()
}

fn value(i: u32) -> Vec<u8> {
	// several size tiers, so that several table files exist
	let len = [8usize, 40, 70, 200, 700, 3000][(i % 6) as usize];
	vec![i as u8; len]
}

fn copy_dir(from: &Path, to: &Path) {
	let _ = std::fs::remove_dir_all(to);
	std::fs::create_dir_all(to).unwrap();
	for e in std::fs::read_dir(from).unwrap() {
		let e = e.unwrap();
		std::fs::copy(e.path(), to.join(e.file_name())).unwrap();
	}
}

/// Number of keys of `col` that are present with the right value; Err(text) on error / panic.
fn present(db: &Db, col: u8) -> Result<u32, String> {
	let r = std::panic::catch_unwind(std::panic::AssertUnwindSafe(|| {
		let mut n = 0;
		for i in 0..N {
			match db.get(col, &key(i)) {
				Ok(Some(v)) if v == value(i) => n += 1,
				Ok(Some(_)) => return Err(format!("key {i}: wrong value")),
				Ok(None) => (),
				Err(e) => return Err(format!("key {i}: error {e:?}")),
			}
		}
		Ok(n)
	}));
	match r {
		Ok(r) => r,
		Err(p) => Err(format!(
			"PANIC: {}",
			p.downcast_ref::<String>().cloned().or(p.downcast_ref::<&str>().map(|s| s.to_string())).unwrap_or_default()
		)),
	}
}

fn run(op_name: &str, col: u8, op: impl Fn(&Path) -> parity_db::Result<()>) -> Vec<String> {
	let root = tempdir().unwrap();
	let src = root.path().join("src");
	{
		let db = Db::open_or_create(&opts(&src)).unwrap();
		for c in 0..3u8 {
			db.commit((0..N).map(|i| (c, key(i), Some(value(i))))).unwrap();
		}
	}
	let work = root.path().join("work");
	let mut bad = Vec::new();
	let attempt = |n: usize| {
		copy_dir(&src, &work);
		parity_db::set_number_of_allowed_io_operations(n);
		let r = op(&work);
		parity_db::set_number_of_allowed_io_operations(usize::MAX);
		r.is_ok()
	};
	// Smallest number of file operations with which the call completes (monotone: bisect).
	let (mut lo, mut hi) = (0usize, 1usize << 14);
	assert!(attempt(hi));
	while lo + 1 < hi {
		let mid = (lo + hi) / 2;
		if attempt(mid) {
			hi = mid
		} else {
			lo = mid
		}
	}
	let total = hi;
	// The call opens and closes the database first; the file removal is the tail. Look at the
	// last 40 stopping points.
	for n in total.saturating_sub(40)..total {
		assert!(!attempt(n));
		let o = opts(&work);
		match Db::open(&o) {
			Err(e) => bad.push(format!("{op_name} stopped after {n} file operations: open fails: {e:?}")),
			Ok(db) =>
				for c in 0..3u8 {
					match present(&db, c) {
						Ok(k) if k == N => (),
						Ok(0) if c == col => (),
						Ok(k) => bad.push(format!(
							"{op_name} stopped after {n} file operations: column {c} has {k} of {N} keys"
						)),
						Err(e) => bad.push(format!(
							"{op_name} stopped after {n} file operations: reading column {c}: {e}"
						)),
					}
				},
		}
	}
	let n = total;
	println!("{op_name}: completes with {n} file operations, {} bad stopping points", bad.len());
	for b in bad.iter().take(12) {
		println!("  {b}");
	}
	bad
}

#[test]
fn interrupted_admin_calls() {
	let prev = std::panic::take_hook();
	std::panic::set_hook(Box::new(|_| {}));
	let mut bad = Vec::new();
	bad.extend(run("reset_column(hash 2)", 2, |p| Db::reset_column(&mut opts(p), 2, None)));
	bad.extend(run("reset_column(btree 1)", 1, |p| Db::reset_column(&mut opts(p), 1, None)));
	bad.extend(run("clear_column(hash 0)", 0, |p| parity_db::clear_column(p, 0)));
	bad.extend(run("drop_last_column(hash 2)", 2, |p| Db::drop_last_column(&mut opts(p))));
	std::panic::set_hook(prev);
	assert!(bad.is_empty(), "{} inconsistent stopping points, first: {}", bad.len(), bad[0]);
}
