use parity_db::{ColumnOptions, CompressionType, Db, Options};
use tempfile::tempdir;
fn all() -> Vec<ColumnOptions> {
	let mut v = Vec::new();
	for bits in 0..128u32 {
		for comp in [CompressionType::NoCompression, CompressionType::Lz4, CompressionType::Snappy] {
			v.push(ColumnOptions {
				preimage: bits & 1 != 0,
				uniform: bits & 2 != 0,
				ref_counted: bits & 4 != 0,
				btree_index: bits & 8 != 0,
				multitree: bits & 16 != 0,
				append_only: bits & 32 != 0,
				allow_direct_node_access: bits & 64 != 0,
				compression: comp,
			});
		}
	}
	v
}
#[test]
fn round_trip() {
	let dir = tempdir().unwrap();
	let cols = all();
	for chunk in cols.chunks(200) {
		let mut o = Options::with_columns(dir.path(), 0);
		o.columns = chunk.to_vec();
		o.write_metadata(dir.path(), &[3; 32]).unwrap();
		let m = Options::load_metadata(dir.path()).unwrap().unwrap();
		assert_eq!(m.columns, chunk);
		assert_eq!(m.salt, [3; 32]);
	}
}
#[test]
fn mismatch_pairs_do_not_modify() {
	// stored: a few valid kinds; requested: every valid combination
	let cols: Vec<_> = all().into_iter().filter(|c| c.is_valid()).collect();
	let stored_set: Vec<_> = cols.iter().step_by(37).cloned().collect();
	for stored in stored_set {
		let dir = tempdir().unwrap();
		let mut o = Options::with_columns(dir.path(), 2);
		o.columns[1] = stored.clone();
		{
			let db = Db::open_or_create(&o).unwrap();
			if !stored.multitree {
				db.commit(vec![(1u8, vec![9u8; 32], Some(vec![1u8; 100]))]).unwrap();
			}
		}
		let snap = |p: &std::path::Path| {
			let mut v: Vec<_> = std::fs::read_dir(p).unwrap().map(|e| { let e = e.unwrap(); (e.file_name(), std::fs::read(e.path()).unwrap()) }).collect();
			v.sort();
			v
		};
		let before = snap(dir.path());
		for req in cols.iter() {
			let mut r = o.clone();
			r.columns[1] = req.clone();
			let res = Db::open(&r);
			if *req == stored { drop(res.unwrap()); continue }
			assert!(res.is_err(), "stored {stored:?} requested {req:?}");
			let res = Db::open_or_create(&r);
			assert!(res.is_err());
			assert!(Db::open_read_only(&r).is_err());
		}
		for n in [0usize, 1, 3] {
			let mut r = o.clone();
			r.columns.truncate(n.min(2));
			while r.columns.len() < n { r.columns.push(Default::default()); }
			assert!(Db::open(&r).is_err());
			assert!(Db::open_or_create(&r).is_err());
		}
		let after = snap(dir.path());
		// stats.txt is rewritten at each successful close
		let f = |v: Vec<(std::ffi::OsString, Vec<u8>)>| v.into_iter().filter(|(n, _)| n != "stats.txt").collect::<Vec<_>>();
		assert!(f(before) == f(after), "files changed for stored {stored:?}");
	}
}
