// audit_2: the column administration calls stamp the metadata with the CURRENT format version
// without converting anything, so on a database of an older, still supported format version
// (4..=7) every other column silently changes its key hashing / entry layout and its content
// becomes unreachable.
//
// Run: CARGO_NET_OFFLINE=true cargo test --offline --features instrumentation --test audit_2
//
// Faulty code:
//   src/db.rs:1776  add_column writes `Some(CURRENT_VERSION)`
//   src/db.rs:1792  drop_last_column -> Options::write_metadata -> version None -> CURRENT_VERSION
//   src/db.rs:1808  reset_column      -> the same
//   (src/options.rs:190-192, 217: `version.unwrap_or(CURRENT_VERSION)`)
// The version decides how keys of `uniform` columns are hashed (src/column.rs:171-206: <=5 plain,
// 6..7 xor with salt, 8 siphash) and how multi-part values are decoded (src/table.rs:267-270,
// 545-554).  Db::open accepts versions 4..=8 (src/options.rs:15, 304) and keeps working in the
// stored version, so such databases are in normal use.
//
// Correct behaviour: an administration call keeps the stored version (or refuses to run on an
// older format); the other columns' content stays exactly as it was.

use parity_db::{ColumnOptions, Db, Options};
use tempfile::tempdir;

fn key(i: u32) -> Vec<u8> {
	let mut k = vec![0u8; 32];
	// "uniform" keys: spread the bits a little.
	let h = (i as u64 + 1).wrapping_mul(0x9E37_79B9_7F4A_7C15);
	k[0..8].copy_from_slice(&h.to_be_bytes());
	k[8..16].copy_from_slice(&h.rotate_left(17).to_be_bytes());
	k[28..32].copy_from_slice(&i.to_be_bytes());
	k
}

fn make_v7(path: &std::path::Path) -> Options {
	let mut options = Options::with_columns(path, 2);
	options.columns[0].uniform = true;
	// A version 7 database: exactly what parity-db 0.4.x before the version 8 bump created.
	std::fs::create_dir_all(path).unwrap();
	options.write_metadata_with_version(path, &[0x5a; 32], Some(7)).unwrap();
	let db = Db::open(&options).unwrap();
	db.commit((0..100u32).map(|i| (0u8, key(i), Some(vec![i as u8; 10])))).unwrap();
	drop(db);
	// closing and opening again keeps everything.
	assert_eq!(count_present(&options), 100);
	assert_eq!(Options::load_metadata(path).unwrap().unwrap().version, 7);
	options
}

fn count_present(options: &Options) -> usize {
	let db = Db::open(options).unwrap();
	(0..100u32).filter(|i| db.get(0, &key(*i)).unwrap() == Some(vec![*i as u8; 10])).count()
}

#[test]
fn add_column_on_older_version() {
	let dir = tempdir().unwrap();
	let mut options = make_v7(dir.path());
	Db::add_column(&mut options, ColumnOptions::default()).unwrap();
	assert_eq!(count_present(&options), 100, "column 0 lost keys by add_column");
}

#[test]
fn drop_last_column_on_older_version() {
	let dir = tempdir().unwrap();
	let mut options = make_v7(dir.path());
	Db::drop_last_column(&mut options).unwrap();
	assert_eq!(count_present(&options), 100, "column 0 lost keys by drop_last_column");
}

#[test]
fn reset_column_on_older_version() {
	let dir = tempdir().unwrap();
	let mut options = make_v7(dir.path());
	let mut new = ColumnOptions::default();
	new.btree_index = true;
	Db::reset_column(&mut options, 1, Some(new)).unwrap();
	assert_eq!(count_present(&options), 100, "column 0 lost keys by reset_column");
}
