// audit_1: Options.salt that differs from the stored salt is not checked, is used
// inconsistently, and the column administration calls write it over the stored salt, which makes
// the content of every other hash column unreachable.
//
// Run: CARGO_NET_OFFLINE=true cargo test --offline --features instrumentation --test audit_1
//
// Faulty code:
//   src/db.rs:229-232  DbInner::open keeps a caller supplied `options.salt` even though the
//                      database already has a (different) salt in its metadata; columns hash with
//                      `metadata.salt` (src/column.rs:481) while commits hash with `options.salt`
//                      (src/db.rs:2222).
//   src/db.rs:1764-1769 precheck_column_operation returns `db.inner.options.salt`, i.e. the
//                      caller's salt, and add_column / drop_last_column / reset_column
//                      (src/db.rs:1776, 1792, 1808) write it into the metadata file.
//
// Correct behaviour: the administration calls must leave the stored salt alone (every other
// column's content stays exactly as it was); opening with a salt that disagrees with the stored
// one must either fail or consistently use the stored salt.

use parity_db::{ColumnOptions, Db, Options};
use tempfile::tempdir;

fn key(i: u32) -> Vec<u8> {
	format!("key-{i:08}").into_bytes()
}

fn fill(path: &std::path::Path) -> Options {
	// Database created with a random salt (Options.salt = None), as every user does.
	let options = Options::with_columns(path, 2);
	let db = Db::open_or_create(&options).unwrap();
	db.commit((0..100u32).map(|i| (0u8, key(i), Some(vec![i as u8; 10])))).unwrap();
	drop(db);
	options
}

fn check_col0(options: &Options) {
	let db = Db::open(options).unwrap();
	let mut missing = 0;
	for i in 0..100u32 {
		if db.get(0, &key(i)).unwrap() != Some(vec![i as u8; 10]) {
			missing += 1;
		}
	}
	assert_eq!(missing, 0, "{missing} of 100 keys of column 0 are gone");
}

#[test]
fn add_column_with_other_salt_loses_other_columns() {
	let dir = tempdir().unwrap();
	let mut options = fill(dir.path());
	let stored = Options::load_metadata(dir.path()).unwrap().unwrap().salt;

	// The caller passes a salt in the options (documented as "override", and accepted by open).
	options.salt = Some([7u8; 32]);
	assert_ne!(stored, [7u8; 32]);
	// Opening with it succeeds and column 0 is readable (columns use the stored salt).
	check_col0(&options);

	Db::add_column(&mut options, ColumnOptions::default()).unwrap();

	let after = Options::load_metadata(dir.path()).unwrap().unwrap().salt;
	// The content of column 0 must be exactly as it was, whatever salt the caller opens with.
	let mut plain = options.clone();
	plain.salt = None;
	check_col0(&plain);
	assert_eq!(stored, after, "add_column replaced the stored salt");
}

#[test]
fn reset_column_with_other_salt_loses_other_columns() {
	let dir = tempdir().unwrap();
	let mut options = fill(dir.path());
	options.salt = Some([7u8; 32]);
	let mut new = ColumnOptions::default();
	new.btree_index = true;
	Db::reset_column(&mut options, 1, Some(new)).unwrap();
	options.salt = None;
	check_col0(&options);
}

#[test]
fn drop_last_column_with_other_salt_loses_other_columns() {
	let dir = tempdir().unwrap();
	let mut options = fill(dir.path());
	options.salt = Some([7u8; 32]);
	Db::drop_last_column(&mut options).unwrap();
	options.salt = None;
	check_col0(&options);
}

#[test]
fn open_with_other_salt_writes_unreadable_data() {
	// Not an administration call, same root cause: a commit made through a handle opened with a
	// salt different from the stored one cannot be read back through the same handle.
	let dir = tempdir().unwrap();
	let mut options = fill(dir.path());
	options.salt = Some([7u8; 32]);
	let db = Db::open(&options).unwrap();
	db.commit(vec![(0u8, b"fresh".to_vec(), Some(b"value".to_vec()))]).unwrap();
	assert_eq!(db.get(0, b"fresh").unwrap(), Some(b"value".to_vec()));
}
