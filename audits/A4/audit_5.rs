// audit_5: Db::add_column accepts a 257th column although column ids are `u8`.  The metadata then
// names 257 columns; the next open succeeds, and "column 256" is a second, independent set of
// table objects over the FILES OF COLUMN 0 (`c as ColId` wraps, src/db.rs:223-224), with
// Db::num_columns() == 1.  Both objects map, flush, reindex and account the same files.
//
// Run: CARGO_NET_OFFLINE=true cargo test --offline --features instrumentation --test audit_5
//
// Faulty code: src/db.rs:1772-1779 (add_column: no limit check), src/db.rs:223-224 and 1640-1642
// (`as ColId` / `as u8` truncation), src/options.rs:234-245 (no limit check on load either).
//
// Correct behaviour: add_column on a database that already has 256 columns fails with
// Error::InvalidConfiguration and does not modify the metadata.

use parity_db::{ColumnOptions, Db, Options};
use tempfile::tempdir;

#[test]
fn add_column_257() {
	let dir = tempdir().unwrap();
	let mut options = Options::with_columns(dir.path(), 255);
	options.columns.push(ColumnOptions::default()); // 256 columns: ids 0..=255
	{
		let db = Db::open_or_create(&options).unwrap();
		db.commit(vec![(0u8, b"k".to_vec(), Some(b"v".to_vec()))]).unwrap();
	}
	let before = std::fs::read(dir.path().join("metadata")).unwrap();
	let r = Db::add_column(&mut options, ColumnOptions::default());
	let after = std::fs::read(dir.path().join("metadata")).unwrap();
	if r.is_ok() {
		let db = Db::open(&options).unwrap();
		println!("257 columns opened, num_columns() = {}", db.num_columns());
	}
	assert!(r.is_err(), "add_column created column number 257");
	assert_eq!(before, after);
}
