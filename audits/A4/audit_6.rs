// audit_6: Db::open (no create) on a directory that holds no database fails with
// DatabaseNotFound, but leaves a `lock` file behind: "opening a missing database without create
// fails without creating anything" does not hold.  Same for Db::open_read_only.
//
// Run: CARGO_NET_OFFLINE=true cargo test --offline --features instrumentation --test audit_6
//
// Faulty code: src/db.rs:208-217  the lock file is created (`create(true)`) before the metadata
// is looked at; on the DatabaseNotFound path it is not removed.
//
// Correct behaviour: check for the metadata file first (or open the lock file without
// `create` unless opening_mode == Create).

use parity_db::{Db, Options};
use tempfile::tempdir;

#[test]
fn open_missing_creates_nothing() {
	let dir = tempdir().unwrap();
	let options = Options::with_columns(dir.path(), 1);
	assert!(matches!(Db::open(&options), Err(parity_db::Error::DatabaseNotFound)));
	let left: Vec<_> = std::fs::read_dir(dir.path()).unwrap().map(|e| e.unwrap().file_name()).collect();
	assert!(left.is_empty(), "open created {left:?}");
}

#[test]
fn open_read_only_missing_creates_nothing() {
	let dir = tempdir().unwrap();
	let options = Options::with_columns(dir.path(), 1);
	assert!(Db::open_read_only(&options).is_err());
	let left: Vec<_> = std::fs::read_dir(dir.path()).unwrap().map(|e| e.unwrap().file_name()).collect();
	assert!(left.is_empty(), "open_read_only created {left:?}");
}
