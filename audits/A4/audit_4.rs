// audit_4: a damaged metadata file makes Db::open PANIC instead of returning an error.
//
// Run: CARGO_NET_OFFLINE=true cargo test --offline --features instrumentation --test audit_4
//
// Faulty code:
//   src/options.rs:148 + src/compress.rs:44-52  `compression.into()` on the number read from the
//                      file: `From<u8> for CompressionType` panics ("Unknown compression.") for
//                      anything but 0, 1, 2.
//   src/options.rs:295-296  `s.copy_from_slice(&salt_slice)` panics when the hex string in the
//                      `salt=` line does not decode to exactly 32 bytes.
//
// Correct behaviour: Err(Error::Corruption(..)) (as for a bad version string), no panic; all other
// malformed fields of the file are already reported that way.

use parity_db::{Db, Options};
use tempfile::tempdir;

fn damaged(edit: impl Fn(&str) -> String) -> Result<bool, String> {
	let dir = tempdir().unwrap();
	let options = Options::with_columns(dir.path(), 2);
	drop(Db::open_or_create(&options).unwrap());
	let meta = dir.path().join("metadata");
	let text = std::fs::read_to_string(&meta).unwrap();
	std::fs::write(&meta, edit(&text)).unwrap();
	std::panic::catch_unwind(|| Db::open(&options).is_ok())
		.map_err(|p| p.downcast_ref::<String>().cloned().or(p.downcast_ref::<&str>().map(|s| s.to_string())).unwrap_or_default())
}

#[test]
fn unknown_compression_number() {
	// one flipped bit in the digit: '0' (0x30) -> '8' (0x38)
	let r = damaged(|t| t.replacen("compression: 0", "compression: 8", 1));
	assert_eq!(r, Ok(false), "open must fail with an error, not panic");
}

#[test]
fn short_salt() {
	// the salt line lost its last two hex digits
	let r = damaged(|t| {
		t.lines()
			.map(|l| if l.starts_with("salt=") { l[..l.len() - 2].to_string() } else { l.to_string() })
			.collect::<Vec<_>>()
			.join("\n")
	});
	assert_eq!(r, Ok(false), "open must fail with an error, not panic");
}
