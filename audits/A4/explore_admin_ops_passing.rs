// exploratory: administration calls on images with pending logs
use parity_db::{ColumnOptions, CompressionType, Db, NewNode, NodeRef, Operation, Options};
use std::collections::BTreeMap;
use std::path::Path;
use tempfile::tempdir;

const NCOL: usize = 7;
const TREE: usize = 6;

fn columns() -> Vec<ColumnOptions> {
	let mut c = vec![ColumnOptions::default(); NCOL];
	c[1].uniform = true;
	c[2].preimage = true;
	c[2].ref_counted = true;
	c[3].btree_index = true;
	c[4].btree_index = true;
	c[4].compression = CompressionType::Lz4;
	c[5].compression = CompressionType::Snappy;
	c[6].multitree = true;
	c[6].allow_direct_node_access = true;
	c
}

fn opts(path: &Path, stepping: bool) -> Options {
	let mut o = Options::with_columns(path, NCOL as u8);
	o.columns = columns();
	if stepping {
		o.with_background_thread = false;
		o.always_flush = true;
	}
	o
}

fn key(col: usize, i: u32) -> Vec<u8> {
	let mut k = vec![0u8; 32];
	let h = ((i as u64 + 1) * 31 + col as u64).wrapping_mul(0x9E37_79B9_7F4A_7C15);
	k[0..8].copy_from_slice(&h.to_be_bytes());
	k[8..16].copy_from_slice(&h.rotate_left(23).to_be_bytes());
	k[24..28].copy_from_slice(&(col as u32).to_be_bytes());
	k[28..32].copy_from_slice(&i.to_be_bytes());
	k
}

fn value(col: usize, i: u32, gen: u8) -> Vec<u8> {
	let len = match i % 7 {
		0 => 5,
		1 => 40,
		2 => 300,
		3 => 5000,
		4 => 40000,
		5 => 1,
		_ => 100,
	};
	(0..len).map(|j| (j as u32 / 16 + i + col as u32 + gen as u32) as u8).collect()
}

type Model = Vec<BTreeMap<Vec<u8>, Vec<u8>>>;

fn batch(model: &mut Model, range: std::ops::Range<u32>, gen: u8, del: bool) -> Vec<(u8, Operation<Vec<u8>, Vec<u8>>)> {
	let mut tx = Vec::new();
	for col in 0..NCOL {
		for i in range.clone() {
			let k = key(col, i);
			if col == TREE {
				if model[col].contains_key(&k) {
					if del && i % 3 == 0 {
						tx.push((col as u8, Operation::DereferenceTree(k.clone())));
						model[col].remove(&k);
					}
					continue
				}
				let v = value(col, i, gen);
				let node = NewNode {
					data: v.clone(),
					children: vec![NodeRef::New(NewNode { data: value(col, i + 1, gen), children: vec![] })],
				};
				tx.push((col as u8, Operation::InsertTree(k.clone(), node)));
				model[col].insert(k, v);
				continue
			}
			if del && i % 3 == 0 && model[col].contains_key(&k) {
				tx.push((col as u8, Operation::Dereference(k.clone())));
				model[col].remove(&k);
			} else {
				if col == 2 && model[col].contains_key(&k) {
					continue // ref counted: set again would bump rc
				}
				let v = value(col, i, gen);
				tx.push((col as u8, Operation::Set(k.clone(), v.clone())));
				model[col].insert(k, v);
			}
		}
	}
	tx
}

fn copy_dir(from: &Path, to: &Path) {
	std::fs::create_dir_all(to).unwrap();
	for e in std::fs::read_dir(from).unwrap() {
		let e = e.unwrap();
		if e.file_name() == "lock" {
			continue
		}
		std::fs::copy(e.path(), to.join(e.file_name())).unwrap();
	}
}

fn verify(db: &Db, cols: &[ColumnOptions], model: &Model, what: &str) {
	for (col, m) in model.iter().enumerate() {
		if col >= cols.len() {
			continue
		}
		let c = col as u8;
		let o = &cols[col];
		// probe all keys ever used
		for i in 0..400u32 {
			let k = key(col, i);
			let expect = m.get(&k).cloned();
			if o.multitree {
				let got = db.get_root(c, &k).unwrap().map(|(d, ch)| {
					assert_eq!(ch.len(), 1);
					d
				});
				assert_eq!(got, expect, "{what}: col {col} tree {i}");
			} else {
				let got = db.get(c, &k).unwrap();
				assert_eq!(got.as_ref().map(|v| v.len()), expect.as_ref().map(|v| v.len()), "{what}: col {col} key {i}");
				assert_eq!(got, expect, "{what}: col {col} key {i}");
			}
		}
		if o.btree_index {
			let mut it = db.iter(c).unwrap();
			it.seek_to_first().unwrap();
			let mut n = 0;
			let mut mi = m.iter();
			while let Some((k, v)) = it.next().unwrap() {
				let e = mi.next().unwrap_or_else(|| panic!("{what}: col {col} extra key"));
				assert_eq!((&k, &v), (e.0, e.1), "{what}: col {col} iter");
				n += 1;
			}
			assert_eq!(n, m.len(), "{what}: col {col} iter count");
		} else if !o.multitree {
			let mut n = 0;
			db.iter_column_while(c, |_s| {
				n += 1;
				true
			})
			.unwrap();
			assert_eq!(n, m.len(), "{what}: col {col} value count");
		}
	}
}

fn pipeline(db: &Db) {
	db.process_commits().unwrap();
	db.flush_logs().unwrap();
	db.enact_logs().unwrap();
	db.clean_logs().unwrap();
}

// returns images: (name, dir, model)
fn build_images(root: &Path) -> Vec<(String, std::path::PathBuf, Model)> {
	let src = root.join("src");
	let mut images = Vec::new();
	let mut model: Model = vec![BTreeMap::new(); NCOL];
	let o = opts(&src, true);
	let db = Db::open_or_create(&o).unwrap();
	for r in 0..4u32 {
		let tx = batch(&mut model, r * 50..r * 50 + 50, 0, false);
		db.commit_changes(tx).unwrap();
		pipeline(&db);
	}
	for _ in 0..50 {
		db.process_reindex().unwrap();
		pipeline(&db);
	}
	// image 0: everything settled but handle still open
	let p = root.join("img_settled");
	copy_dir(&src, &p);
	images.push(("settled".to_string(), p, model.clone()));

	// batch B: logged and flushed, not enacted
	let tx = batch(&mut model, 100..300, 1, true);
	db.commit_changes(tx).unwrap();
	db.process_commits().unwrap();
	db.flush_logs().unwrap();
	let p = root.join("img_logged");
	copy_dir(&src, &p);
	images.push(("logged".to_string(), p, model.clone()));

	// enacted, logs not reclaimed, and a second record behind
	db.enact_logs().unwrap();
	let tx = batch(&mut model, 250..400, 2, true);
	db.commit_changes(tx).unwrap();
	db.process_commits().unwrap();
	db.flush_logs().unwrap();
	let p = root.join("img_enacted_plus");
	copy_dir(&src, &p);
	images.push(("enacted_plus".to_string(), p, model.clone()));
	drop(db);
	images
}

#[test]
fn admin_ops_on_images() {
	let root = tempdir().unwrap();
	let images = build_images(root.path());
	let mut n = 0;
	for (name, img, model) in images.iter() {
		// sanity: plain open
		{
			let p = root.path().join("work");
			let _ = std::fs::remove_dir_all(&p);
			copy_dir(img, &p);
			let o = opts(&p, false);
			let db = Db::open(&o).unwrap();
			verify(&db, &o.columns, model, &format!("{name}: plain open"));
		}
		// per column ops
		for col in 0..NCOL {
			for op in 0..3 {
				let p = root.path().join("work");
				let _ = std::fs::remove_dir_all(&p);
				copy_dir(img, &p);
				let mut o = opts(&p, false);
				let mut m = model.clone();
				let what = format!("{name}: op {op} col {col}");
				match op {
					0 => {
						Db::reset_column(&mut o, col as u8, None).unwrap();
					},
					1 => {
						// change kind
						let mut new = ColumnOptions::default();
						new.btree_index = !o.columns[col].btree_index;
						Db::reset_column(&mut o, col as u8, Some(new)).unwrap();
					},
					_ => {
						parity_db::clear_column(&p, col as u8).unwrap();
					},
				}
				m[col].clear();
				let db = Db::open(&o).unwrap();
				verify(&db, &o.columns, &m, &what);
				// the column is usable
				if !o.columns[col].multitree {
					let k = key(col, 7);
					db.commit(vec![(col as u8, k.clone(), Some(b"new".to_vec()))]).unwrap();
					m[col].insert(k, b"new".to_vec());
				}
				drop(db);
				let db = Db::open(&o).unwrap();
				verify(&db, &o.columns, &m, &format!("{what} reopened"));
				n += 1;
			}
		}
		// drop last, then add
		{
			let p = root.path().join("work");
			let _ = std::fs::remove_dir_all(&p);
			copy_dir(img, &p);
			let mut o = opts(&p, false);
			let mut m = model.clone();
			Db::drop_last_column(&mut o).unwrap();
			assert_eq!(o.columns.len(), NCOL - 1);
			m.pop();
			{
				let db = Db::open(&o).unwrap();
				verify(&db, &o.columns, &m, &format!("{name}: drop_last"));
			}
			// old options must now fail and not modify anything
			let old = opts(&p, false);
			assert!(Db::open(&old).is_err());
			Db::drop_last_column(&mut o).unwrap();
			m.pop();
			Db::add_column(&mut o, ColumnOptions::default()).unwrap();
			m.push(BTreeMap::new());
			let mut bt = ColumnOptions::default();
			bt.btree_index = true;
			Db::add_column(&mut o, bt).unwrap();
			m.push(BTreeMap::new());
			{
				let db = Db::open(&o).unwrap();
				verify(&db, &o.columns, &m, &format!("{name}: drop2 add2"));
			}
		}
		// add
		{
			let p = root.path().join("work");
			let _ = std::fs::remove_dir_all(&p);
			copy_dir(img, &p);
			let mut o = opts(&p, false);
			let mut m = model.clone();
			let mut bt = ColumnOptions::default();
			bt.btree_index = true;
			Db::add_column(&mut o, bt).unwrap();
			m.push(BTreeMap::new());
			let db = Db::open(&o).unwrap();
			verify(&db, &o.columns, &m, &format!("{name}: add"));
		}
	}
	println!("{n} cases ok");
}
