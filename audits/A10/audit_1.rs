// audit_1: the btree-column part of a transaction is dropped when that transaction is postponed
// ("deferred") behind later commits.
//
// Run:  CARGO_NET_OFFLINE=true cargo test --offline --features instrumentation --test audit_1
//
// What it shows
// -------------
// A transaction that contains a multitree `DereferenceTree` *and* ordinary changes to a btree
// column is postponed by `DbInner::process_commits` when a reader holds the tree locked. If other
// commits are queued behind it, `DbInner::defer_commit` gives it a new commit id, republishes its
// changes into the commit overlay under the new id and then "cleans the overlay entries of the old
// id" by calling `BTreeChangeSet::clean_overlay` -- which uses `self.changes.drain(..)` and
// therefore EMPTIES the btree change list of the transaction that is about to be re-queued.
//
//   faulty code: src/btree/mod.rs:449-459 (`clean_overlay` drains `self.changes`), as used from
//                src/db.rs:784-786 (`defer_commit`, "Cleanup the commit overlay with old id").
//
// Consequences when the postponed transaction is finally processed:
//   * `write_plan` sees an empty change list: nothing of the btree part is ever logged or written;
//   * `clean_overlay(commit.id)` has nothing to iterate over, so the entries republished under the
//     new id stay in the commit overlay for the lifetime of the handle. They mask the loss for
//     point reads and for the iterator as long as the handle lives (and they can never be
//     reclaimed), but the tree on disk never receives the data.
//   * After a clean close and re-open the committed btree keys are gone (a removal committed that
//     way is likewise undone: the removed key comes back).
//
// Correct behaviour: a postponed transaction must be applied completely once it is processed;
// after `commit` returned Ok, `get`/`iter` on the btree column must report the set key and must
// not report the removed key, both before and after a re-open.

use parity_db::{ColumnOptions, Db, NewNode, Operation, Options};

fn options(path: &std::path::Path) -> Options {
	let mut options = Options::with_columns(path, 2);
	// column 0: multitree, column 1: btree
	options.columns[0] =
		ColumnOptions { multitree: true, allow_direct_node_access: true, ..Default::default() };
	options.columns[1] = ColumnOptions { btree_index: true, ..Default::default() };
	options.with_background_thread = false;
	options.always_flush = true;
	options.salt = Some([0; 32]);
	options
}

fn drain(db: &Db) {
	for _ in 0..8 {
		db.process_commits().unwrap();
		db.flush_logs().unwrap();
		db.enact_logs().unwrap();
		db.clean_logs().unwrap();
	}
}

fn collect(db: &Db) -> Vec<(Vec<u8>, Vec<u8>)> {
	let mut it = db.iter(1).unwrap();
	it.seek_to_first().unwrap();
	let mut out = Vec::new();
	while let Some(kv) = it.next().unwrap() {
		out.push(kv);
	}
	out
}

#[test]
fn deferred_transaction_keeps_its_btree_changes() {
	let dir = tempfile::tempdir().unwrap();
	let options = options(dir.path());
	let tree_key = vec![7u8; 32];
	{
		let db = Db::open_or_create(&options).unwrap();

		// A tree in the multitree column and one key in the btree column, fully written.
		db.commit_changes(vec![
			(
				0u8,
				Operation::InsertTree(
					tree_key.clone(),
					NewNode { data: b"root".to_vec(), children: vec![] },
				),
			),
			(1u8, Operation::Set(b"old".to_vec(), b"old-value".to_vec())),
		])
		.unwrap();
		drain(&db);
		assert_eq!(db.get(1, b"old").unwrap(), Some(b"old-value".to_vec()));

		// A reader locks the tree: the removal of the tree has to be postponed.
		let reader = db.get_tree(0, &tree_key).unwrap().expect("tree exists");
		let guard = reader.read();

		// Transaction A: remove the tree, set one btree key, remove another btree key.
		db.commit_changes(vec![
			(0u8, Operation::DereferenceTree(tree_key.clone())),
			(1u8, Operation::Set(b"new".to_vec(), b"new-value".to_vec())),
			(1u8, Operation::Dereference(b"old".to_vec())),
		])
		.unwrap();
		// Transaction B queued behind A (unrelated key), so that A gets a new id when postponed.
		db.commit_changes(vec![(1u8, Operation::Set(b"other".to_vec(), b"x".to_vec()))]).unwrap();

		// A is postponed behind B, B is processed.
		db.process_commits().unwrap();
		db.process_commits().unwrap();
		drop(guard);
		drop(reader);
		// Now A is processed and everything is written to the files.
		drain(&db);

		// While the handle lives, the stale overlay entries hide the loss.
		assert_eq!(db.get(1, b"new").unwrap(), Some(b"new-value".to_vec()));
		assert_eq!(db.get(1, b"old").unwrap(), None);
	}

	// Clean close, re-open: the state must be the same.
	let db = Db::open(&options).unwrap();
	let all = collect(&db);
	let expected = vec![
		(b"new".to_vec(), b"new-value".to_vec()),
		(b"other".to_vec(), b"x".to_vec()),
	];
	assert_eq!(
		db.get(1, b"new").unwrap(),
		Some(b"new-value".to_vec()),
		"committed btree key lost by a postponed transaction; iterator sees {:?}",
		all
	);
	assert_eq!(db.get(1, b"old").unwrap(), None, "removed btree key is back");
	assert_eq!(all, expected);
}
