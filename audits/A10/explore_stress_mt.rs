// Multi-threaded stress: stable keys must always be seen exactly once, in order (exploration tool).
use parity_db::{ColumnOptions, Db, Options};
use rand::{rngs::SmallRng, Rng, SeedableRng};
use std::sync::{
	atomic::{AtomicBool, Ordering},
	Arc,
};

fn key(i: u32) -> Vec<u8> {
	format!("{:05}", i).into_bytes()
}

#[test]
fn stress_mt() {
	let dir = tempfile::tempdir().unwrap();
	let mut options = Options::with_columns(dir.path(), 1);
	options.columns[0] = ColumnOptions { btree_index: true, ..Default::default() };
	options.sync_wal = false;
	options.sync_data = false;
	let db = Arc::new(Db::open_or_create(&options).unwrap());
	const N: u32 = 600;
	// stable keys: even numbers
	db.commit((0..N).filter(|i| i % 2 == 0).map(|i| (0u8, key(i), Some(key(i))))).unwrap();
	let stop = Arc::new(AtomicBool::new(false));
	let secs: u64 = std::env::var("SECS").ok().and_then(|s| s.parse().ok()).unwrap_or(20);

	let writer = {
		let db = db.clone();
		let stop = stop.clone();
		std::thread::spawn(move || {
			let mut rng = SmallRng::seed_from_u64(1);
			while !stop.load(Ordering::Relaxed) {
				let n = rng.gen_range(1..30);
				let tx: Vec<_> = (0..n)
					.map(|_| {
						let i = rng.gen_range(0..N / 2) * 2 + 1;
						if rng.gen_range(0..2) == 0 {
							(0u8, key(i), None)
						} else {
							let len = rng.gen_range(0..200);
							(0u8, key(i), Some(vec![1u8; len]))
						}
					})
					.collect();
				db.commit(tx).unwrap();
			}
		})
	};
	let mut readers = Vec::new();
	for r in 0..3 {
		let db = db.clone();
		let stop = stop.clone();
		readers.push(std::thread::spawn(move || {
			let mut rng = SmallRng::seed_from_u64(100 + r);
			let mut rounds = 0u64;
			while !stop.load(Ordering::Relaxed) {
				rounds += 1;
				let mut it = db.iter(0).unwrap();
				if rng.gen_range(0..2) == 0 {
					it.seek_to_first().unwrap();
					let mut last: Option<Vec<u8>> = None;
					let mut expect = 0u32;
					while let Some((k, v)) = it.next().unwrap() {
						if let Some(l) = &last {
							assert!(l < &k, "not ascending: {:?} then {:?}", l, k);
						}
						let i: u32 = std::str::from_utf8(&k).unwrap().parse().unwrap();
						if i % 2 == 0 {
							assert_eq!(i, expect, "stable key skipped or repeated (fwd)");
							assert_eq!(v, k);
							expect += 2;
						}
						last = Some(k);
					}
					assert_eq!(expect, N, "stable keys missing at end (fwd)");
				} else {
					it.seek_to_last().unwrap();
					let mut last: Option<Vec<u8>> = None;
					let mut expect = N as i64 - 2;
					while let Some((k, v)) = it.prev().unwrap() {
						if let Some(l) = &last {
							assert!(l > &k, "not descending: {:?} then {:?}", l, k);
						}
						let i: u32 = std::str::from_utf8(&k).unwrap().parse().unwrap();
						if i % 2 == 0 {
							assert_eq!(i as i64, expect, "stable key skipped or repeated (bwd)");
							assert_eq!(v, k);
							expect -= 2;
						}
						last = Some(k);
					}
					assert_eq!(expect, -2, "stable keys missing at end (bwd)");
				}
				// random walk with direction changes
				{
					let start = rng.gen_range(0..N);
					it.seek(&key(start)).unwrap();
					// position: (value, inclusive)
					let mut pos: i64 = start as i64;
					let mut incl = true;
					for _ in 0..200 {
						let fwd = rng.gen_range(0..2) == 0;
						let got = if fwd { it.next().unwrap() } else { it.prev().unwrap() };
						// expected nearest stable key in that direction
						let exp_stable: Option<i64> = if fwd {
							let mut c = if incl { pos } else { pos + 1 };
							if c % 2 != 0 {
								c += 1
							}
							if c < N as i64 {
								Some(c)
							} else {
								None
							}
						} else {
							let mut c = if incl { pos } else { pos - 1 };
							if c % 2 != 0 {
								c -= 1
							}
							if c >= 0 {
								Some(c)
							} else {
								None
							}
						};
						match got {
							Some((k, _)) => {
								let i: i64 = std::str::from_utf8(&k).unwrap().parse().unwrap();
								if fwd {
									assert!(if incl { i >= pos } else { i > pos }, "walk fwd went back");
									assert!(exp_stable.map_or(true, |e| i <= e), "walk fwd skipped stable {exp_stable:?} got {i} from {pos} incl {incl}");
								} else {
									assert!(if incl { i <= pos } else { i < pos }, "walk bwd went forward");
									assert!(exp_stable.map_or(true, |e| i >= e), "walk bwd skipped stable {exp_stable:?} got {i} from {pos} incl {incl}");
								}
								pos = i;
								incl = false;
							},
							None => {
								assert!(exp_stable.is_none(), "walk ended early: expected {exp_stable:?} from {pos} incl {incl} fwd {fwd}");
								break
							},
						}
					}
				}
				// point reads of stable keys
				for _ in 0..50 {
					let i = rng.gen_range(0..N / 2) * 2;
					assert_eq!(db.get(0, &key(i)).unwrap(), Some(key(i)));
				}
			}
			rounds
		}));
	}
	std::thread::sleep(std::time::Duration::from_secs(secs));
	stop.store(true, Ordering::Relaxed);
	writer.join().unwrap();
	for r in readers {
		let rounds = r.join().unwrap();
		eprintln!("reader rounds {rounds}");
	}
}
