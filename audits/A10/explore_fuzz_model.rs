// Differential model test for btree columns (exploration tool, not a deliverable).
use parity_db::{ColumnOptions, CompressionType, Db, Options};
use rand::{rngs::SmallRng, Rng, SeedableRng};
use std::collections::BTreeMap;

#[derive(Debug, Clone)]
enum Pos {
	Start,
	End,
	Seeked(Vec<u8>),
	At(Vec<u8>),
}

fn model_next(m: &BTreeMap<Vec<u8>, Vec<u8>>, pos: &mut Pos) -> Option<(Vec<u8>, Vec<u8>)> {
	use std::ops::Bound::*;
	let r = match pos {
		Pos::Start => m.iter().next(),
		Pos::End => return None,
		Pos::Seeked(k) => m.range::<Vec<u8>, _>((Included(&*k), Unbounded)).next(),
		Pos::At(k) => m.range::<Vec<u8>, _>((Excluded(&*k), Unbounded)).next(),
	}
	.map(|(k, v)| (k.clone(), v.clone()));
	*pos = match &r {
		Some((k, _)) => Pos::At(k.clone()),
		None => Pos::End,
	};
	r
}

fn model_prev(m: &BTreeMap<Vec<u8>, Vec<u8>>, pos: &mut Pos) -> Option<(Vec<u8>, Vec<u8>)> {
	use std::ops::Bound::*;
	let r = match pos {
		Pos::End => m.iter().next_back(),
		Pos::Start => return None,
		Pos::Seeked(k) => m.range::<Vec<u8>, _>((Unbounded, Included(&*k))).next_back(),
		Pos::At(k) => m.range::<Vec<u8>, _>((Unbounded, Excluded(&*k))).next_back(),
	}
	.map(|(k, v)| (k.clone(), v.clone()));
	*pos = match &r {
		Some((k, _)) => Pos::At(k.clone()),
		None => Pos::Start,
	};
	r
}

fn gen_key(rng: &mut SmallRng, mode: u32) -> Vec<u8> {
	let alphabet: &[u8] = if mode % 2 == 0 { b"ab" } else { b"abcdefgh" };
	let len = match rng.gen_range(0..100) {
		0..=2 => 0,
		3..=60 => rng.gen_range(1..6),
		61..=80 => rng.gen_range(1..12),
		81..=90 => rng.gen_range(250..260),
		91..=97 => rng.gen_range(20..80),
		_ =>
			if mode % 3 == 0 {
				rng.gen_range(60_000..70_000)
			} else {
				rng.gen_range(1000..5000)
			},
	};
	if len >= 250 {
		// long common prefix, differences at the end
		let mut k = vec![b'a'; len];
		let n = k.len();
		k[n - 1] = alphabet[rng.gen_range(0..alphabet.len())];
		k[n - 2] = alphabet[rng.gen_range(0..alphabet.len())];
		k
	} else {
		(0..len).map(|_| alphabet[rng.gen_range(0..alphabet.len())]).collect()
	}
}

fn gen_val(rng: &mut SmallRng) -> Vec<u8> {
	let len = match rng.gen_range(0..100) {
		0..=4 => 0,
		5..=70 => rng.gen_range(1..40),
		71..=90 => rng.gen_range(40..600),
		91..=97 => rng.gen_range(600..6000),
		_ => rng.gen_range(30_000..140_000),
	};
	let b: u8 = rng.gen();
	(0..len).map(|i| b.wrapping_add((i % 7) as u8)).collect()
}

fn run(seed: u64, steps: usize) {
	let mut rng = SmallRng::seed_from_u64(seed);
	let dir = tempfile::tempdir().unwrap();
	let mut options = Options::with_columns(dir.path(), 1);
	let mode = (seed % 12) as u32;
	options.columns[0] = ColumnOptions {
		btree_index: true,
		compression: if mode % 4 == 3 { CompressionType::Lz4 } else { CompressionType::NoCompression },
		..Default::default()
	};
	if mode % 4 == 3 {
		options.compression_threshold.insert(0, 16);
	}
	options.with_background_thread = false;
	options.always_flush = true;
	options.salt = Some([0; 32]);
	let mut db = Db::open_or_create(&options).unwrap();
	let mut model: BTreeMap<Vec<u8>, Vec<u8>> = BTreeMap::new();
	let mut step = 0; let mut flushes = 0;
	while step < steps {
		// a batch of actions with an open iterator
		let inner = rng.gen_range(1..40);
		{
			let mut it = db.iter(0).unwrap();
			let mut pos = Pos::Start;
			for _ in 0..inner {
				step += 1;
				match rng.gen_range(0..100) {
					0..=24 => {
						// commit
						let n = if rng.gen_range(0..10) == 0 {
							rng.gen_range(10..60)
						} else {
							rng.gen_range(1..6)
						};
						let mut tx = Vec::new();
						let mut local: BTreeMap<Vec<u8>, Option<Vec<u8>>> = BTreeMap::new();
						for _ in 0..n {
							let k = if !model.is_empty() && rng.gen_range(0..3) == 0 {
								let i = rng.gen_range(0..model.len());
								model.keys().nth(i).unwrap().clone()
							} else {
								gen_key(&mut rng, mode)
							};
							if local.contains_key(&k) {
								continue
							}
							let remove_bias = if (step / 400) % 2 == 1 { 65 } else { 30 };
							if rng.gen_range(0..100) < remove_bias {
								local.insert(k.clone(), None);
								tx.push((0u8, k, None));
							} else {
								let v = gen_val(&mut rng);
								local.insert(k.clone(), Some(v.clone()));
								tx.push((0u8, k, Some(v)));
							}
						}
						db.commit(tx).unwrap();
						for (k, v) in local {
							match v {
								Some(v) => {
									model.insert(k, v);
								},
								None => {
									model.remove(&k);
								},
							}
						}
					},
					25..=34 => db.process_commits().unwrap(),
					35..=39 => { db.flush_logs().unwrap(); flushes += 1; if flushes >= 3 { db.clean_logs().unwrap(); db.enact_logs().unwrap(); db.clean_logs().unwrap(); flushes = 0; } },
					40..=44 => { db.clean_logs().unwrap(); db.enact_logs().unwrap(); db.clean_logs().unwrap(); flushes = 0; },
					45..=47 => db.clean_logs().unwrap(),
					48..=55 => {
						let k = if !model.is_empty() && rng.gen_range(0..2) == 0 {
							let i = rng.gen_range(0..model.len());
							model.keys().nth(i).unwrap().clone()
						} else {
							gen_key(&mut rng, mode)
						};
						it.seek(&k).unwrap();
						pos = Pos::Seeked(k);
					},
					56..=57 => {
						it.seek_to_first().unwrap();
						pos = Pos::Seeked(vec![]);
					},
					58..=59 => {
						it.seek_to_last().unwrap();
						pos = Pos::End;
					},
					60..=77 => {
						let got = it.next().unwrap();
						let before = pos.clone();
						let exp = model_next(&model, &mut pos);
						assert_eq!(
							got.as_ref().map(|(k, v)| (k.len(), &k[..k.len().min(12)], v.len())),
							exp.as_ref().map(|(k, v)| (k.len(), &k[..k.len().min(12)], v.len())),
							"seed {seed} step {step} next from {:?}",
							short(&before)
						);
						assert_eq!(got, exp, "seed {seed} step {step} next");
					},
					78..=93 => {
						let got = it.prev().unwrap();
						let before = pos.clone();
						let exp = model_prev(&model, &mut pos);
						assert_eq!(
							got.as_ref().map(|(k, v)| (k.len(), &k[..k.len().min(12)], v.len())),
							exp.as_ref().map(|(k, v)| (k.len(), &k[..k.len().min(12)], v.len())),
							"seed {seed} step {step} prev from {:?}",
							short(&before)
						);
						assert_eq!(got, exp, "seed {seed} step {step} prev");
					},
					_ => {
						let k = if !model.is_empty() && rng.gen_range(0..2) == 0 {
							let i = rng.gen_range(0..model.len());
							model.keys().nth(i).unwrap().clone()
						} else {
							gen_key(&mut rng, mode)
						};
						assert_eq!(
							db.get(0, &k).unwrap().as_ref(),
							model.get(&k),
							"seed {seed} step {step} get"
						);
					},
				}
			}
		}
		// full scan both ways
		if rng.gen_range(0..4) == 0 {
			let mut it = db.iter(0).unwrap();
			it.seek_to_first().unwrap();
			let mut n = 0;
			let mut mi = model.iter();
			while let Some((k, v)) = it.next().unwrap() {
				let (mk, mv) = mi.next().unwrap_or_else(|| panic!("seed {seed} step {step} extra key"));
				assert_eq!((&k, &v), (mk, mv), "seed {seed} step {step} scan");
				n += 1;
			}
			assert_eq!(n, model.len(), "seed {seed} step {step} scan len");
			it.seek_to_last().unwrap();
			let mut mi = model.iter().rev();
			let mut n = 0;
			while let Some((k, v)) = it.prev().unwrap() {
				let (mk, mv) = mi.next().unwrap();
				assert_eq!((&k, &v), (mk, mv), "seed {seed} step {step} rscan");
				n += 1;
			}
			assert_eq!(n, model.len(), "seed {seed} step {step} rscan len");
		}
		// reopen sometimes
		if rng.gen_range(0..25) == 0 {
			drop(db);
			db = Db::open(&options).unwrap();
			for (k, v) in model.iter() {
				assert_eq!(db.get(0, k).unwrap().as_ref(), Some(v), "seed {seed} step {step} reopen");
			}
		}
	}
}

fn short(p: &Pos) -> String {
	match p {
		Pos::Start => "Start".into(),
		Pos::End => "End".into(),
		Pos::Seeked(k) => format!("Seeked(len {} {:?})", k.len(), &k[..k.len().min(12)]),
		Pos::At(k) => format!("At(len {} {:?})", k.len(), &k[..k.len().min(12)]),
	}
}

#[test]
fn fuzz_model() {
	let start: u64 = std::env::var("SEED0").ok().and_then(|s| s.parse().ok()).unwrap_or(0);
	let n: u64 = std::env::var("NSEEDS").ok().and_then(|s| s.parse().ok()).unwrap_or(24);
	let steps: usize = std::env::var("STEPS").ok().and_then(|s| s.parse().ok()).unwrap_or(3000);
	for seed in start..start + n {
		eprintln!("seed {seed}");
		run(seed, steps);
	}
}
