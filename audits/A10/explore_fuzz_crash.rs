// Crash-image differential test for btree columns (exploration tool).
use parity_db::{ColumnOptions, Db, Options};
use rand::{rngs::SmallRng, Rng, SeedableRng};
use std::collections::BTreeMap;

type Model = BTreeMap<Vec<u8>, Vec<u8>>;

fn gen_key(rng: &mut SmallRng) -> Vec<u8> {
	let alphabet: &[u8] = b"abc";
	let len = match rng.gen_range(0..100) {
		0..=1 => 0,
		2..=80 => rng.gen_range(1..6),
		81..=94 => rng.gen_range(250..260),
		_ => rng.gen_range(1000..9000),
	};
	if len >= 250 {
		let mut k = vec![b'a'; len];
		let n = k.len();
		k[n - 1] = alphabet[rng.gen_range(0..alphabet.len())];
		k[n - 2] = alphabet[rng.gen_range(0..alphabet.len())];
		k
	} else {
		(0..len).map(|_| alphabet[rng.gen_range(0..alphabet.len())]).collect()
	}
}

fn gen_val(rng: &mut SmallRng) -> Vec<u8> {
	let len = match rng.gen_range(0..100) {
		0..=4 => 0,
		5..=80 => rng.gen_range(1..40),
		81..=96 => rng.gen_range(40..600),
		_ => rng.gen_range(4000..40000),
	};
	let b: u8 = rng.gen();
	(0..len).map(|i| b.wrapping_add((i % 7) as u8)).collect()
}

fn copy_dir(from: &std::path::Path, to: &std::path::Path) {
	std::fs::create_dir_all(to).unwrap();
	for e in std::fs::read_dir(from).unwrap() {
		let e = e.unwrap();
		if e.file_name() == "lock" {
			continue
		}
		std::fs::copy(e.path(), to.join(e.file_name())).unwrap();
	}
}

fn scan(db: &Db) -> Model {
	let mut it = db.iter(0).unwrap();
	it.seek_to_first().unwrap();
	let mut fwd = Vec::new();
	while let Some(kv) = it.next().unwrap() {
		fwd.push(kv);
	}
	it.seek_to_last().unwrap();
	let mut bwd = Vec::new();
	while let Some(kv) = it.prev().unwrap() {
		bwd.push(kv);
	}
	bwd.reverse();
	assert_eq!(fwd.len(), bwd.len(), "fwd/bwd scans differ");
	assert!(fwd == bwd, "fwd/bwd scans differ");
	for w in fwd.windows(2) {
		assert!(w[0].0 < w[1].0, "order");
	}
	fwd.into_iter().collect()
}

fn opts(path: &std::path::Path) -> Options {
	let mut options = Options::with_columns(path, 1);
	options.columns[0] = ColumnOptions { btree_index: true, ..Default::default() };
	options.with_background_thread = false;
	options.always_flush = true;
	options.salt = Some([0; 32]);
	options
}

fn apply_random_commit(rng: &mut SmallRng, db: &Db, model: &mut Model, remove_bias: u32) {
	let n = if rng.gen_range(0..10) == 0 { rng.gen_range(10..60) } else { rng.gen_range(1..6) };
	let mut tx = Vec::new();
	let mut local: Vec<(Vec<u8>, Option<Vec<u8>>)> = Vec::new();
	for _ in 0..n {
		let k = if !model.is_empty() && rng.gen_range(0..3) == 0 {
			let i = rng.gen_range(0..model.len());
			model.keys().nth(i).unwrap().clone()
		} else {
			gen_key(rng)
		};
		if rng.gen_range(0..100) < remove_bias {
			local.push((k.clone(), None));
			tx.push((0u8, k, None));
		} else {
			let v = gen_val(rng);
			local.push((k.clone(), Some(v.clone())));
			tx.push((0u8, k, Some(v)));
		}
	}
	db.commit(tx).unwrap();
	for (k, v) in local {
		match v {
			Some(v) => {
				model.insert(k, v);
			},
			None => {
				model.remove(&k);
			},
		}
	}
}

fn run(seed: u64, steps: usize) {
	let mut rng = SmallRng::seed_from_u64(seed);
	let dir = tempfile::tempdir().unwrap();
	let options = opts(dir.path());
	let db = Db::open_or_create(&options).unwrap();
	let mut model: Model = BTreeMap::new();
	// snapshots[i] = state after i commits
	let mut snapshots: Vec<Option<Model>> = vec![Some(model.clone())];
	let mut committed = 0usize;
	let mut processed = 0usize;
	let mut flushed = 0usize;
	let mut flushes = 0;
	for step in 0..steps {
		let remove_bias = if (step / 300) % 2 == 1 { 65 } else { 30 };
		match rng.gen_range(0..100) {
			0..=29 => {
				apply_random_commit(&mut rng, &db, &mut model, remove_bias);
				committed += 1;
				snapshots.push(Some(model.clone()));
			},
			30..=54 => {
				db.process_commits().unwrap();
				if processed < committed {
					processed += 1;
				}
			},
			55..=64 => {
				db.flush_logs().unwrap();
				flushed = processed;
				flushes += 1;
				if flushes >= 3 {
					db.clean_logs().unwrap();
					db.enact_logs().unwrap();
					db.clean_logs().unwrap();
					flushes = 0;
				}
			},
			65..=72 => {
				db.clean_logs().unwrap();
				db.enact_logs().unwrap();
				db.clean_logs().unwrap();
				flushes = 0;
			},
			73..=75 => db.clean_logs().unwrap(),
			76..=95 => { let _ = db.get(0, b"a").unwrap(); },
			_ => {
				// crash image
				let cdir = tempfile::tempdir().unwrap();
				copy_dir(dir.path(), cdir.path());
				let copts = opts(cdir.path());
				let cdb = Db::open(&copts)
					.unwrap_or_else(|e| panic!("seed {seed} step {step}: cannot open image: {e:?}"));
				let got = scan(&cdb);
				let mut matched = None;
				for i in flushed..=processed {
					if snapshots[i].as_ref() == Some(&got) {
						matched = Some(i);
						break
					}
				}
				assert!(
					matched.is_some(),
					"seed {seed} step {step}: recovered state matches no snapshot in {flushed}..={processed} ({} keys)",
					got.len()
				);
				for (k, v) in got.iter() {
					assert_eq!(cdb.get(0, k).unwrap().as_ref(), Some(v));
				}
				// keep working on the image for a while
				let mut cmodel = got;
				for _ in 0..rng.gen_range(1..12) {
					apply_random_commit(&mut rng, &cdb, &mut cmodel, remove_bias);
					if rng.gen_range(0..2) == 0 {
						cdb.process_commits().unwrap();
					}
				}
				for _ in 0..20 {
					cdb.process_commits().unwrap();
				}
				cdb.flush_logs().unwrap();
				cdb.enact_logs().unwrap();
				cdb.clean_logs().unwrap();
				assert!(scan(&cdb) == cmodel, "seed {seed} step {step}: image diverged after more work");
				drop(cdb);
				let cdb = Db::open(&copts).unwrap();
				assert!(scan(&cdb) == cmodel, "seed {seed} step {step}: image diverged after reopen");
			},
		}
		// forget old snapshots
		for s in snapshots.iter_mut().take(flushed) {
			*s = None;
		}
	}
}

#[test]
fn fuzz_crash() {
	let start: u64 = std::env::var("SEED0").ok().and_then(|s| s.parse().ok()).unwrap_or(0);
	let n: u64 = std::env::var("NSEEDS").ok().and_then(|s| s.parse().ok()).unwrap_or(10);
	let steps: usize = std::env::var("STEPS").ok().and_then(|s| s.parse().ok()).unwrap_or(1500);
	for seed in start..start + n {
		eprintln!("seed {seed}");
		run(seed, steps);
	}
}
