// audit_2: when a value moves to an address that does not fit the current index (address space
// overflow) while its key is found in the CURRENT index, the old index entry is neither replaced
// nor removed. The index grows, the new address is inserted into the new index, and the stale
// entry (pointing to the freed value slot) stays in the old index, from where reindexing carries
// it over into the new index: the key ends up with two index entries, one of them dangling.
//
// Run with:
//   CARGO_NET_OFFLINE=true cargo test --offline --release --features instrumentation \
//       --test audit_2 -- --nocapture
// (needs ~4.2 million tree nodes = ~150 MB of disk and ~30 s in release mode: an address only
// overflows a 16 bit index at value-table offset 2^22.)
//
// Faulty code: src/index.rs:427-431 (plan_insert_chunk returns NeedReindex for an address
// overflow before looking at `sub_index`) together with src/column.rs:867-873
// (write_plan_existing: remove_from_older_indexes only visits the reindex queue, and on
// NeedReindex the entry at `sub_index` of the then-current index is left as it is) and
// src/column.rs:771-782 (write_plan grows the index and inserts the new address, the former
// current index joins the reindex queue still holding the old address).
//
// Correct behaviour: after the move and the completed index growth the key has exactly one index
// entry and a consistency check of the index (Db::dump) reports nothing.

use parity_db::{CheckOptions, ColumnOptions, Db, NewNode, NodeRef, Operation, Options};
use std::{
	path::Path,
	sync::atomic::{AtomicUsize, Ordering},
};

const COL: u8 = 0;

static CORRUPTED_REPORTS: AtomicUsize = AtomicUsize::new(0);

struct Capture;
impl log::Log for Capture {
	fn enabled(&self, m: &log::Metadata) -> bool {
		m.level() <= log::Level::Warn
	}
	fn log(&self, record: &log::Record) {
		if record.level() <= log::Level::Warn {
			let text = format!("{}", record.args());
			println!("[{}] {}", record.level(), text);
			if text.starts_with("Corrupted value for index entry") {
				CORRUPTED_REPORTS.fetch_add(1, Ordering::SeqCst);
			}
		}
	}
	fn flush(&self) {}
}

fn options(path: &Path) -> Options {
	let mut options = Options::with_columns(path, 1);
	options.columns[0] = ColumnOptions {
		multitree: true,
		allow_direct_node_access: true,
		..Default::default()
	};
	options.salt = Some([7u8; 32]);
	options.stats = false;
	options.with_background_thread = false;
	options.always_flush = true;
	options
}

fn pump(db: &Db) {
	db.process_commits().unwrap();
	db.flush_logs().unwrap();
	db.enact_logs().unwrap();
	db.clean_logs().unwrap();
}

#[test]
fn moved_value_with_address_overflow_leaves_stale_index_entry() {
	log::set_logger(&Capture).unwrap();
	log::set_max_level(log::LevelFilter::Warn);
	let dir = tempfile::tempdir().unwrap();
	let db = Db::open_or_create(&options(dir.path())).unwrap();

	// The tree whose root value is going to move. 100 bytes of root data: some middle size tier.
	let root_a = NewNode { data: vec![0xaa; 100], children: vec![] };
	db.commit_changes([(COL, Operation::InsertTree(b"A".to_vec(), root_a))]).unwrap();
	pump(&db);

	// Fill the smallest size tier with more than 2^22 nodes.
	for t in 0u32..65 {
		let key = format!("tree{t}").into_bytes();
		let root = NewNode {
			data: vec![1],
			children: (0..255)
				.map(|_| {
					NodeRef::New(NewNode {
						data: vec![2],
						children: (0..255)
							.map(|_| NodeRef::New(NewNode { data: vec![3], children: vec![] }))
							.collect(),
					})
				})
				.collect(),
		};
		db.commit_changes([(COL, Operation::InsertTree(key, root))]).unwrap();
		pump(&db);
	}
	assert!(dir.path().join("index_00_16").exists());
	assert!(!dir.path().join("index_00_17").exists());

	// Sanity: the index is consistent so far.
	db.dump(CheckOptions::new(Some(COL), None, None, false, None, false, false))
		.unwrap();
	assert_eq!(CORRUPTED_REPORTS.load(Ordering::SeqCst), 0);

	// Replace the root of "A" by a tiny one: it moves to the smallest size tier, whose next free
	// offset is beyond what a 16 bit index can address.
	let root_a = NewNode { data: vec![0xbb], children: vec![] };
	db.commit_changes([(COL, Operation::InsertTree(b"A".to_vec(), root_a))]).unwrap();
	pump(&db);
	assert!(dir.path().join("index_00_17").exists(), "index should have grown");
	assert_eq!(db.get_root(COL, b"A").unwrap().map(|r| r.0), Some(vec![0xbb]));

	// Complete the growth.
	for _ in 0..1000 {
		db.process_reindex().unwrap();
		db.flush_logs().unwrap();
		db.enact_logs().unwrap();
		db.clean_logs().unwrap();
		if !dir.path().join("index_00_16").exists() {
			break
		}
	}
	assert!(!dir.path().join("index_00_16").exists(), "reindex should have completed");
	assert_eq!(db.get_root(COL, b"A").unwrap().map(|r| r.0), Some(vec![0xbb]));

	// The index must be consistent: every entry points to a live value.
	db.dump(CheckOptions::new(Some(COL), None, None, false, None, false, false))
		.unwrap();
	assert_eq!(
		CORRUPTED_REPORTS.load(Ordering::SeqCst),
		0,
		"index check reports entries that point to freed value slots (stale entry of the moved key)"
	);
}

