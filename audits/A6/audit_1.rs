// audit_1: a crash after the reference-count table of a multitree column has grown makes the
// next open discard the whole write-ahead log, losing committed (and synced) transactions.
//
// Run with:
//   CARGO_NET_OFFLINE=true cargo test --offline --release --features instrumentation \
//       --test audit_1 -- --nocapture
// (release is recommended: the test has to create ~1.3 million tree nodes in order to find 33
// node addresses that hash into the same 32-entry page of the reference-count table.)
//
// Faulty code: src/column.rs:1554-1558 (HashColumn::validate_plan, LogAction::InsertRefCount):
//
//     if record.table.index_bits() < tables.get_ref_count().id.index_bits() {
//         // Insertion into a previously dropped ref count.
//         return Err(Error::Corruption("Unexpected log ref count id".to_string()))
//     }
//
// The very same situation was repaired for the hash index (commit d4d256e, "recovery rejects a
// synced log whose record inserts into an older index that is not on disk") but the twin code
// path for the reference-count table still rejects the record.
//
// Scenario (no damaged file, plain process kill):
//   r1  a commit makes the 33rd reference count land in a full page of refcount_00_16: the
//       table grows (refcount_00_17). r1 writes 32 entries into refcount_00_16 and one into
//       refcount_00_17.
//   r2  the reindex batch copies refcount_00_16 into refcount_00_17 and drops refcount_00_16.
//   r1 and r2 are applied to the tables; their log files are not reclaimed yet.
//   r3  a further commit is written to the log and synced, but not applied yet.
//   -- kill --
// On the next open replay starts with r1, finds an insertion into refcount_00_16 which is no
// longer on disk while refcount_00_17 is, reports Corruption and throws away every log file,
// including r3.
//
// Correct behaviour: r1 and r2 are replayed (or skipped) harmlessly and r3 is applied: the tree
// committed in r3 is readable after the reopen.

use parity_db::{ColumnOptions, Db, NewNode, NodeRef, Operation, Options};
use std::{collections::HashMap, hash::Hasher, path::Path};

const COL: u8 = 0;

fn options(path: &Path) -> Options {
	let mut options = Options::with_columns(path, 1);
	options.columns[0] = ColumnOptions {
		multitree: true,
		allow_direct_node_access: true,
		..Default::default()
	};
	options.salt = Some([7u8; 32]);
	options.stats = false;
	options.with_background_thread = false;
	options.always_flush = true;
	options
}

// Same function as RefCountTable::chunk_index (src/ref_count.rs:249) for a 16 bit table.
fn ref_count_page(address: u64) -> u64 {
	let mut hasher = siphasher::sip::SipHasher::new();
	hasher.write_u64(address);
	hasher.finish() >> (64 - 16)
}

fn pump(db: &Db) {
	db.process_commits().unwrap();
	db.flush_logs().unwrap();
	db.enact_logs().unwrap();
}

fn copy_dir(from: &Path, to: &Path) {
	std::fs::create_dir_all(to).unwrap();
	for entry in std::fs::read_dir(from).unwrap() {
		let entry = entry.unwrap();
		if entry.metadata().unwrap().is_file() {
			std::fs::copy(entry.path(), to.join(entry.file_name())).unwrap();
		}
	}
}

#[test]
fn ref_count_growth_then_crash_loses_synced_commits() {
	let _ = env_logger::try_init();
	let dir = tempfile::tempdir().unwrap();
	let live = dir.path().join("live");
	let image = dir.path().join("image");
	std::fs::create_dir_all(&live).unwrap();

	let db = Db::open_or_create(&options(&live)).unwrap();

	// Phase 1: create leaf nodes until 33 of them share a page of the 16 bit ref count table.
	let mut pages: HashMap<u64, Vec<u64>> = HashMap::new();
	let mut colliding: Option<Vec<u64>> = None;
	let mut total = 0usize;
	for t in 0u32..60 {
		let key = format!("tree{t}").into_bytes();
		let root = NewNode {
			data: vec![1],
			children: (0..255)
				.map(|_| {
					NodeRef::New(NewNode {
						data: vec![2],
						children: (0..255)
							.map(|_| NodeRef::New(NewNode { data: vec![3], children: vec![] }))
							.collect(),
					})
				})
				.collect(),
		};
		db.commit_changes([(COL, Operation::InsertTree(key.clone(), root))]).unwrap();
		pump(&db);
		db.clean_logs().unwrap();

		let (_, mids) = db.get_root(COL, &key).unwrap().unwrap();
		assert_eq!(mids.len(), 255);
		for mid in mids {
			let (_, leaves) = db.get_node(COL, mid).unwrap().unwrap();
			assert_eq!(leaves.len(), 255);
			for leaf in leaves {
				total += 1;
				let e = pages.entry(ref_count_page(leaf)).or_default();
				e.push(leaf);
				if e.len() == 33 && colliding.is_none() {
					colliding = Some(e.clone());
				}
			}
		}
		if colliding.is_some() {
			break
		}
	}
	let colliding = colliding.expect("no 33 colliding node addresses found");
	println!("{total} nodes created; 33 addresses share ref count page {}", ref_count_page(colliding[0]));
	// All logs written so far are reclaimed.
	db.clean_logs().unwrap();

	// r1: reference the 33 nodes a second time. The 33rd reference count does not fit the page.
	let sharing = NewNode {
		data: vec![4],
		children: colliding.iter().map(|a| NodeRef::Existing(*a)).collect(),
	};
	db.commit_changes([(COL, Operation::InsertTree(b"sharing".to_vec(), sharing))]).unwrap();
	pump(&db);
	assert!(live.join("refcount_00_16").exists());
	assert!(live.join("refcount_00_17").exists(), "the ref count table should have grown");

	// r2: the reindex batch, which also drops the old table.
	db.process_reindex().unwrap();
	db.flush_logs().unwrap();
	db.enact_logs().unwrap();
	assert!(!live.join("refcount_00_16").exists(), "old ref count table should be dropped");

	// r3: one more commit, written to the log and synced but not applied yet.
	let late = NewNode { data: b"late".to_vec(), children: vec![] };
	db.commit_changes([(COL, Operation::InsertTree(b"late".to_vec(), late))]).unwrap();
	db.process_commits().unwrap();
	db.flush_logs().unwrap();
	assert_eq!(db.get_root(COL, b"late").unwrap().map(|r| r.0), Some(b"late".to_vec()));

	// Kill: take the crash image while the handle is still open.
	copy_dir(&live, &image);

	let reopened = Db::open(&options(&image)).unwrap();
	// The trees applied before the crash are there ...
	assert!(reopened.get_root(COL, b"sharing").unwrap().is_some());
	// ... and so must be the one that was in the synced log.
	assert_eq!(
		reopened.get_root(COL, b"late").unwrap().map(|r| r.0),
		Some(b"late".to_vec()),
		"transaction that was written to the log and synced before the crash is lost"
	);
}
