// Exploration harness (not a deliverable): mutate the pending logs of a crash image in
// every way and check that open never panics / errors and leaves a prefix state.
#![cfg(feature = "instrumentation")]

use parity_db::{ColumnOptions, Db, Options};
use std::{
	collections::BTreeMap,
	fs,
	path::{Path, PathBuf},
};

type State = (BTreeMap<Vec<u8>, Vec<u8>>, BTreeMap<Vec<u8>, Vec<u8>>);

fn opts(path: &Path) -> Options {
	let mut o = Options::with_columns(path, 2);
	o.columns[1] = ColumnOptions { btree_index: true, ..Default::default() };
	o.sync_wal = false;
	o.sync_data = false;
	o.stats = false;
	o.salt = Some([0; 32]);
	o.with_background_thread = false;
	o
}

fn copy_dir(from: &Path, to: &Path) {
	let _ = fs::remove_dir_all(to);
	fs::create_dir_all(to).unwrap();
	for e in fs::read_dir(from).unwrap() {
		let e = e.unwrap();
		fs::copy(e.path(), to.join(e.file_name())).unwrap();
	}
}

fn key(i: u32) -> Vec<u8> {
	format!("key-{i:04}").into_bytes()
}

fn val(i: u32, gen: u32, len: usize) -> Vec<u8> {
	let mut v = format!("v{i}-{gen}-").into_bytes();
	while v.len() < len {
		v.push(b'a' + ((v.len() as u32 + gen) % 26) as u8);
	}
	v
}

type Tx = Vec<(u8, Vec<u8>, Option<Vec<u8>>)>;

fn txs() -> Vec<Tx> {
	vec![
		vec![(0, key(1), Some(val(1, 0, 20))), (1, key(1), Some(val(1, 0, 10)))],
		vec![(0, key(2), Some(val(2, 1, 100))), (1, key(2), Some(val(2, 1, 50)))],
		vec![(0, key(1), Some(val(1, 2, 300))), (0, key(3), Some(val(3, 2, 5)))],
		vec![(0, key(2), None), (1, key(1), None), (1, key(3), Some(val(3, 3, 7)))],
		vec![(0, key(4), Some(val(4, 4, 40))), (1, key(4), Some(val(4, 4, 40)))],
		vec![(0, key(3), None), (0, key(5), Some(val(5, 5, 60)))],
	]
}

fn apply(state: &mut State, tx: &Tx) {
	for (c, k, v) in tx {
		let m = if *c == 0 { &mut state.0 } else { &mut state.1 };
		match v {
			Some(v) => {
				m.insert(k.clone(), v.clone());
			},
			None => {
				m.remove(k);
			},
		}
	}
}

fn read_state(db: &Db) -> State {
	let mut s: State = Default::default();
	for i in 0..8 {
		if let Some(v) = db.get(0, &key(i)).unwrap() {
			s.0.insert(key(i), v);
		}
		if let Some(v) = db.get(1, &key(i)).unwrap() {
			s.1.insert(key(i), v);
		}
	}
	let mut it = db.iter(1).unwrap();
	it.seek_to_first().unwrap();
	let mut from_iter = BTreeMap::new();
	while let Some((k, v)) = it.next().unwrap() {
		from_iter.insert(k, v);
	}
	assert_eq!(from_iter, s.1, "btree iteration differs from gets");
	s
}

/// Builds the image. `enacted` first transactions are applied to the tables (their logs stay
/// on disk, unreclaimed); the others are only in flushed logs. `per_file` records per log file.
fn build_image(root: &Path, enacted: usize, per_file: usize) -> (PathBuf, Vec<State>) {
	let live = root.join("live");
	let image = root.join("image");
	let db = Db::open_or_create(&opts(&live)).unwrap();
	let mut states = vec![State::default()];
	let all = txs();
	for (n, tx) in all.iter().enumerate() {
		db.commit(tx.clone()).unwrap();
		db.process_commits().unwrap();
		if (n + 1) % per_file == 0 || n + 1 == all.len() {
			db.flush_logs().unwrap();
		}
		if n + 1 == enacted {
			db.flush_logs().unwrap();
			db.enact_logs().unwrap();
		}
		let mut s = states.last().unwrap().clone();
		apply(&mut s, tx);
		states.push(s);
	}
	copy_dir(&live, &image);
	drop(db);
	(image, states)
}

fn log_files(dir: &Path) -> Vec<PathBuf> {
	let mut v: Vec<_> = fs::read_dir(dir)
		.unwrap()
		.map(|e| e.unwrap().path())
		.filter(|p| {
			let n = p.file_name().unwrap().to_str().unwrap();
			n.starts_with("log") && n[3..].parse::<u32>().is_ok()
		})
		.collect();
	v.sort();
	v
}

/// Opens `dir`; returns Ok(index of the prefix state) or Err(description).
fn check(dir: &Path, states: &[State], min: usize) -> Result<usize, String> {
	let o = opts(dir);
	let r = std::panic::catch_unwind(|| {
		let db = match Db::open(&o) {
			Ok(db) => db,
			Err(e) => return Err(format!("open error: {e:?}")),
		};
		let s = read_state(&db);
		drop(db);
		Ok(s)
	});
	let s = match r {
		Ok(Ok(s)) => s,
		Ok(Err(e)) => return Err(e),
		Err(p) => {
			let msg = p
				.downcast_ref::<String>()
				.cloned()
				.or_else(|| p.downcast_ref::<&str>().map(|s| s.to_string()))
				.unwrap_or_default();
			return Err(format!("PANIC: {msg}"))
		},
	};
	match states.iter().position(|x| *x == s) {
		Some(k) if k >= min => Ok(k),
		Some(k) => Err(format!("state moved back to prefix {k} < {min}")),
		None => Err(format!("state is no prefix: {:?}", s)),
	}
}

fn run(enacted: usize, per_file: usize, full_bits: bool) -> Vec<String> {
	let root = tempfile::tempdir_in("/dev/shm").unwrap();
	let (image, states) = build_image(root.path(), enacted, per_file);
	let work = root.path().join("work");
	let logs = log_files(&image);
	let mut failures = Vec::new();
	eprintln!(
		"image enacted={enacted} per_file={per_file}: logs {:?}",
		logs.iter()
			.map(|p| (p.file_name().unwrap().to_str().unwrap().to_string(), fs::metadata(p).unwrap().len()))
			.collect::<Vec<_>>()
	);
	// sanity: unmodified image gives the full state
	copy_dir(&image, &work);
	assert_eq!(check(&work, &states, enacted), Ok(states.len() - 1));

	let mut report = |what: String, r: Result<usize, String>| {
		if let Err(e) = r {
			eprintln!("FAIL {what}: {e}");
			failures.push(format!("{what}: {e}"));
		}
	};
	for log in &logs {
		let name = log.file_name().unwrap().to_str().unwrap().to_string();
		let bytes = fs::read(log).unwrap();
		let first = log == &logs[0];
		// truncations
		for len in 0..bytes.len() {
			if first && len < 9 {
				continue
			}
			copy_dir(&image, &work);
			fs::write(work.join(&name), &bytes[..len]).unwrap();
			report(format!("e{enacted} p{per_file} truncate {name} to {len}"), check(&work, &states, enacted));
		}
		// bit flips
		for pos in 0..bytes.len() {
			if first && pos < 9 {
				continue
			}
			let bits: Vec<u8> = if full_bits { (0..8).collect() } else { vec![(pos % 8) as u8] };
			for bit in bits {
				copy_dir(&image, &work);
				let mut b = bytes.clone();
				b[pos] ^= 1 << bit;
				fs::write(work.join(&name), &b).unwrap();
				report(
					format!("e{enacted} p{per_file} flip {name} byte {pos} bit {bit}"),
					check(&work, &states, enacted),
				);
			}
		}
		// byte overwrite with interesting values
		for pos in 0..bytes.len() {
			if first && pos < 9 {
				continue
			}
			for v in [0u8, 0xff, 1, 2, 3, 4, 5, 6, 7] {
				if bytes[pos] == v {
					continue
				}
				copy_dir(&image, &work);
				let mut b = bytes.clone();
				b[pos] = v;
				fs::write(work.join(&name), &b).unwrap();
				report(
					format!("e{enacted} p{per_file} set {name} byte {pos} = {v}"),
					check(&work, &states, enacted),
				);
			}
		}
		// appended tails
		for tail in [
			vec![0u8],
			vec![1u8],
			vec![1u8, 0, 0, 0],
			vec![0xffu8; 16],
			vec![4u8, 0, 0, 0, 0],
			bytes.clone(),
			bytes[..bytes.len() / 2].to_vec(),
		] {
			copy_dir(&image, &work);
			let mut b = bytes.clone();
			b.extend_from_slice(&tail);
			fs::write(work.join(&name), &b).unwrap();
			report(
				format!("e{enacted} p{per_file} append {} bytes to {name}", tail.len()),
				check(&work, &states, enacted),
			);
		}
		// delete, duplicate
		copy_dir(&image, &work);
		fs::remove_file(work.join(&name)).unwrap();
		let r = check(&work, &states, 0);
		eprintln!("delete {name}: {r:?}");
		copy_dir(&image, &work);
		fs::copy(work.join(&name), work.join("log77")).unwrap();
		report(format!("e{enacted} p{per_file} duplicate {name} as log77"), check(&work, &states, enacted));
	}
	failures
}

#[test]
fn fuzz_pending_one_per_file() {
	let f = run(0, 1, true);
	assert!(f.is_empty(), "{} failures, first: {:?}", f.len(), &f[..f.len().min(10)]);
}

#[test]
fn fuzz_pending_three_per_file() {
	let f = run(0, 3, false);
	assert!(f.is_empty(), "{} failures, first: {:?}", f.len(), &f[..f.len().min(10)]);
}

#[test]
fn fuzz_two_enacted() {
	let f = run(2, 1, false);
	assert!(f.is_empty(), "{} failures, first: {:?}", f.len(), &f[..f.len().min(10)]);
}

#[test]
fn single_case() {
	let root = tempfile::tempdir_in("/dev/shm").unwrap();
	let (image, states) = build_image(root.path(), 0, 3);
	let work = root.path().join("work");
	copy_dir(&image, &work);
	fs::write(work.join("log0"), b"").unwrap();
	let r = check(&work, &states, 0);
	eprintln!("RESULT {r:?}");
}
