// Exploration harness: crash images taken while an index grows, with damaged pending logs.
#![cfg(feature = "instrumentation")]

use parity_db::{ColumnOptions, Db, Options};
use std::{
	collections::{BTreeMap, BTreeSet},
	fs,
	path::{Path, PathBuf},
};

type State = BTreeMap<Vec<u8>, Vec<u8>>;

fn opts(path: &Path) -> Options {
	let mut o = Options::with_columns(path, 1);
	o.columns[0] = ColumnOptions { uniform: true, ..Default::default() };
	o.sync_wal = false;
	o.sync_data = false;
	o.stats = false;
	o.salt = Some([0; 32]);
	o.with_background_thread = false;
	o
}

fn copy_dir(from: &Path, to: &Path) {
	let _ = fs::remove_dir_all(to);
	fs::create_dir_all(to).unwrap();
	for e in fs::read_dir(from).unwrap() {
		let e = e.unwrap();
		fs::copy(e.path(), to.join(e.file_name())).unwrap();
	}
}

fn key(i: u32) -> Vec<u8> {
	let mut k = vec![0u8; 32];
	k[0] = 0xab;
	k[1] = 0xcd;
	k[2] = (i * 37) as u8; // spread over the next bits
	k[3] = i as u8;
	k[4] = (i >> 8) as u8;
	k[5] = 0x11;
	k[6] = 0x22;
	k[7] = 0x33;
	k
}

fn val(i: u32, gen: u32) -> Vec<u8> {
	format!("value-{i}-{gen}").into_bytes()
}

type Tx = Vec<(u8, Vec<u8>, Option<Vec<u8>>)>;

fn txs() -> Vec<Tx> {
	let mut v: Vec<Tx> = Vec::new();
	v.push((0..40).map(|i| (0, key(i), Some(val(i, 0)))).collect());
	v.push((40..62).map(|i| (0, key(i), Some(val(i, 1)))).collect());
	v.push((62..70).map(|i| (0, key(i), Some(val(i, 2)))).collect()); // overflows the chunk
	v.push(vec![(0, key(3), None), (0, key(65), None), (0, key(70), Some(val(70, 3)))]);
	v.push(vec![(0, key(5), Some(val(5, 4))), (0, key(71), Some(val(71, 4)))]);
	v.push(vec![(0, key(6), None), (0, key(72), Some(val(72, 5)))]);
	v.push(vec![(0, key(7), Some(val(7, 6))), (0, key(73), Some(val(73, 6)))]);
	v.push(vec![(0, key(8), None), (0, key(74), Some(val(74, 7)))]);
	v
}

fn apply(state: &mut State, tx: &Tx) {
	for (_, k, v) in tx {
		match v {
			Some(v) => {
				state.insert(k.clone(), v.clone());
			},
			None => {
				state.remove(k);
			},
		}
	}
}

fn read_state(db: &Db) -> State {
	let mut s = State::new();
	for i in 0..80 {
		if let Some(v) = db.get(0, &key(i)).unwrap() {
			s.insert(key(i), v);
		}
	}
	s
}

fn first_id(p: &Path) -> Option<u64> {
	let b = fs::read(p).unwrap();
	if b.len() < 9 {
		return None
	}
	Some(u64::from_le_bytes(b[1..9].try_into().unwrap()))
}

fn log_files(dir: &Path) -> Vec<(u64, String)> {
	let mut v: Vec<_> = fs::read_dir(dir)
		.unwrap()
		.map(|e| e.unwrap().path())
		.filter(|p| {
			let n = p.file_name().unwrap().to_str().unwrap();
			n.starts_with("log") && n[3..].parse::<u32>().is_ok()
		})
		.filter_map(|p| first_id(&p).map(|id| (id, p.file_name().unwrap().to_str().unwrap().to_string())))
		.collect();
	v.sort();
	v
}

struct Image {
	dir: PathBuf,
	label: String,
	enacted_files: BTreeSet<String>,
	min_state: usize,
	max_state: usize,
}

fn check(dir: &Path, states: &[State], min: usize, max: usize) -> Result<usize, String> {
	let o = opts(dir);
	let r = std::panic::catch_unwind(|| {
		let db = match Db::open(&o) {
			Ok(db) => db,
			Err(e) => return Err(format!("open error: {e:?}")),
		};
		let s = read_state(&db);
		// the database must stay usable: finish pending index growth and read again
		for _ in 0..100 {
			db.process_reindex().unwrap();
			db.flush_logs().unwrap();
			db.enact_logs().unwrap();
		}
		let s2 = read_state(&db);
		drop(db);
		if s != s2 {
			return Err(format!("state changed while index growth completed: {} -> {} keys", s.len(), s2.len()))
		}
		Ok(s)
	});
	let s = match r {
		Ok(Ok(s)) => s,
		Ok(Err(e)) => return Err(e),
		Err(p) => {
			let msg = p
				.downcast_ref::<String>()
				.cloned()
				.or_else(|| p.downcast_ref::<&str>().map(|s| s.to_string()))
				.unwrap_or_default();
			return Err(format!("PANIC: {msg}"))
		},
	};
	match states.iter().position(|x| *x == s) {
		Some(k) if k >= min && k <= max => Ok(k),
		Some(k) => Err(format!("state is prefix {k}, outside {min}..={max}")),
		None => Err(format!("state is no prefix ({} keys)", s.len())),
	}
}

#[test]
fn fuzz_reindex_images() {
	let root = tempfile::tempdir_in("/dev/shm").unwrap();
	let live = root.path().join("live");
	let db = Db::open_or_create(&opts(&live)).unwrap();
	let all = txs();
	let mut states = vec![State::new()];
	for tx in &all {
		let mut s = states.last().unwrap().clone();
		apply(&mut s, tx);
		states.push(s);
	}
	let mut images: Vec<Image> = Vec::new();
	let mut logged = 0usize;
	let mut enacted_state = 0usize;
	let mut enacted_files = BTreeSet::new();
	let mut snap = |label: String, logged: usize, enacted_state: usize, enacted_files: &BTreeSet<String>| {
		let dir = root.path().join(format!("img{}", images.len()));
		copy_dir(&live, &dir);
		images.push(Image {
			dir,
			label,
			enacted_files: enacted_files.clone(),
			min_state: enacted_state,
			max_state: logged,
		});
	};
	for round in 0..14 {
		if logged < all.len() {
			db.commit(all[logged].clone()).unwrap();
			db.process_commits().unwrap();
			db.flush_logs().unwrap();
			logged += 1;
			snap(format!("round {round} after commit"), logged, enacted_state, &enacted_files);
		}
		if round % 3 == 2 {
			for _ in 0..20 {
				db.enact_logs().unwrap();
			}
			enacted_state = logged;
			enacted_files = log_files(&live).into_iter().map(|(_, n)| n).collect();
			snap(format!("round {round} after enact"), logged, enacted_state, &enacted_files);
		}
		for step in 0..3 {
			db.process_reindex().unwrap();
			db.flush_logs().unwrap();
			snap(format!("round {round} after reindex step {step}"), logged, enacted_state, &enacted_files);
		}
	}
	let mut failures = Vec::new();
	let work = root.path().join("work");
	for img in &images {
		let logs = log_files(&img.dir);
		eprintln!("image {:?}: logs {:?} enacted {:?} states {}..={}", img.label, logs, img.enacted_files, img.min_state, img.max_state);
		// unmodified image
		copy_dir(&img.dir, &work);
		match check(&work, &states, img.max_state, img.max_state) {
			Ok(_) => (),
			Err(e) => {
				eprintln!("FAIL {} unmodified: {e}", img.label);
				failures.push(format!("{} unmodified: {e}", img.label));
			},
		}
		for (n, (_id, name)) in logs.iter().enumerate() {
			if n == 0 || img.enacted_files.contains(name) {
				continue
			}
			let bytes = fs::read(img.dir.join(name)).unwrap();
			let mut muts: Vec<(String, Vec<u8>)> = Vec::new();
			for len in [9, 10, 12, 20, bytes.len() / 3, bytes.len() / 2, bytes.len() - 5, bytes.len() - 1] {
				if len < bytes.len() {
					muts.push((format!("truncate to {len}"), bytes[..len].to_vec()));
				}
			}
			for pos in [9, 10, 11, 12, 19, 20, 21, bytes.len() / 2, bytes.len() - 6, bytes.len() - 1] {
				if pos < bytes.len() {
					let mut b = bytes.clone();
					b[pos] ^= 0x10;
					muts.push((format!("flip byte {pos}"), b));
				}
			}
			for (what, b) in muts {
				copy_dir(&img.dir, &work);
				fs::write(work.join(name), &b).unwrap();
				if let Err(e) = check(&work, &states, img.min_state, img.max_state) {
					eprintln!("FAIL {} {name} {what}: {e}", img.label);
					failures.push(format!("{} {name} {what}: {e}", img.label));
				}
			}
		}
	}
	assert!(failures.is_empty(), "{} failures, first: {:?}", failures.len(), &failures[..failures.len().min(10)]);
}
