// audit_1: recovery rejects a synced log whose record writes into an older reference-count
// table that is no longer on disk (multitree columns) - the log is discarded and a partly
// applied transaction stays torn.
//
// Run (from the crate root, takes ~1 minute, needs ~1 GB in the temp dir):
//   CARGO_NET_OFFLINE=true cargo test --offline --release --features instrumentation \
//       --test audit_1 -- --nocapture
//
// Faulty code: src/column.rs:1554-1558 (HashColumn::validate_plan, LogAction::InsertRefCount):
//
//     if record.table.index_bits() < tables.get_ref_count().id.index_bits() {
//         // Insertion into a previously dropped ref count.
//         return Err(Error::Corruption("Unexpected log ref count id".to_string()))
//     }
//
// The same situation for *index* tables was repaired by commit d4d256e ("recovery rejects a
// synced log whose record inserts into an older index that is not on disk"), the reference
// count tables of multitree columns were left with the old behaviour.
//
// Scenario (all with the stepping API, every log record is synced before it is applied):
//   R1  a tree insertion increments the reference count of 33 existing nodes whose addresses
//       fall into the same page of the 16 bit reference count table: the page (32 entries)
//       fills up, table rc17 is started. R1 writes to rc16 and rc17.
//   R2  the reindex record moves rc16 into rc17 and drops rc16 (file refcount_00_16 removed).
//   R3  a transaction that sets 200 keys in another column. The process stops while R3 is
//       being applied (some values written, some not). The three log files are still there
//       (not reclaimed yet).
// Reopen: replay starts with R1; R1 writes to rc16, which is older than the table on disk
// (rc17) and missing -> "Corruption" -> record rejected, *all* logs discarded. R3, which was
// committed, synced and half applied, is never completed.
//
// Correct behaviour: the open replays R1, R2, R3 (re-creating rc16 as a reindex source until
// the DropRefCountTable of R2 removes it again, as is done for indexes) and all 200 keys of R3
// are present; at the very least the 200 keys must be all present or all absent.
// Observed: Db::open succeeds, but only a part of the 200 keys of R3 is present.

use parity_db::{ColumnOptions, Db, NewNode, NodeRef, Operation, Options};
use std::{collections::HashMap, hash::Hasher, path::Path};

const TREE_COL: u8 = 0;
const KV_COL: u8 = 1;
const WITNESS_KEYS: usize = 200;

fn options(path: &Path) -> Options {
	let mut o = Options::with_columns(path, 2);
	o.columns[TREE_COL as usize] = ColumnOptions {
		multitree: true,
		allow_direct_node_access: true,
		..Default::default()
	};
	o.salt = Some([7u8; 32]);
	o.stats = false;
	o.with_background_thread = false;
	o.always_flush = true;
	o
}

fn copy_dir(from: &Path, to: &Path) {
	let _ = std::fs::remove_dir_all(to);
	std::fs::create_dir_all(to).unwrap();
	for e in std::fs::read_dir(from).unwrap() {
		let e = e.unwrap();
		std::fs::copy(e.path(), to.join(e.file_name())).unwrap();
	}
}

// log -> synced -> applied to the tables. Log files are NOT reclaimed.
fn pump(db: &Db) {
	db.process_commits().unwrap();
	db.flush_logs().unwrap();
	db.enact_logs().unwrap();
}

// Page of the 16 bit reference count table an address belongs to (src/ref_count.rs chunk_index).
fn rc16_page(address: u64) -> u64 {
	let mut h = siphasher::sip::SipHasher::new();
	h.write_u64(address);
	h.finish() >> 48
}

fn leaf(i: u32) -> NodeRef {
	NodeRef::New(NewNode { data: i.to_le_bytes().to_vec(), children: vec![] })
}

fn witness_key(i: usize) -> Vec<u8> {
	format!("witness key {i}").into_bytes()
}
fn witness_value(i: usize) -> Vec<u8> {
	// two different value tables
	if i % 2 == 0 {
		vec![i as u8; 10]
	} else {
		vec![i as u8; 100]
	}
}

#[test]
fn log_writing_to_dropped_ref_count_table_is_discarded() {
	let tmp = std::env::temp_dir().join("paritydb_audit_1");
	let _ = std::fs::remove_dir_all(&tmp);
	let base = tmp.join("base");

	// ---- base database: ~1M tree nodes, cleanly closed. Find 33 nodes in one rc16 page.
	let shared: Vec<u64> = {
		let db = Db::open_or_create(&options(&base)).unwrap();
		let mut pages: HashMap<u64, Vec<u64>> = HashMap::new();
		let mut found = None;
		for t in 0..40u32 {
			let root = NewNode {
				data: t.to_le_bytes().to_vec(),
				children: (0..255u32)
					.map(|i| {
						NodeRef::New(NewNode {
							data: i.to_le_bytes().to_vec(),
							children: (0..255u32).map(leaf).collect(),
						})
					})
					.collect(),
			};
			let key = format!("base tree {t}").into_bytes();
			db.commit_changes([(TREE_COL, Operation::InsertTree(key.clone(), root))]).unwrap();
			pump(&db);
			db.clean_logs().unwrap();
			let (_, children) = db.get_root(TREE_COL, &key).unwrap().unwrap();
			for inner in children {
				for a in db.get_node_children(TREE_COL, inner).unwrap().unwrap() {
					let page = pages.entry(rc16_page(a)).or_default();
					page.push(a);
					if page.len() == 33 && found.is_none() {
						found = Some(page.clone());
					}
				}
			}
			if found.is_some() {
				println!("33 colliding node addresses found after {} trees", t + 1);
				break
			}
		}
		found.expect("no full page, add more nodes")
	};
	assert!(!base.join("refcount_00_16").exists());

	// Control: the same crash, but tree B shares only 3 nodes (no growth of the reference
	// count table). Recovery completes R3: this part passes on the unmodified source.
	std::panic::set_hook(Box::new(|_| {})); // the lookups of a torn image panic, keep it quiet
	for allowed_io in [300usize, 1500] {
		let r = crash_and_recover(&tmp, &base, &shared[..3], false, allowed_io);
		assert_eq!(r, Some((WITNESS_KEYS, 0)), "control run, crash after {allowed_io} operations");
	}

	let mut torn = Vec::new();
	for allowed_io in [300usize, 900, 1500, 2500] {
		match crash_and_recover(&tmp, &base, &shared, true, allowed_io) {
			Some((present, panicked)) => {
				if (present != 0 && present != WITNESS_KEYS) || panicked != 0 {
					torn.push((allowed_io, present, panicked));
				}
			},
			None => break, // R3 was applied completely: no crash point any more
		}
	}
	let _ = std::panic::take_hook();
	let _ = std::fs::remove_dir_all(&tmp);
	assert!(
		torn.is_empty(),
		"transaction R3 is torn after recovery (crash point, keys present, lookups that panic): {torn:?}"
	);
}

// Runs R1, R2, R3 on a copy of the base database, stops while R3 is applied (after
// `allowed_io` file operations), recovers the crash image and returns (keys of R3 present,
// lookups that panicked). None if R3 was applied completely.
fn crash_and_recover(
	tmp: &Path,
	base: &Path,
	shared: &[u64],
	expect_growth: bool,
	allowed_io: usize,
) -> Option<(usize, usize)> {
	let work = tmp.join(format!("work_{}_{allowed_io}", shared.len()));
	let image = tmp.join(format!("image_{}_{allowed_io}", shared.len()));
	copy_dir(base, &work);
	let db = Db::open(&options(&work)).unwrap();

	// R1: reference count increments into one page of rc16 (33 of them: growth to rc17).
	let tree_b = NewNode {
		data: b"B".to_vec(),
		children: shared.iter().map(|a| NodeRef::Existing(*a)).collect(),
	};
	db.commit_changes([(TREE_COL, Operation::InsertTree(b"tree B".to_vec(), tree_b))]).unwrap();
	pump(&db);
	assert!(work.join("refcount_00_16").exists());
	assert_eq!(work.join("refcount_00_17").exists(), expect_growth);

	// R2: reindex rc16 -> rc17, drop rc16.
	for _ in 0..4 {
		db.process_reindex().unwrap();
		db.flush_logs().unwrap();
		db.enact_logs().unwrap();
	}
	if expect_growth {
		assert!(!work.join("refcount_00_16").exists(), "rc16 dropped by the reindex record");
		assert!(work.join("refcount_00_17").exists());
	}

	// R3: the witness transaction, synced, then the process stops while it is applied.
	db.commit_changes(
		(0..WITNESS_KEYS).map(|i| (KV_COL, Operation::Set(witness_key(i), witness_value(i)))),
	)
	.unwrap();
	db.process_commits().unwrap();
	db.flush_logs().unwrap();
	parity_db::set_number_of_allowed_io_operations(allowed_io);
	let r = db.enact_logs();
	parity_db::set_number_of_allowed_io_operations(usize::MAX);
	if r.is_ok() {
		std::mem::forget(db);
		return None
	}
	copy_dir(&work, &image); // the crash image
	std::mem::forget(db); // the process is gone

	// ---- recovery
	let db = Db::open(&options(&image)).expect("a crash image must open");
	let mut present = 0;
	let mut panicked = 0;
	for i in 0..WITNESS_KEYS {
		// A torn record leaves index entries that point into a value table without a file:
		// the lookup then panics (src/file.rs:155). Count it instead of dying.
		let r = std::panic::catch_unwind(std::panic::AssertUnwindSafe(|| {
			db.get(KV_COL, &witness_key(i)).unwrap()
		}));
		match r {
			Ok(Some(v)) => {
				assert_eq!(v, witness_value(i));
				present += 1;
			},
			Ok(None) => (),
			Err(_) => panicked += 1,
		}
	}
	println!(
		"{} shared nodes, crash after {allowed_io} file operations of R3: {present}/{WITNESS_KEYS} keys of R3 present after recovery, {panicked} lookups panicked",
		shared.len()
	);
	assert!(db.get_root(TREE_COL, b"tree B").unwrap().is_some());
	drop(db);
	let _ = std::fs::remove_dir_all(&work);
	let _ = std::fs::remove_dir_all(&image);
	Some((present, panicked))
}
