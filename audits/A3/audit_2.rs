// AUDIT A3 / defect 2: dropping a handle whose background workers failed truncates applied log
// files without flushing the tables first.
//
// How to run (from the crate root):
//   CARGO_NET_OFFLINE=true cargo test --offline --features verif --test audit_2 -- --nocapture
// (feature `verif` implies `instrumentation`; it is only needed for Db::verif_run_worker, which
// runs the body of a background worker on the calling thread so that the thread-local I/O fault
// injector reaches it. With real background threads the same happens on any worker error.)
//
// Faulty code: src/db.rs:1398, in DbInner::kill_logs:
//     if let Some(err) = self.bg_err.lock().as_ref() {
//         ...
//         self.log.clean_logs(self.log.num_dirty_logs())?;   // <-- no Column::flush before
//         return Ok(())
//     }
// Every other caller of Log::clean_logs (DbInner::clean_logs, src/db.rs:1342, and
// DbInner::clean_all_logs, src/db.rs:1359) msyncs all columns first. Log::clean_logs
// (src/log.rs:977) truncates the files and makes the truncation durable with sync_all.
//
// Scenario: transaction {A, B} is logged, its log file is synced (from here on the transaction
// must survive any power loss) and it is applied to the memory mapped tables; the log file now
// waits in the cleanup queue for the next table flush. Then a background worker fails (here:
// the log worker gets an I/O error while writing the next record), which stores the error and
// shuts the workers down. The application drops the handle. kill_logs takes the error branch:
// it truncates the applied log file (durably) but never msyncs the tables. The machine loses
// power before the kernel writes the dirty table pages back: the tables are as they were at the
// last flush and the log that could repair them is gone.
//
// Correct behaviour: a log file is not truncated before all table changes it describes were
// flushed; after any power loss recovery returns {A, B} because their log record was synced.
// (Either flush the columns before cleaning in the error branch, or do not clean at all.)

use parity_db::{ColumnOptions, Db, Options};
use std::{
	collections::BTreeMap,
	path::{Path, PathBuf},
	sync::Mutex,
};

// ---------------------------------------------------------------------------------------------
// Power-loss model
// ---------------------------------------------------------------------------------------------

struct Tracker {
	dir: Option<PathBuf>,
	// file name -> content known to be on disk
	durable: BTreeMap<String, Vec<u8>>,
	syncs: usize,
}

static TRACKER: Mutex<Tracker> = Mutex::new(Tracker { dir: None, durable: BTreeMap::new(), syncs: 0 });

fn tracked_name(t: &Tracker, path: &Path) -> Option<String> {
	let dir = t.dir.as_ref()?;
	if path.parent()? == dir.as_path() {
		Some(path.file_name()?.to_str()?.to_string())
	} else {
		None
	}
}

fn on_sync_fd(fd: libc::c_int) {
	let path = match std::fs::read_link(format!("/proc/self/fd/{fd}")) {
		Ok(p) => p,
		Err(_) => return,
	};
	let mut t = TRACKER.lock().unwrap();
	if let Some(name) = tracked_name(&t, &path) {
		if let Ok(content) = std::fs::read(&path) {
			t.durable.insert(name, content);
			t.syncs += 1;
		}
	}
}

fn on_sync_addr(addr: usize, len: usize) {
	// Find the file mapping that contains `addr`.
	let maps = match std::fs::read_to_string("/proc/self/maps") {
		Ok(m) => m,
		Err(_) => return,
	};
	for line in maps.lines() {
		let mut it = line.splitn(6, ' ');
		let range = it.next().unwrap_or("");
		let _perms = it.next();
		let offset = it.next().unwrap_or("0");
		let _dev = it.next();
		let _inode = it.next();
		let path = it.next().unwrap_or("").trim();
		let (start, end) = match range.split_once('-') {
			Some((s, e)) => (
				usize::from_str_radix(s, 16).unwrap_or(0),
				usize::from_str_radix(e, 16).unwrap_or(0),
			),
			None => continue,
		};
		if addr < start || addr >= end || !path.starts_with('/') {
			continue
		}
		let file_off = usize::from_str_radix(offset, 16).unwrap_or(0) + (addr - start);
		let path = PathBuf::from(path);
		let mut t = TRACKER.lock().unwrap();
		if let Some(name) = tracked_name(&t, &path) {
			if let Ok(content) = std::fs::read(&path) {
				let d = t.durable.entry(name).or_default();
				// msync also makes the file size durable.
				d.resize(content.len(), 0);
				let from = file_off.min(content.len());
				let to = file_off.saturating_add(len).min(content.len());
				d[from..to].copy_from_slice(&content[from..to]);
				t.syncs += 1;
			}
		}
		return
	}
}

#[no_mangle]
pub unsafe extern "C" fn fsync(fd: libc::c_int) -> libc::c_int {
	let r = libc::syscall(libc::SYS_fsync, fd) as libc::c_int;
	if r == 0 {
		on_sync_fd(fd);
	}
	r
}

#[no_mangle]
pub unsafe extern "C" fn fdatasync(fd: libc::c_int) -> libc::c_int {
	let r = libc::syscall(libc::SYS_fdatasync, fd) as libc::c_int;
	if r == 0 {
		on_sync_fd(fd);
	}
	r
}

#[no_mangle]
pub unsafe extern "C" fn msync(
	addr: *mut libc::c_void,
	len: libc::size_t,
	flags: libc::c_int,
) -> libc::c_int {
	let r = libc::syscall(libc::SYS_msync, addr, len, flags) as libc::c_int;
	if r == 0 {
		on_sync_addr(addr as usize, len);
	}
	r
}

fn track(dir: Option<&Path>) {
	TRACKER.lock().unwrap().dir = dir.map(|d| d.to_path_buf());
}

fn copy_dir(from: &Path, to: &Path) {
	let _ = std::fs::remove_dir_all(to);
	std::fs::create_dir_all(to).unwrap();
	for e in std::fs::read_dir(from).unwrap() {
		let e = e.unwrap();
		if e.metadata().unwrap().is_file() {
			write_sparse(&to.join(e.file_name()), &std::fs::read(e.path()).unwrap());
		}
	}
}

const PAGE: usize = 4096;
static ZERO_PAGE: [u8; PAGE] = [0u8; PAGE];

// Writes `content` leaving holes for zero pages (the index file is 32 MiB of mostly zeroes).
fn write_sparse(path: &Path, content: &[u8]) {
	use std::os::unix::fs::FileExt;
	let f = std::fs::File::create(path).unwrap();
	f.set_len(content.len() as u64).unwrap();
	for (p, page) in content.chunks(PAGE).enumerate() {
		if page != &ZERO_PAGE[..page.len()] {
			f.write_all_at(page, (p * PAGE) as u64).unwrap();
		}
	}
}

#[derive(Clone, Debug)]
enum TableChoice {
	// Nothing written since the last sync reached the disk.
	AllDurable,
	// Everything reached the disk.
	AllCurrent,
	// Exactly one unsynced page (file, page number) reached the disk.
	OnePage(String, usize),
	// All unsynced pages of one file reached the disk.
	OneFile(String),
	// All unsynced pages except one (file, page number) reached the disk.
	AllButOnePage(String, usize),
}

// Content of a table file if none of its unsynced pages reached the disk.
fn durable_of(durable: &BTreeMap<String, Vec<u8>>, name: &str, current: &[u8]) -> Vec<u8> {
	let mut d = durable.get(name).cloned().unwrap_or_default();
	// Never synced parts read as zeroes (the file size is taken from the current file: growing
	// a file and losing the new size is not what this test is about).
	d.resize(current.len(), 0);
	d
}

fn is_table(name: &str) -> bool {
	name.starts_with("index_") || name.starts_with("table_") || name.starts_with("refcount_")
}

fn dirty_pages(dir: &Path, durable: &BTreeMap<String, Vec<u8>>) -> Vec<(String, usize)> {
	let mut r = Vec::new();
	for e in std::fs::read_dir(dir).unwrap() {
		let e = e.unwrap();
		let name = e.file_name().to_str().unwrap().to_string();
		if !is_table(&name) {
			continue
		}
		let cur = std::fs::read(e.path()).unwrap();
		let dur = durable_of(durable, &name, &cur);
		for (p, (a, b)) in cur.chunks(PAGE).zip(dur.chunks(PAGE)).enumerate() {
			if a != b {
				r.push((name.clone(), p));
			}
		}
	}
	r.sort();
	r
}

// Builds in `image` a disk content that is admissible after a power loss with the files of
// `dir` as they are now and `durable` known to be on disk.
fn build_image(
	dir: &Path,
	durable: &BTreeMap<String, Vec<u8>>,
	choice: &TableChoice,
	log_tail_survives: bool,
	image: &Path,
) {
	let _ = std::fs::remove_dir_all(image);
	std::fs::create_dir_all(image).unwrap();
	for e in std::fs::read_dir(dir).unwrap() {
		let e = e.unwrap();
		let name = e.file_name().to_str().unwrap().to_string();
		let cur = std::fs::read(e.path()).unwrap();
		let content = if name.starts_with("log") {
			let dur = durable.get(&name).cloned().unwrap_or_default();
			if log_tail_survives || !cur.starts_with(&dur) {
				cur
			} else {
				// Only the synced prefix of the appended bytes survives.
				dur
			}
		} else if is_table(&name) {
			let dur = durable_of(durable, &name, &cur);
			match choice {
				TableChoice::AllDurable => dur,
				TableChoice::AllCurrent => cur,
				TableChoice::OneFile(f) =>
					if *f == name {
						cur
					} else {
						dur
					},
				TableChoice::AllButOnePage(f, p) => {
					let mut c = cur;
					if *f == name {
						let from = p * PAGE;
						let to = (from + PAGE).min(c.len());
						c[from..to].copy_from_slice(&dur[from..to]);
					}
					c
				},
				TableChoice::OnePage(f, p) => {
					let mut c = dur;
					if *f == name {
						let from = p * PAGE;
						let to = (from + PAGE).min(cur.len());
						c[from..to].copy_from_slice(&cur[from..to]);
					}
					c
				},
			}
		} else {
			cur
		};
		write_sparse(&image.join(&name), &content);
	}
}

// ---------------------------------------------------------------------------------------------
// The scenario
// ---------------------------------------------------------------------------------------------

fn options(path: &Path) -> Options {
	let mut o = Options::with_columns(path, 1);
	o.columns[0] = ColumnOptions::default();
	o.salt = Some([0u8; 32]);
	o.stats = false;
	o.sync_wal = true;
	o.sync_data = true;
	o.with_background_thread = false;
	o.always_flush = true;
	o
}

fn key(n: u8) -> Vec<u8> {
	vec![n; 32]
}

fn value(n: u8) -> Vec<u8> {
	vec![n; 40]
}

#[derive(Debug, PartialEq, Eq)]
enum Outcome {
	OpenFailed(String),
	State { old: bool, a: Option<Vec<u8>>, b: Option<Vec<u8>> },
}

fn recover_and_read(image: &Path) -> Outcome {
	track(None);
	let db = match Db::open(&options(image)) {
		Ok(db) => db,
		Err(e) => return Outcome::OpenFailed(format!("{e:?}")),
	};
	let get = |k: u8| db.get(0, &key(k));
	let r = match (get(1), get(2), get(3)) {
		(Ok(old), Ok(a), Ok(b)) => Outcome::State { old: old == Some(value(1)), a, b },
		other => Outcome::OpenFailed(format!("read error {other:?}")),
	};
	drop(db);
	r
}

// Checks every admissible image of `dir`; the synced transaction {A, B} has to be there.
fn check_images(dir: &Path, image: &Path, instant: &str, violations: &mut Vec<String>) -> usize {
	let durable = TRACKER.lock().unwrap().durable.clone();
	let dirty = dirty_pages(dir, &durable);
	let mut choices = vec![TableChoice::AllDurable];
	if !dirty.is_empty() {
		choices.push(TableChoice::AllCurrent);
	}
	for (f, p) in dirty.iter() {
		choices.push(TableChoice::OnePage(f.clone(), *p));
		choices.push(TableChoice::AllButOnePage(f.clone(), *p));
		choices.push(TableChoice::OneFile(f.clone()));
	}
	let mut images = 0;
	for choice in choices {
		for log_tail_survives in [false, true] {
			build_image(dir, &durable, &choice, log_tail_survives, image);
			images += 1;
			let outcome = recover_and_read(image);
			let expected =
				Outcome::State { old: true, a: Some(value(2)), b: Some(value(3)) };
			if outcome != expected {
				violations.push(format!(
					"power loss {instant}, {choice:?}, unsynced log tail {}: {outcome:?}",
					if log_tail_survives { "survives" } else { "lost" },
				));
			}
		}
	}
	images
}

#[test]
fn handle_dropped_after_a_worker_error_truncates_logs_of_unflushed_changes() {
	let tmp = tempfile::tempdir().unwrap();
	let live = tmp.path().join("live");
	let image = tmp.path().join("image");

	track(Some(&live));
	let db = Db::open_or_create(&options(&live)).unwrap();
	// An old transaction that went through the whole pipeline: everything about it is durable.
	db.commit(vec![(0u8, key(1), Some(value(1)))]).unwrap();
	db.process_commits().unwrap();
	db.flush_logs().unwrap();
	db.enact_logs().unwrap();
	db.clean_logs().unwrap();
	assert!(TRACKER.lock().unwrap().syncs > 0, "the sync interposers are not in effect");

	// The transaction {A, B}: logged, log synced, applied to the tables (not flushed yet).
	db.commit(vec![(0u8, key(2), Some(value(2))), (0u8, key(3), Some(value(3)))]).unwrap();
	db.process_commits().unwrap();
	db.flush_logs().unwrap();
	db.enact_logs().unwrap();
	assert_eq!(db.get(0, &key(2)).unwrap(), Some(value(2)));

	let mut violations = Vec::new();
	let mut images = 0;
	track(None);
	images += check_images(&live, &image, "before the worker error", &mut violations);
	assert!(violations.is_empty(), "sanity: the synced log still protects the transaction");

	// The log worker fails with an I/O error while it writes the next record.
	track(Some(&live));
	db.commit(vec![(0u8, key(4), Some(value(4)))]).unwrap();
	parity_db::set_number_of_allowed_io_operations(0);
	db.verif_run_worker(2);
	parity_db::set_number_of_allowed_io_operations(usize::MAX);
	assert!(db.verif_pipeline_state().5, "the worker error was not recorded");
	assert!(
		matches!(db.commit(vec![(0u8, key(5), Some(value(5)))]), Err(parity_db::Error::Background(_))),
		"the handle must be in the error state"
	);
	track(None);
	images += check_images(&live, &image, "after the worker error", &mut violations);
	assert!(violations.is_empty(), "sanity: the synced log still protects the transaction");

	// The application gives up and drops the handle.
	track(Some(&live));
	drop(db);
	track(None);
	images += check_images(&live, &image, "after the handle was dropped", &mut violations);

	println!("{images} admissible disk images checked, {} violate the property", violations.len());
	for v in violations.iter() {
		println!("  {v}");
	}
	assert!(
		violations.is_empty(),
		"a transaction whose log record was synced is lost: its log file was truncated before \
		 the tables were flushed (first: {})",
		violations[0]
	);
}
