use parity_db::{ColumnOptions, CompressionType, Db, Operation, Options};
use std::collections::BTreeMap;

fn val(i: u32, len: usize, compressible: bool) -> Vec<u8> {
	let mut v = Vec::with_capacity(len);
	let mut x = i.wrapping_mul(2654435761).wrapping_add(12345);
	for n in 0..len {
		if compressible {
			v.push(((n / 97) as u8).wrapping_add(i as u8));
		} else {
			x ^= x << 13;
			x ^= x >> 17;
			x ^= x << 5;
			v.push(x as u8);
		}
	}
	v
}

fn key(i: u32) -> Vec<u8> {
	let mut k = vec![0u8; 32];
	let mut x = i.wrapping_mul(0x9E3779B1).wrapping_add(7);
	for b in k.iter_mut() {
		x ^= x << 13;
		x ^= x >> 17;
		x ^= x << 5;
		*b = x as u8;
	}
	k
}

fn colopts(preimage: bool, rc: bool, comp: CompressionType, uniform: bool) -> ColumnOptions {
	ColumnOptions { preimage, ref_counted: rc, compression: comp, uniform, ..Default::default() }
}

fn contents(path: &std::path::Path, cols: &[ColumnOptions], model: &[BTreeMap<u32, (Vec<u8>, u32)>]) -> Vec<String> {
	let mut o = Options::with_columns(path, cols.len() as u8);
	o.columns = cols.to_vec();
	let db = Db::open(&o).unwrap();
	let mut errs = vec![];
	for (c, m) in model.iter().enumerate() {
		for (k, (v, _)) in m {
			let got = db.get(c as u8, &key(*k)).unwrap();
			if got.as_ref() != Some(v) {
				errs.push(format!("col {c} key {k}: len {:?} expected {}", got.map(|g| g.len()), v.len()));
			}
		}
		// rc multiset via value iteration
		let mut seen: BTreeMap<Vec<u8>, u32> = BTreeMap::new();
		let mut n = 0;
		db.iter_column_while(c as u8, |s| {
			n += 1;
			seen.insert(s.value, s.rc);
			true
		})
		.unwrap();
		if n != m.len() {
			errs.push(format!("col {c}: {} values in tables, expected {}", n, m.len()));
		}
		for (k, (v, rc)) in m {
			let exp = if cols[c].ref_counted { *rc } else { 1 };
			if seen.get(v) != Some(&exp) {
				errs.push(format!("col {c} key {k}: rc {:?} expected {}", seen.get(v), exp));
			}
		}
	}
	errs
}

fn run(src_c: ColumnOptions, dst_c: ColumnOptions, overwrite: bool, force: bool, nkeys: u32) -> Vec<String> {
	let dir = tempfile::tempdir().unwrap();
	let src = dir.path().join("src");
	let dst = dir.path().join("dst");
	let other = colopts(true, true, CompressionType::Snappy, false);
	let src_cols = vec![other.clone(), src_c.clone(), other.clone()];
	let dst_cols = vec![other.clone(), dst_c.clone(), other.clone()];
	let mut model: Vec<BTreeMap<u32, (Vec<u8>, u32)>> = vec![Default::default(); 3];
	{
		let mut o = Options::with_columns(&src, 3);
		o.columns = src_cols.clone();
		let db = Db::open_or_create(&o).unwrap();
		for i in 0..nkeys {
			let len = match i % 7 {
				0 => 0,
				1 => 10,
				2 => 5000,
				3 => 40000,
				4 => 100000,
				5 => 300,
				_ => 33000,
			};
			let v = val(i, len + (i as usize % 5), i % 2 == 0);
			let rc = 1 + i % 3;
			for c in 0..3u8 {
				let refc = src_cols[c as usize].ref_counted;
				let mut ops = vec![(c, Operation::Set(key(i), v.clone()))];
				if refc {
					for _ in 1..rc {
						ops.push((c, Operation::Reference(key(i))));
					}
				}
				db.commit_changes(ops).unwrap();
				model[c as usize].insert(i, (v.clone(), if refc { rc } else { 1 }));
			}
		}
	}
	let mut errs = contents(&src, &src_cols, &model);
	assert!(errs.is_empty(), "setup {:?}", errs);
	let mut to = Options::with_columns(&dst, 3);
	to.columns = dst_cols.clone();
	let forced: Vec<u8> = if force { vec![0] } else { vec![] };
	parity_db::migrate(&src, to, overwrite, &forced).unwrap();
	// expected model in dest: rc collapses to 1 if the dest is not ref counted
	let mut exp = model.clone();
	for (_, e) in exp[1].iter_mut() {
		if !dst_c.ref_counted {
			e.1 = 1;
		}
	}
	if overwrite {
		errs.extend(contents(&src, &dst_cols, &exp).into_iter().map(|e| format!("inplace: {e}")));
	} else {
		errs.extend(contents(&src, &src_cols, &model).into_iter().map(|e| format!("src: {e}")));
		errs.extend(contents(&dst, &dst_cols, &exp).into_iter().map(|e| format!("dst: {e}")));
	}
	errs
}

#[test]
fn sanity_matrix() {
	use CompressionType::*;
	let variants = [
		colopts(false, false, NoCompression, false),
		colopts(false, false, Lz4, false),
		colopts(true, false, Snappy, false),
		colopts(true, true, NoCompression, false),
		colopts(true, true, Lz4, false),
	];
	let mut all = vec![];
	for (a, s) in variants.iter().enumerate() {
		for (b, d) in variants.iter().enumerate() {
			for overwrite in [false, true] {
				let force = (a + b) % 2 == 0;
				let errs = run(s.clone(), d.clone(), overwrite, force, 35);
				if !errs.is_empty() {
					all.push(format!("{a}->{b} overwrite={overwrite} force={force}: {} errs, first: {:?}", errs.len(), &errs[..errs.len().min(4)]));
				}
			}
		}
	}
	assert!(all.is_empty(), "{:#?}", all);
}
