// audit_3: migrating (re-populating) a multitree hash column copies only the tree roots; every
// non-root node is lost and the copied roots point to addresses that do not exist.
//
// Run:  CARGO_NET_OFFLINE=true cargo test --offline --test audit_3
//
// What it shows: `migrate` refuses btree columns ("Migrate only implemented for hash indexed
// column to hash indexed column", src/migration.rs:61-67) but accepts hash columns with
// `multitree = true`. Such a column keeps only the tree ROOTS in the hash index; all other nodes
// live in the value tables and are reachable only through the 64-bit table addresses stored in
// their parent (src/db.rs:343-377 get_node). Migration reads the source with
// `iter_column_index_while` (index entries only) and re-inserts `Set(root_key, packed root)` in
// the destination (src/migration.rs:79-94). The packed root still contains the *source* addresses
// of its children, but no child is ever copied, so in the destination the children are missing
// (or, once other data was written, alias unrelated entries). migrate() returns Ok(()).
// On the unmodified source the test fails while reading the first child in the destination:
// the child's value table has no file there, so `get_node` panics with
// "called `Option::unwrap()` on a `None` value" at src/file.rs:155 (a dangling address); with a
// destination that already has that table file it is reported as a missing / foreign node.
// The same happens when only a reference-counting / preimage flag of the multitree column changes
// (then the column is selected automatically), and in place (`overwrite`) it destroys the source.
//
// Correct behaviour: the destination holds the same trees as the source (property C20: every key
// returns the same value ... columns are copied); a minimal fix is to reject multitree columns
// in the same check that rejects btree columns, or to copy them file by file when their options
// are unchanged.
//
// Faulty code: src/migration.rs:61-67 (check does not exclude `multitree`), :79-94.

use parity_db::{ColumnOptions, Db, NewNode, NodeRef, Operation, Options};

fn options(path: &std::path::Path) -> Options {
	let mut o = Options::with_columns(path, 1);
	o.columns[0] =
		ColumnOptions { multitree: true, allow_direct_node_access: true, ..Default::default() };
	o
}

fn tree() -> NewNode {
	NewNode {
		data: b"root".to_vec(),
		children: vec![
			NodeRef::New(NewNode { data: b"left child".to_vec(), children: vec![] }),
			NodeRef::New(NewNode {
				data: b"right child".to_vec(),
				children: vec![NodeRef::New(NewNode { data: b"grandchild".to_vec(), children: vec![] })],
			}),
		],
	}
}

/// Collects the node data of the whole tree in depth-first order.
fn read_tree(db: &Db, key: &[u8]) -> Result<Vec<Vec<u8>>, String> {
	let (data, children) = db.get_root(0, key).map_err(|e| e.to_string())?.ok_or("no root")?;
	let mut out = vec![data];
	let mut stack: Vec<u64> = children.into_iter().rev().collect();
	while let Some(a) = stack.pop() {
		let (data, children) = db
			.get_node(0, a)
			.map_err(|e| format!("node {a:#x}: {e}"))?
			.ok_or(format!("node {a:#x} is missing"))?;
		out.push(data);
		stack.extend(children.into_iter().rev());
	}
	Ok(out)
}

#[test]
fn migration_of_multitree_column_loses_all_nodes() {
	let dir = tempfile::tempdir().unwrap();
	let src = dir.path().join("src");
	let dst = dir.path().join("dst");
	let key = b"tree-1".to_vec();
	{
		let db = Db::open_or_create(&options(&src)).unwrap();
		db.commit_changes(vec![(0u8, Operation::InsertTree(key.clone(), tree()))]).unwrap();
	}
	let expected: Vec<Vec<u8>> =
		vec![b"root".to_vec(), b"left child".to_vec(), b"right child".to_vec(), b"grandchild".to_vec()];
	{
		let db = Db::open(&options(&src)).unwrap();
		assert_eq!(read_tree(&db, &key).unwrap(), expected, "source");
	}

	// Same options, column re-population forced (documented use of `force_migrate`).
	parity_db::migrate(&src, options(&dst), false, &[0]).unwrap();

	let db = Db::open(&options(&dst)).unwrap();
	assert_eq!(read_tree(&db, &key), Ok(expected), "destination tree differs from the source tree");
}
