// audit_1: migration loses every key that still lives in an older index generation of the source.
//
// Run:  CARGO_NET_OFFLINE=true cargo test --offline --features instrumentation --test audit_1
//
// What it shows: a source database that was closed while an index growth ("reindex") was still
// pending has two index files for the column (index_00_16 holding the old entries, index_00_17
// the new ones). This is a perfectly valid, fully readable database: Db::get finds every key
// (it searches the queued older indexes too) and a normal close does not finish a reindex.
// `migrate` reads the source with `Db::iter_column_index_while` -> `HashColumn::iter_index`
// -> `iter_index_internal` (src/column.rs:1646-1726), which walks ONLY `tables.index` (the
// newest index, column.rs:1653) and never the indexes in `self.reindex.queue`. Every key that has
// not been moved to the newest index yet by the time the scan passes its chunk is silently
// not copied; `migrate` returns Ok(()).
// (The source's own background reindex runs concurrently with the scan, it is not waited for:
// src/migration.rs:48 opens the source and :79 immediately iterates.)
//
// Correct behaviour: every key of the source is present in the destination with the same value
// (property C20), i.e. migration must either iterate all index generations (skipping duplicates)
// or finish the pending reindex before iterating.
//
// Faulty code: src/column.rs:1652-1656 (iter_index_internal only scans tables.index),
// used by src/migration.rs:79.

#![cfg(feature = "instrumentation")]

use parity_db::{ColumnOptions, CompressionType, Db, Options};

fn key(i: u8) -> [u8; 32] {
	// zero salt + uniform column: the key bytes are the hash. All keys share the first 16 bits
	// (and the first 17), so they all land in index chunk 0.
	let mut k = [0u8; 32];
	k[3] = i;
	k[10] = i;
	k[31] = 0xa5;
	k
}

fn source_options(path: &std::path::Path) -> Options {
	let mut o = Options::with_columns(path, 1);
	o.salt = Some([0; 32]);
	o.columns[0] = ColumnOptions { uniform: true, ..Default::default() };
	o
}

const N: u8 = 70;

fn make_source(src: &std::path::Path) {
	{
		let mut o = source_options(src);
		o.with_background_thread = false;
		o.always_flush = true;
		let db = Db::open_or_create(&o).unwrap();
		for i in 0..N {
			db.commit(vec![(0u8, key(i).to_vec(), Some(vec![i; 20]))]).unwrap();
			db.process_commits().unwrap();
			db.flush_logs().unwrap();
			db.enact_logs().unwrap();
			db.clean_logs().unwrap();
		}
		// no process_reindex(): the handle is closed while index growth 16 -> 17 is pending,
		// exactly as a normal close in the middle of a (long) reindex leaves the files.
	}
	assert!(src.join("index_00_16").exists(), "test setup: old index generation expected");
	assert!(src.join("index_00_17").exists(), "test setup: new index generation expected");

	// The source is a valid database: every key is readable.
	{
		let mut o = source_options(src);
		o.with_background_thread = false;
		let db = Db::open(&o).unwrap();
		for i in 0..N {
			assert_eq!(db.get(0, &key(i)).unwrap(), Some(vec![i; 20]), "source key {i}");
		}
	}
	assert!(src.join("index_00_16").exists());
}

fn missing_keys(o: &Options) -> Vec<u8> {
	let db = Db::open(o).unwrap();
	let mut missing = vec![];
	for i in 0..N {
		match db.get(0, &key(i)).unwrap() {
			Some(v) => assert_eq!(v, vec![i; 20]),
			None => missing.push(i),
		}
	}
	missing
}

/// Same defect with `overwrite = true`: the incomplete copy replaces the source column, so the
/// keys are destroyed in the user's only copy of the data although migrate() reports success.
#[test]
fn in_place_migration_destroys_keys_of_pending_reindex() {
	let dir = tempfile::tempdir().unwrap();
	let src = dir.path().join("src");
	let tmp = dir.path().join("tmp");
	make_source(&src);
	let mut to = source_options(&tmp);
	to.columns[0].compression = CompressionType::Lz4;
	parity_db::migrate(&src, to.clone(), true, &[]).unwrap();
	to.path = src.clone();
	let missing = missing_keys(&to);
	assert!(
		missing.is_empty(),
		"in-place migrate() returned Ok but {} of {} keys are gone from the source: {:?}",
		missing.len(),
		N,
		missing
	);
}

#[test]
fn migration_drops_keys_of_pending_reindex() {
	let dir = tempfile::tempdir().unwrap();
	let src = dir.path().join("src");
	let dst = dir.path().join("dst");
	make_source(&src);

	// Migrate to a destination that only differs in compression.
	let mut to = source_options(&dst);
	to.columns[0].compression = CompressionType::Lz4;
	parity_db::migrate(&src, to.clone(), false, &[]).unwrap();

	let missing = missing_keys(&to);
	assert!(
		missing.is_empty(),
		"migrate() returned Ok but {} of {} keys are missing in the destination: {:?}",
		missing.len(),
		N,
		missing
	);
}
