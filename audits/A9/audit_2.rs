// audit_2: migrating a database of an older (still supported) on-disk version silently relabels
// the data as CURRENT_VERSION without converting it; keys of `uniform` columns become unreachable
// (and with `overwrite` the SOURCE itself is damaged in place).
//
// Run:  CARGO_NET_OFFLINE=true cargo test --offline --test audit_2
//       (no cargo feature needed; also fails with --features instrumentation)
//
// What it shows: databases with metadata version 4..=7 are supported (LAST_SUPPORTED_VERSION = 4,
// src/options.rs:15) and are opened with their own version; the version selects the key hashing
// of `uniform` columns (src/column.rs:171-206: <=5 plain copy, 6..7 XOR with salt, 8 siphash) and
// details of the value-table format (src/table.rs:267-271, 545-557). The admin tool advertises
// `migrate` as "Migrate db (update version or change column options)" (admin/src/lib.rs:221).
//
//  (a) not in place: `migrate` creates the destination with `Db::open_or_create(&to)`
//      (src/migration.rs:49), i.e. with metadata version CURRENT_VERSION = 8
//      (src/options.rs:259-262), but
//        - selected columns are filled through `commit_raw` with the *source's* hashed keys
//          (src/migration.rs:79-94), which were computed with the source version's hash function,
//        - unselected columns are copied file by file (src/migration.rs:73).
//      Source options == destination options except compression, so the "key hashing scheme" in
//      the options is kept, yet in the destination (version 8 => siphash) no key of either column
//      can be found any more. migrate() returns Ok(()).
//  (b) in place (`overwrite = true`): `source_options.write_metadata(from, ..)`
//      (src/migration.rs:137-138) rewrites the SOURCE metadata with CURRENT_VERSION
//      (write_metadata == write_metadata_with_version(.., None), src/options.rs:190-217) after the
//      first migrated column, so every column of the source - also the ones that were not
//      selected and never touched - is from then on interpreted with version 8 rules.
//
// Correct behaviour: every key of the source returns the same value in the destination, columns
// that are not selected are copied unchanged *and stay readable*, and in-place migration leaves
// unselected columns readable (property C20). Either the destination / rewritten metadata must
// keep the source version, or keys must be re-derived for the new version (impossible from the
// hash alone for v8, so keeping the version - or refusing with an error - is the minimal fix).
//
// Faulty code: src/migration.rs:49 (destination version), src/migration.rs:137-138 (source
// metadata rewritten with the current version).

use parity_db::{ColumnOptions, CompressionType, Db, Options};
use std::path::Path;

const SALT: [u8; 32] = [0x5a; 32];
const OLD_VERSION: u32 = 7;

fn key(c: u8, i: u8) -> [u8; 32] {
	let mut k = [0u8; 32];
	for (n, b) in k.iter_mut().enumerate() {
		*b = (n as u8).wrapping_mul(37).wrapping_add(i.wrapping_mul(101)).wrapping_add(c);
	}
	k
}

fn options(path: &Path) -> Options {
	let mut o = Options::with_columns(path, 2);
	o.columns[0] = ColumnOptions { uniform: true, ..Default::default() };
	o.columns[1] = ColumnOptions { uniform: true, ..Default::default() };
	o
}

/// A database as left behind by a release that wrote metadata version 7.
fn make_old_source(path: &Path) {
	std::fs::create_dir_all(path).unwrap();
	options(path).write_metadata_with_version(path, &SALT, Some(OLD_VERSION)).unwrap();
	let db = Db::open(&options(path)).unwrap();
	for c in 0..2u8 {
		for i in 0..10u8 {
			db.commit(vec![(c, key(c, i).to_vec(), Some(vec![i; 10 + c as usize]))]).unwrap();
		}
	}
	drop(db);
	// still version 7 and fully readable
	assert_eq!(Options::load_metadata(path).unwrap().unwrap().version, OLD_VERSION);
	check(path, &options(path), "source before migration");
}

fn check(path: &Path, o: &Options, what: &str) {
	let mut o = o.clone();
	o.path = path.into();
	let db = Db::open(&o).unwrap();
	let mut missing = vec![];
	for c in 0..2u8 {
		for i in 0..10u8 {
			match db.get(c, &key(c, i)).unwrap() {
				Some(v) => assert_eq!(v, vec![i; 10 + c as usize]),
				None => missing.push((c, i)),
			}
		}
	}
	assert!(missing.is_empty(), "{what}: {} of 20 keys unreachable (col, key): {missing:?}", missing.len());
}

#[test]
fn a_migrate_to_new_directory_from_older_version() {
	let dir = tempfile::tempdir().unwrap();
	let src = dir.path().join("src");
	let dst = dir.path().join("dst");
	make_old_source(&src);

	let mut to = options(&dst);
	to.columns[0].compression = CompressionType::Lz4; // column 0 selected, column 1 not
	parity_db::migrate(&src, to.clone(), false, &[]).unwrap();

	check(&src, &options(&src), "source after migration");
	check(&dst, &to, "destination");
}

#[test]
fn b_migrate_in_place_from_older_version() {
	let dir = tempfile::tempdir().unwrap();
	let src = dir.path().join("src");
	let tmp = dir.path().join("tmp");
	make_old_source(&src);

	let mut to = options(&tmp);
	to.columns[0].compression = CompressionType::Lz4; // column 0 selected, column 1 not
	parity_db::migrate(&src, to.clone(), true, &[]).unwrap();

	// The source now has the new options; column 1 was not selected and must be untouched.
	check(&src, &to, "source after in-place migration");
}
