// audit_4: `migrate` panics (index out of bounds) when `force_migrate` names a column that does
// not exist, instead of returning Error::Migration.
//
// Run:  CARGO_NET_OFFLINE=true cargo test --offline --test audit_4
//
// What it shows: the forced column ids are inserted into `to_migrate` unchecked
// (src/migration.rs:30-32) and then used as an index into `source_options.columns`
// (src/migration.rs:62). The ids come straight from the command line of the admin tool
// (`--force-columns`, admin/src/lib.rs:82). Both databases are already open (and the destination
// directory has been created) when the panic happens.
//
// Correct behaviour: an `Err(Error::Migration(..))` such as "Invalid column index", like
// `clear_column` does (src/migration.rs:162-164), and no destination left behind.
//
// Faulty code: src/migration.rs:30-32 / :62.

use parity_db::{Db, Options};

#[test]
fn forced_column_out_of_range_is_an_error_not_a_panic() {
	let dir = tempfile::tempdir().unwrap();
	let src = dir.path().join("src");
	let dst = dir.path().join("dst");
	{
		let db = Db::open_or_create(&Options::with_columns(&src, 2)).unwrap();
		db.commit(vec![(0u8, b"k".to_vec(), Some(b"v".to_vec()))]).unwrap();
	}
	let r = std::panic::catch_unwind(|| {
		parity_db::migrate(&src, Options::with_columns(&dst, 2), false, &[2])
	});
	match r {
		Ok(Err(_)) => (), // expected: a proper error
		Ok(Ok(())) => panic!("migrate accepted a column that does not exist"),
		Err(_) => panic!("migrate panicked instead of returning an error"),
	}
}
